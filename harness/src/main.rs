//! Conformance harness for yuja/qmluic: ndjson in (stdin), ndjson out (stdout).
//!
//! Sub-commands:
//!   translate [--metatypes FILE]...   in-process uigen::build per (document, mode)
//!   color                             Color::from_str over a batch
//!   typemap                           TypeMap queries over hand-made class graphs
//!
//! Every translation runs under catch_unwind and a watchdog; a panic or time-out is data.

mod ir;
mod tmq;

use qmluic::diagnostic::{DiagnosticKind, Diagnostics};
use qmluic::metatype;
use qmluic::metatype_tweak;
use qmluic::diagnostic::ProjectDiagnostics;
use qmluic::qmldir;
use qmluic::qmldoc::{UiDocument, UiDocumentsCache};
use qmluic::qtname::FileNameRules;
use qmluic::typemap::{ModuleData, ModuleId, TypeMap};
use qmluic::uigen::{self, BuildContext, DynamicBindingHandling, XmlWriter};
use serde_json::{json, Value};
use std::cell::RefCell;
use std::fs;
use std::io::{self, BufRead, Write};
use std::panic::{self, AssertUnwindSafe};
use std::rc::Rc;
use std::sync::atomic::{AtomicU64, Ordering};
use std::sync::{Arc, Mutex};
use std::time::{Duration, Instant};

fn load_type_map(paths: &[String]) -> TypeMap {
    let mut type_map = TypeMap::with_primitive_types();
    let mut classes = Vec::new();
    for p in paths {
        let md = fs::metadata(p).unwrap_or_else(|e| panic!("metatypes {p}: {e}"));
        let mut files = Vec::new();
        if md.is_dir() {
            for e in fs::read_dir(p).unwrap() {
                let e = e.unwrap().path();
                if e.extension().map(|x| x == "json").unwrap_or(false) {
                    files.push(e);
                }
            }
            files.sort();
        } else {
            files.push(p.into());
        }
        for f in files {
            let data = fs::read_to_string(&f).unwrap();
            classes.extend(metatype::extract_classes_from_str(&data).unwrap());
        }
    }
    metatype_tweak::apply_all(&mut classes);
    let mut module_data = ModuleData::with_builtins();
    module_data.extend(classes);
    type_map.insert_module(ModuleId::Named("qmluic.QtWidgets"), module_data);
    type_map
}

fn mode_of(name: &str) -> DynamicBindingHandling {
    match name {
        "generate" => DynamicBindingHandling::Generate,
        "reject" => DynamicBindingHandling::Reject,
        "omit" => DynamicBindingHandling::Omit,
        _ => panic!("bad mode {name}"),
    }
}

fn diag_json(diagnostics: &Diagnostics) -> Vec<Value> {
    diagnostics
        .iter()
        .map(|d| {
            json!({
                "kind": match d.kind() { DiagnosticKind::Error => "error", DiagnosticKind::Warning => "warning" },
                "msg": d.message(),
                "s": d.start_byte(), "e": d.end_byte(),
                "labels": d.labels().iter().map(|(r, m)| json!([r.start, r.end, m])).collect::<Vec<_>>(),
                "notes": d.notes(),
            })
        })
        .collect()
}

fn render_report(doc: &UiDocument, diagnostics: &Diagnostics) -> Result<usize, String> {
    use codespan_reporting::files::SimpleFile;
    use codespan_reporting::term;
    let config = term::Config::default();
    let files = SimpleFile::new("<doc>", doc.source());
    let mut out = termcolor::NoColor::new(Vec::new());
    if doc.has_syntax_error() {
        let errors = doc.collect_syntax_errors();
        for d in qmluic_cli::reporting::make_reportable_syntax_errors(&errors) {
            term::emit_to_write_style(&mut out, &config, &files, &d).map_err(|e| e.to_string())?;
        }
    }
    for d in qmluic_cli::reporting::make_reportable_diagnostics(diagnostics) {
        term::emit_to_write_style(&mut out, &config, &files, &d).map_err(|e| e.to_string())?;
    }
    Ok(out.into_inner().len())
}

/// Writes the request's "files" into a scratch directory and registers the directory modules reachable from "path".
fn load_files(type_map: &mut TypeMap, req: &Value, docs_cache: &mut UiDocumentsCache) -> Option<(camino::Utf8PathBuf, Value)> {
    let files = req["files"].as_object()?;
    let base = std::env::temp_dir().join(format!("vh-{}-{}", std::process::id(), NEXT_DIR.fetch_add(1, Ordering::SeqCst)));
    let base = camino::Utf8PathBuf::from_path_buf(base).expect("utf-8 temp dir");
    for (name, content) in files {
        let p = base.join(name);
        fs::create_dir_all(p.parent().unwrap()).unwrap();
        fs::write(&p, content.as_str().unwrap()).unwrap();
    }
    let main = base.join(req["path"].as_str().expect("path"));
    let mut pd = ProjectDiagnostics::new();
    let r = qmldir::populate_directories(type_map, docs_cache, [&main], &mut pd);
    let info = json!({
        "populate_error": r.err().map(|e| e.to_string()),
        "project_diags": pd.iter().map(|(p, ds)| json!({"file": p.strip_prefix(&base).map(|x| x.to_string()).unwrap_or_else(|_| p.to_string()), "diags": diag_json(ds)})).collect::<Vec<_>>(),
    });
    Some((main, info))
}

static NEXT_DIR: AtomicU64 = AtomicU64::new(0);

fn translate_one(type_map: &mut TypeMap, req: &Value, mode_name: &str) -> Value {
    let mut docs_cache = UiDocumentsCache::new();
    let loaded = load_files(type_map, req, &mut docs_cache);
    let type_map: &TypeMap = type_map;
    let src = req["src"].as_str().map(|s| s.to_owned()).unwrap_or_default();
    let type_name = req["type_name"].as_str().unwrap_or("MyType").to_owned();
    let want_ir = req["ir"].as_bool().unwrap_or(false);
    let want_render = req["render"].as_bool().unwrap_or(false);
    let lowercase = req["lowercase"].as_bool().unwrap_or(true);
    let indent = req["indent"].as_bool().unwrap_or(true);
    let t0 = Instant::now();
    let parsed;
    let doc: &UiDocument = match &loaded {
        Some((main, _)) => match docs_cache.get(main) {
            Some(d) => d,
            None => return json!({"built": false, "load_error": "source not loaded", "files": loaded.as_ref().map(|x| x.1.clone())}),
        },
        None => {
            parsed = UiDocument::parse(src, type_name, None);
            &parsed
        }
    };
    let syntax_errors: Vec<Value> = if doc.has_syntax_error() {
        doc.collect_syntax_errors()
            .iter()
            .map(|e| json!([e.start_byte(), e.end_byte(), e.to_string()]))
            .collect()
    } else {
        vec![]
    };
    let rules = FileNameRules {
        lowercase,
        ..Default::default()
    };
    let ctx = BuildContext::prepare(type_map, rules, mode_of(mode_name)).expect("BuildContext");
    let mut diagnostics = Diagnostics::new();
    let irs: Rc<RefCell<Vec<Value>>> = Rc::new(RefCell::new(Vec::new()));
    if want_ir {
        let sink = irs.clone();
        uigen::verif::set_observer(Some(Box::new(move |oc| {
            sink.borrow_mut().push(ir::observed_to_json(oc));
        })));
    }
    let r = uigen::build(&ctx, doc, &mut diagnostics);
    uigen::verif::set_observer(None);
    let mut out = json!({
        "syntax_error": doc.has_syntax_error(),
        "syntax_errors": syntax_errors,
        "built": r.is_some(),
        "n_errors": diagnostics.iter().filter(|d| d.kind() == DiagnosticKind::Error).count(),
        "has_error": diagnostics.has_error(),
        "diags": diag_json(&diagnostics),
        "src_len": doc.source().len(),
    });
    if let Some((form, sup)) = r {
        let mut buf = Vec::new();
        let res = if indent {
            form.serialize_to_xml(&mut XmlWriter::new_with_indent(&mut buf, b' ', 1))
        } else {
            form.serialize_to_xml(&mut XmlWriter::new(&mut buf))
        };
        match res {
            Ok(()) => out["ui"] = json!(String::from_utf8_lossy(&buf)),
            Err(e) => out["ui_error"] = json!(e.to_string()),
        }
        if let Some(sup) = sup {
            let mut h = Vec::new();
            match sup.write_header(&mut h) {
                Ok(()) => out["header"] = json!(String::from_utf8_lossy(&h)),
                Err(e) => out["header_error"] = json!(e.to_string()),
            }
        }
    }
    if want_ir {
        out["ir"] = Value::Array(irs.borrow_mut().drain(..).collect());
    }
    if want_render {
        match render_report(doc, &diagnostics) {
            Ok(n) => out["render_bytes"] = json!(n),
            Err(e) => out["render_error"] = json!(e),
        }
    }
    out["wall_us"] = json!(t0.elapsed().as_micros() as u64);
    if let Some((main, info)) = &loaded {
        out["files"] = info.clone();
        if let Some(dir) = main.ancestors().find(|p| p.file_name().map(|n| n.starts_with("vh-")).unwrap_or(false)) {
            let _ = fs::remove_dir_all(dir);
        }
    }
    out
}

fn cmd_translate(args: &[String]) {
    let mut metatypes = Vec::new();
    let mut deadline_s = 10u64;
    let mut i = 0;
    while i < args.len() {
        match args[i].as_str() {
            "--metatypes" => {
                metatypes.push(args[i + 1].clone());
                i += 2;
            }
            "--deadline" => {
                deadline_s = args[i + 1].parse().unwrap();
                i += 2;
            }
            a => panic!("unknown arg {a}"),
        }
    }
    if metatypes.is_empty() {
        metatypes.push("/repo/contrib/metatypes".to_owned());
    }
    let mut type_map = load_type_map(&metatypes);

    // watchdog: if one translation exceeds the deadline, report and exit(3)
    let started = Arc::new(AtomicU64::new(0)); // millis since t0 when current item started; 0 = idle
    let current_id = Arc::new(Mutex::new(String::new()));
    let t0 = Instant::now();
    {
        let started = started.clone();
        let current_id = current_id.clone();
        std::thread::spawn(move || loop {
            std::thread::sleep(Duration::from_millis(200));
            let s = started.load(Ordering::SeqCst);
            if s != 0 && t0.elapsed().as_millis() as u64 > s + deadline_s * 1000 {
                let id = current_id.lock().unwrap().clone();
                let stdout = io::stdout();
                let mut w = stdout.lock();
                let _ = writeln!(w, "{}", json!({"id": id, "timeout": true}));
                let _ = w.flush();
                std::process::exit(3);
            }
        });
    }

    let last_panic: Arc<Mutex<Option<String>>> = Arc::new(Mutex::new(None));
    {
        let last_panic = last_panic.clone();
        panic::set_hook(Box::new(move |info| {
            let loc = info
                .location()
                .map(|l| format!("{}:{}", l.file(), l.line()))
                .unwrap_or_default();
            let msg = if let Some(s) = info.payload().downcast_ref::<&str>() {
                s.to_string()
            } else if let Some(s) = info.payload().downcast_ref::<String>() {
                s.clone()
            } else {
                "?".to_owned()
            };
            *last_panic.lock().unwrap() = Some(format!("{loc}: {msg}"));
        }));
    }

    let stdin = io::stdin();
    let stdout = io::stdout();
    for line in stdin.lock().lines() {
        let line = line.unwrap();
        if line.trim().is_empty() {
            continue;
        }
        let req: Value = serde_json::from_str(&line).expect("request json");
        let id = req["id"].clone();
        *current_id.lock().unwrap() = id.to_string();
        let modes: Vec<String> = req["modes"]
            .as_array()
            .map(|a| a.iter().map(|m| m.as_str().unwrap().to_owned()).collect())
            .unwrap_or_else(|| vec!["generate".to_owned()]);
        let mut runs = serde_json::Map::new();
        for m in &modes {
            started.store(t0.elapsed().as_millis() as u64 + 1, Ordering::SeqCst);
            let r = panic::catch_unwind(AssertUnwindSafe(|| translate_one(&mut type_map, &req, m)));
            started.store(0, Ordering::SeqCst);
            let v = match r {
                Ok(v) => v,
                Err(_) => {
                    uigen::verif::set_observer(None);
                    json!({"panic": last_panic.lock().unwrap().take().unwrap_or_default()})
                }
            };
            runs.insert(m.clone(), v);
        }
        let mut w = stdout.lock();
        writeln!(w, "{}", json!({"id": id, "runs": runs})).unwrap();
        w.flush().unwrap();
    }
}

fn cmd_color() {
    use qmluic::color::Color;
    let stdin = io::stdin();
    let stdout = io::stdout();
    let mut w = io::BufWriter::new(stdout.lock());
    for line in stdin.lock().lines() {
        let line = line.unwrap();
        if line.is_empty() {
            continue;
        }
        let req: Value = serde_json::from_str(&line).expect("request json");
        let s = req["s"].as_str().unwrap();
        let r = panic::catch_unwind(|| s.parse::<Color>());
        let v = match r {
            Ok(Ok(c)) => match c {
                Color::Rgb8(c) => json!({"ok": true, "r": c.red, "g": c.green, "b": c.blue, "a": Value::Null}),
                Color::Rgba8(c) => json!({"ok": true, "r": c.red, "g": c.green, "b": c.blue, "a": c.alpha}),
            },
            Ok(Err(e)) => json!({"ok": false, "err": e.to_string()}),
            Err(_) => json!({"panic": true}),
        };
        writeln!(w, "{}", json!({"s": s, "res": v})).unwrap();
    }
    w.flush().unwrap();
}

fn main() {
    let args: Vec<String> = std::env::args().collect();
    match args.get(1).map(|s| s.as_str()) {
        Some("translate") => cmd_translate(&args[2..]),
        Some("color") => cmd_color(),
        Some("typemap") => tmq::cmd_typemap(),
        _ => {
            eprintln!("usage: vh translate|color|typemap");
            std::process::exit(2);
        }
    }
}
