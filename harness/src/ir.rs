//! Serialises the finished IR handed over by the observation hook (DESIGN §10a).

use qmluic::opcode::{BinaryOp, BuiltinFunctionKind, ConsoleLogLevel, UnaryOp};
use qmluic::tir::{
    BasicBlock, CodeBody, ConstantValue, Operand, Rvalue, Statement, Terminator,
};
use qmluic::typemap::{Method, MethodKind, Property, TypeSpace as _};
use qmluic::uigen::verif::{ObservedCode, ObservedCodeKind};
use serde_json::{json, Value};

pub fn observed_to_json(oc: &ObservedCode) -> Value {
    json!({
        "obj": oc.object_name,
        "cls": oc.object_class,
        "flat": oc.flat_index,
        "kind": match oc.kind {
            ObservedCodeKind::Property => "binding",
            ObservedCodeKind::AttachedProperty => "attached",
            ObservedCodeKind::Callback => "callback",
        },
        "path": oc.path,
        "const": oc.is_evaluated_constant,
        "prop": oc.property.map(property_json),
        "signal": oc.signal.map(method_json),
        "code": code_json(oc.code),
    })
}

fn property_json(p: &Property) -> Value {
    let notify = match p.notify_signal() {
        Some(Ok(m)) => method_json(&m),
        Some(Err(e)) => json!({"error": e.to_string()}),
        None => Value::Null,
    };
    json!({
        "name": p.name(),
        "cls": p.object_class().qualified_cxx_name(),
        "ty": p.value_type().qualified_cxx_name(),
        "read": p.read_func_name(),
        "write": p.write_func_name(),
        "notify": notify,
        "constant": p.is_constant(),
        "readable": p.is_readable(),
        "writable": p.is_writable(),
    })
}

fn method_json(m: &Method) -> Value {
    json!({
        "name": m.name(),
        "cls": m.object_class().qualified_cxx_name(),
        "kind": match m.kind() {
            MethodKind::Signal => "signal",
            MethodKind::Slot => "slot",
            MethodKind::Method => "method",
        },
        "args": m.argument_types().iter().map(|t| t.qualified_cxx_name().into_owned()).collect::<Vec<_>>(),
        "ret": m.return_type().qualified_cxx_name(),
    })
}

pub fn code_json(code: &CodeBody) -> Value {
    json!({
        "params": code.parameter_count,
        "locals": code.locals.iter().map(|l| json!({"i": l.name.0, "ty": l.ty.qualified_cxx_name(), "r": [l.byte_range.start, l.byte_range.end]})).collect::<Vec<_>>(),
        "deps": code.static_property_deps.iter().map(|(o, m)| json!({"obj": o.0, "sig": method_json(m)})).collect::<Vec<_>>(),
        "nobs": code.property_observer_count,
        "blocks": code.basic_blocks.iter().map(block_json).collect::<Vec<_>>(),
    })
}

fn block_json(b: &BasicBlock) -> Value {
    let tm = match b.terminator() {
        Terminator::Br(t) => json!({"k": "br", "t": t.0}),
        Terminator::BrCond(c, t, f) => json!({"k": "brc", "c": operand_json(c), "t": t.0, "f": f.0}),
        Terminator::Return(a) => json!({"k": "ret", "a": operand_json(a)}),
        Terminator::Unreachable => json!({"k": "unreachable"}),
    };
    json!({
        "st": b.statements.iter().map(statement_json).collect::<Vec<_>>(),
        "tm": tm,
    })
}

fn statement_json(s: &Statement) -> Value {
    match s {
        Statement::Assign(l, r) => json!({"k": "assign", "l": l.0, "rv": rvalue_json(r)}),
        Statement::Exec(r) => json!({"k": "exec", "rv": rvalue_json(r)}),
        Statement::ObserveProperty(h, l, sig) => {
            json!({"k": "observe", "h": h.0, "l": l.0, "sig": method_json(sig)})
        }
    }
}

fn unop(op: &UnaryOp) -> (&'static str, String) {
    let cat = match op {
        UnaryOp::Arith(_) => "arith",
        UnaryOp::Bitwise(_) => "bitwise",
        UnaryOp::Logical(_) => "logical",
    };
    (cat, op.to_string())
}

fn binop(op: &BinaryOp) -> (&'static str, String) {
    let cat = match op {
        BinaryOp::Arith(_) => "arith",
        BinaryOp::Bitwise(_) => "bitwise",
        BinaryOp::Shift(_) => "shift",
        BinaryOp::Logical(_) => "logical",
        BinaryOp::Comparison(_) => "cmp",
    };
    (cat, op.to_string())
}

fn rvalue_json(r: &Rvalue) -> Value {
    match r {
        Rvalue::Copy(a) => json!({"k": "copy", "a": operand_json(a)}),
        Rvalue::UnaryOp(op, a) => {
            let (cat, sym) = unop(op);
            json!({"k": "un", "cat": cat, "op": sym, "a": operand_json(a)})
        }
        Rvalue::BinaryOp(op, a, b) => {
            let (cat, sym) = binop(op);
            json!({"k": "bin", "cat": cat, "op": sym, "a": operand_json(a), "b": operand_json(b)})
        }
        Rvalue::StaticCast(ty, a) => {
            json!({"k": "scast", "ty": ty.qualified_cxx_name(), "a": operand_json(a)})
        }
        Rvalue::VariantCast(ty, a) => {
            json!({"k": "vcast", "ty": ty.qualified_cxx_name(), "a": operand_json(a)})
        }
        Rvalue::CallBuiltinFunction(f, args) => {
            let name = match f {
                BuiltinFunctionKind::ConsoleLog(lv) => match lv {
                    ConsoleLogLevel::Log => "console.log",
                    ConsoleLogLevel::Debug => "console.debug",
                    ConsoleLogLevel::Info => "console.info",
                    ConsoleLogLevel::Warn => "console.warn",
                    ConsoleLogLevel::Error => "console.error",
                },
                BuiltinFunctionKind::Max => "Math.max",
                BuiltinFunctionKind::Min => "Math.min",
                BuiltinFunctionKind::Tr => "qsTr",
            };
            json!({"k": "builtin", "f": name, "args": args.iter().map(operand_json).collect::<Vec<_>>()})
        }
        Rvalue::CallMethod(o, m, args) => {
            json!({"k": "mcall", "o": operand_json(o), "m": method_json(m), "args": args.iter().map(operand_json).collect::<Vec<_>>()})
        }
        Rvalue::ReadProperty(o, p) => {
            json!({"k": "rprop", "o": operand_json(o), "p": property_json(p)})
        }
        Rvalue::WriteProperty(o, p, a) => {
            json!({"k": "wprop", "o": operand_json(o), "p": property_json(p), "a": operand_json(a)})
        }
        Rvalue::ReadSubscript(o, i) => {
            json!({"k": "rsub", "o": operand_json(o), "i": operand_json(i)})
        }
        Rvalue::WriteSubscript(o, i, a) => {
            json!({"k": "wsub", "o": operand_json(o), "i": operand_json(i), "a": operand_json(a)})
        }
        Rvalue::MakeList(ty, xs) => {
            json!({"k": "list", "ty": ty.qualified_cxx_name(), "args": xs.iter().map(operand_json).collect::<Vec<_>>()})
        }
    }
}

fn operand_json(a: &Operand) -> Value {
    let r = a.byte_range();
    let r = json!([r.start, r.end]);
    match a {
        Operand::Constant(c) => match &c.value {
            ConstantValue::Bool(v) => json!({"k": "const", "ty": "bool", "v": v, "r": r}),
            ConstantValue::Integer(v) => json!({"k": "const", "ty": "int", "v": v.to_string(), "r": r}),
            ConstantValue::Float(v) => {
                json!({"k": "const", "ty": "double", "v": format!("{v:?}"), "bits": format!("{:016x}", v.to_bits()), "r": r})
            }
            ConstantValue::CString(v) => json!({"k": "const", "ty": "cstr", "v": v, "r": r}),
            ConstantValue::QString(v) => json!({"k": "const", "ty": "qstr", "v": v, "r": r}),
            ConstantValue::NullPointer => json!({"k": "const", "ty": "null", "r": r}),
            ConstantValue::EmptyList => json!({"k": "const", "ty": "emptylist", "r": r}),
        },
        Operand::EnumVariant(x) => {
            json!({"k": "enum", "e": x.ty.qualified_cxx_name(), "v": x.variant, "cxx": x.cxx_expression(), "flag": x.ty.is_flag(), "r": r})
        }
        Operand::Local(x) => {
            json!({"k": "loc", "i": x.name.0, "ty": x.ty.qualified_cxx_name(), "r": r})
        }
        Operand::NamedObject(x) => {
            json!({"k": "obj", "n": x.name.0, "cls": x.cls.qualified_cxx_name(), "r": r})
        }
        Operand::Void(_) => json!({"k": "void", "r": r}),
    }
}
