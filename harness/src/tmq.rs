//! TypeMap queries over hand-made class graphs (C17).
//!
//! request : {"id", "classes": [<metatypes class JSON>...], "queries": [{"q": "derived"|"prop"|"method"|"type"|"variant"|"common", ...}]}
//! response: {"id", "answers": [...]}; a query that exceeds the deadline makes the process print {"id", "timeout": true,
//! "at": <query index>} and exit(3) (the driver restarts after it).

use qmluic::metatype;
use qmluic::typemap::{Class, ImportedModuleSpace, ModuleData, ModuleId, NamedType, TypeMap, TypeSpace as _};
use serde_json::{json, Value};
use std::io::{self, BufRead, Write};
use std::sync::atomic::{AtomicU64, Ordering};
use std::sync::{Arc, Mutex};
use std::time::{Duration, Instant};

fn class_of<'a>(type_map: &'a TypeMap, name: &str) -> Option<Class<'a>> {
    // the space a document sees: builtin (primitive) types plus the module; a name "m2:X" is looked up in the second module
    // (which imports the first), so that two distinct classes may carry the same unqualified name
    let mut module = ImportedModuleSpace::new(type_map);
    assert!(module.import_module(ModuleId::Builtins));
    let name = if let Some(n) = name.strip_prefix("m2:") {
        assert!(module.import_module(ModuleId::Named("m2")));
        n
    } else if let Some(n) = name.strip_prefix("m1:") {
        assert!(module.import_module(ModuleId::Named("m1")));
        n
    } else {
        assert!(module.import_module(ModuleId::Named("m")));
        name
    };
    match module.get_type(name) {
        Some(Ok(NamedType::Class(c))) => Some(c),
        _ => None,
    }
}

fn answer(type_map: &TypeMap, q: &Value) -> Value {
    let s = |k: &str| q[k].as_str().unwrap_or("");
    let cls = match class_of(type_map, s("c")) {
        Some(c) => c,
        None => return json!({"noclass": true}),
    };
    match s("q") {
        "derived" => match class_of(type_map, s("b")) {
            Some(b) => json!({"derived": cls.is_derived_from(&b)}),
            None => json!({"noclass": true}),
        },
        "prop" => match cls.get_property(s("n")) {
            Some(Ok(p)) => json!({"found": true, "owner": p.object_class().name(), "same_as_queried": p.object_class() == &cls}),
            Some(Err(e)) => json!({"found": false, "err": e.to_string()}),
            None => json!({"found": false}),
        },
        "method" => match cls.get_public_method(s("n")) {
            Some(Ok(m)) => json!({"found": true, "owner": m.iter().next().map(|x| x.object_class().name().to_owned())}),
            Some(Err(e)) => json!({"found": false, "err": e.to_string()}),
            None => json!({"found": false}),
        },
        "type" => match cls.get_type(s("n")) {
            Some(Ok(NamedType::Enum(en))) => json!({"found": true, "enum": en.qualified_cxx_name()}),
            Some(Ok(_)) => json!({"found": true, "enum": Value::Null}),
            Some(Err(e)) => json!({"found": false, "err": e.to_string()}),
            None => json!({"found": false}),
        },
        "variant" => match cls.get_enum_by_variant(s("n")) {
            Some(Ok(en)) => json!({"found": true, "enum": en.qualified_cxx_name(), "lists": en.contains_variant(s("n"))}),
            Some(Err(e)) => json!({"found": false, "err": e.to_string()}),
            None => json!({"found": false}),
        },
        "common" => match class_of(type_map, s("b")) {
            Some(b) => match cls.common_base_class(&b) {
                Some(Ok(c)) => json!({"found": true, "base": c.name()}),
                Some(Err(e)) => json!({"found": false, "err": e.to_string()}),
                None => json!({"found": false}),
            },
            None => json!({"noclass": true}),
        },
        _ => json!({"badquery": true}),
    }
}

pub fn cmd_typemap() {
    let deadline_ms = 2000u64;
    let started = Arc::new(AtomicU64::new(0));
    let current = Arc::new(Mutex::new((String::new(), 0usize)));
    let t0 = Instant::now();
    {
        let started = started.clone();
        let current = current.clone();
        std::thread::spawn(move || loop {
            std::thread::sleep(Duration::from_millis(100));
            let s = started.load(Ordering::SeqCst);
            if s != 0 && t0.elapsed().as_millis() as u64 > s + deadline_ms {
                let (id, at) = current.lock().unwrap().clone();
                let stdout = io::stdout();
                let mut w = stdout.lock();
                let _ = writeln!(w, "{}", json!({"id": serde_json::from_str::<Value>(&id).unwrap_or(Value::Null), "timeout": true, "at": at}));
                let _ = w.flush();
                std::process::exit(3);
            }
        });
    }
    let stdin = io::stdin();
    let stdout = io::stdout();
    for line in stdin.lock().lines() {
        let line = line.unwrap();
        if line.trim().is_empty() {
            continue;
        }
        let req: Value = serde_json::from_str(&line).expect("request json");
        let classes: Vec<metatype::Class> = req["classes"]
            .as_array()
            .expect("classes")
            .iter()
            .map(|c| serde_json::from_value(c.clone()).expect("class json"))
            .collect();
        let mut type_map = TypeMap::with_primitive_types();
        let mut module_data = ModuleData::with_builtins(); // as load_type_map() of the command line tool does
        // "batches": n loads the descriptions in n calls (one per metatypes file, as a library user may do); the answers must not depend on it
        let batches = req["batches"].as_u64().unwrap_or(1).max(1) as usize;
        if batches == 1 {
            module_data.extend(classes);
        } else {
            let per = (classes.len() + batches - 1) / batches;
            let mut rest = classes;
            while !rest.is_empty() {
                let tail = rest.split_off(per.max(1).min(rest.len()));
                module_data.extend(rest);
                rest = tail;
            }
        }
        type_map.insert_module(ModuleId::Named("m"), module_data);
        if let Some(cs) = req["classes2"].as_array() {
            // a second module importing the first
            let classes2: Vec<metatype::Class> = cs.iter().map(|c| serde_json::from_value(c.clone()).expect("class json")).collect();
            let mut m2 = ModuleData::with_builtins();
            m2.import_module(ModuleId::Named("m"));
            if let Some(cs1) = req["classes1"].as_array() {
                // a third module, imported by the second AFTER the first: the later import wins for a name both provide
                let classes1: Vec<metatype::Class> = cs1.iter().map(|c| serde_json::from_value(c.clone()).expect("class json")).collect();
                let mut m1 = ModuleData::with_builtins();
                m1.extend(classes1);
                type_map.insert_module(ModuleId::Named("m1"), m1);
                m2.import_module(ModuleId::Named("m1"));
            }
            m2.extend(classes2);
            type_map.insert_module(ModuleId::Named("m2"), m2);
        }
        let mut answers = Vec::new();
        for (i, q) in req["queries"].as_array().expect("queries").iter().enumerate() {
            *current.lock().unwrap() = (req["id"].to_string(), i);
            started.store(t0.elapsed().as_millis() as u64 + 1, Ordering::SeqCst);
            let a = answer(&type_map, q);
            started.store(0, Ordering::SeqCst);
            answers.push(a);
        }
        let mut w = stdout.lock();
        writeln!(w, "{}", json!({"id": req["id"], "answers": answers})).unwrap();
        w.flush().unwrap();
    }
}
