//! TypeMap queries over hand-made class graphs (C17). Filled in with the C17 check.
pub fn cmd_typemap() {
    eprintln!("typemap: not built yet");
    std::process::exit(2);
}
