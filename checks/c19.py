"""C19 -- colour strings are read the way Qt reads them.

G leg, exhaustive for the short forms: GenColor.tla enumerates every #rgb and #argb string (lower case; upper-case digit
variants sampled), seeded #rrggbb / #aarrggbb strings, every SVG keyword and `transparent`, and wrong-length hex strings,
each with the channels Color.tla assigns (keyword table transcribed from a source independent of color.rs).  The driver adds
every keyword in upper, capitalised and seeded mixed case and a family of strings that must be rejected.  All go through
Color::from_str in the real library (batch) and a sample end to end into the .ui (<color alpha=...>, <brush>).
"""
import json
import random
import subprocess
import xml.parsers.expat

from vlib import build_harness, log, ToolError, translate, tlc, tlc_must_pass, VH, QT5_METATYPES

RULE = ("case = string; all 4096 #rgb and 65536 #argb strings, sampled upper-case digit variants, seeded 6- and 8-digit strings, 148 keywords x "
        "{lower, UPPER, Capitalised, 3 seeded mixed cases}, wrong lengths 1/2/5/7/9, non-hex digits, blanks inside/around, near-miss keywords, empty; "
        "every case is a distinct member of an input class (non-trivial by construction)")

REJECT = ["", "#", "# fff", "#fff ", " #fff", "#ff f", "#ggg", "#12345g", "fff", "0xffffff", "#-12", "#+fff", "#１２３", "rgb(1,2,3)", "rgba(1,2,3,4)", "hsl(1,2%,3%)",
          "re d", " red", "red ", "red\n", "redd", "rad", "gre", "lightgray2", "grey0", "dark blue", "dark-blue", "darkblue;", "Transparent ", "transparentt", "none",
          "currentColor", "inherit", "#", "##fff", "#fffffffff", "#fffff", "#fffffff", "#f", "#ff", "bluе", "ｒｅｄ", "ＲＥＤ", "straße", "İ", "ı"]


def batch(strings):
    data = "".join(json.dumps({"s": s}) + "\n" for s in strings)
    p = subprocess.run([VH, "color"], input=data, stdout=subprocess.PIPE, stderr=subprocess.PIPE, text=True)
    if p.returncode != 0:
        raise ToolError("vh color failed: " + p.stderr[-500:])
    out = [json.loads(l) for l in p.stdout.split("\n") if l.strip()]
    if len(out) != len(strings):
        raise ToolError("vh color answered %d of %d" % (len(out), len(strings)))
    return out


def mixed(k, r):
    return "".join(c.upper() if r.random() < 0.5 else c for c in k)


def run(chk):
    build_harness()
    quick = chk.tier == "quick"
    r = random.Random(chk.seed)
    res = tlc("GenColor", env={"LONG": 3000 if quick else 20000}, workers=8, seed=chk.seed, coverage=False, timeout=900)
    tlc_must_pass(res, "GenColor")
    chk.add_tlc(res)
    cases = {}
    for b in res.printed("COLORS"):
        for c in b:
            cases[c["s"]] = c["c"]
    keys = {s: c for s, c in cases.items() if not s.startswith("#")}
    if len(keys) != 148:
        raise ToolError("expected 148 keyword records, got %d" % len(keys))
    for k, c in keys.items():
        for v in {k.upper(), k.capitalize(), mixed(k, r), mixed(k, r), mixed(k, r)}:
            cases.setdefault(v, c)
    for s in REJECT:
        cases[s] = [-1, -1, -1, -1]
    # keywords with a letter replaced by a character outside Latin-1 that Unicode case mapping folds into it (KELVIN SIGN -> k, LONG S -> S,
    # ANGSTROM SIGN, dotted / dotless i, full-width and mathematical letters): Qt converts the name to Latin-1 first, so none of them is a colour
    FOLDS = {"k": ["\u212a"], "s": ["\u017f"], "i": ["\u0130", "\u0131"], "a": ["\u212b", "\uff41"], "e": ["\uff45", "\u0435"], "o": ["\u03bf", "\uff4f"], "r": ["\uff52"]}
    for k in sorted(keys):
        for ch, subs in FOLDS.items():
            if ch in k:
                for sub in subs:
                    i = k.index(ch)
                    for v in (k[:i] + sub + k[i + 1:], (k[:i] + sub + k[i + 1:]).upper() if sub not in ("\u0131",) else k[:i].upper() + sub + k[i + 1:].upper()):
                        if v not in cases and not v.isascii():
                            cases[v] = [-1, -1, -1, -1]
    # ... and intruders outside ASCII, incl. ones that make the BYTE length of the string one of the admissible lengths (3, 4, 6, 8 digits)
    for body in ("12\u00e9", "1\u00e93", "\u00e9\u00e9", "a\u00e9", "1234\u00e9", "\u00e912345", "12\u00e9456", "\u0663\u0663\u0663", "\uff11\uff12\uff13", "12345\u00e9", "1234567\u00e9",
                 "\u00e91234567", "\u65e5\u672c", "\u65e51", "f\U0001F600", "\U0001F600\U0001F600", "12\u0661456", "1\u00b2345", "\u00bd23", "abc\u0301"):
        cases.setdefault("#" + body, [-1, -1, -1, -1])
    strings = sorted(cases)
    n3 = sum(1 for s in strings if s.startswith("#") and len(s) == 4 and s == s.lower() and cases[s][0] >= 0)
    n4 = sum(1 for s in strings if s.startswith("#") and len(s) == 5 and s == s.lower() and cases[s][0] >= 0)
    if (n3, n4) != (4096, 65536):
        raise ToolError("short forms not exhaustive: %d, %d" % (n3, n4))
    log("C19: %d strings" % len(strings))
    out = batch(strings)
    for s, o in zip(strings, out):
        chk.count({"s": s})
        exp = cases[s]
        got = o["res"]
        if got.get("panic"):
            chk.violation("Color::from_str panics on %r" % s, {"string": s})
            continue
        if exp[0] < 0:
            if got["ok"]:
                chk.violation("string %r is not a colour Qt knows but is read as %s" % (s, got), {"string": s, "observed": got})
            continue
        if not got["ok"]:
            chk.violation("colour string %r rejected (%s), Qt reads it as rgba%s" % (s, got.get("err"), tuple(exp)), {"string": s, "expected": exp})
            continue
        obs = [got["r"], got["g"], got["b"], 255 if got["a"] is None else got["a"]]
        if obs != exp:
            chk.violation("colour string %r read as rgba%s, Qt reads it as rgba%s" % (s, tuple(obs), tuple(exp)), {"string": s, "expected": exp, "observed": obs})
    # ---- end to end: the channels in the .ui
    sample = r.sample([s for s in strings if cases[s][0] >= 0], 150 if quick else 1500) + [x for x in ["#fff", "#0abc", "#0f80", "transparent", "#12345678"] if x in cases] + [k for k in cases if k.lower() == "lightgoldenrodyellow"]
    # every string of the rejected family, and valid colours padded with white space, at each position a colour string can stand
    padded = [" #fff", "#fff ", "\t#80123abc", "#f48c\n", "  #000  ", " red ", "red\t", "\nblue", "#123abc ", " transparent"]
    bad = sorted(set([s for s in strings if cases[s][0] < 0] if len([s for s in strings if cases[s][0] < 0]) < 400 else r.sample([s for s in strings if cases[s][0] < 0], 400)) | set(REJECT) | set(padded))
    q = "import qmluic.QtWidgets\nQWidget {\n"
    for i, s in enumerate(sample + bad):
        prop, cls = [("backgroundBrush", "QGraphicsView"), ("currentColor", "QColorDialog"), ("palette.window", "QLabel")][i % 3 if i >= len(sample) else i % 2]
        q += "  %s { id: c%d; %s: %s }\n" % (cls, i, prop, json.dumps(s))
    q += "}\n"
    run_ = translate([{"id": "e2e", "src": q, "type_name": "Doc", "modes": ["generate"]}], metatypes=[QT5_METATYPES], procs=1)["e2e"]["generate"]
    if not run_.get("ui"):
        raise ToolError("end-to-end document produced no form: %s" % run_.get("diags"))
    got = read_colors(run_["ui"])
    errs = [d for d in run_["diags"] if d["kind"] == "error"]
    for i, s in enumerate(sample + bad):
        chk.count({"e2e": s})
        g = got.get("c%d" % i)
        if i >= len(sample):
            if g is not None:
                chk.violation("string %r is embedded as a colour %s instead of being rejected" % (s, g), {"string": s, "ui": run_["ui"]})
            continue
        if g != cases[s]:
            chk.violation("colour %r embedded as %s, expected rgba%s" % (s, g, tuple(cases[s])), {"string": s, "expected": cases[s], "observed": g})
    if len(errs) < len(bad):
        chk.violation("%d rejected colour strings but only %d diagnostics" % (len(bad), len(errs)), {"qml": q, "diagnostics": errs})
    cli_regeneration(chk, cases, r, quick)
    chk.cov["programs"] = len(strings)
    chk.cov["traces_validated_against_impl"] = len(strings)
    chk.cov["exhaustive"] = True
    chk.sample({"string": "#0abc", "expected_rgba": cases["#0abc"]})
    chk.sample({"string": "LIGHTGOLDENRODYELLOW", "expected_rgba": cases["LIGHTGOLDENRODYELLOW"]})
    chk.cov["trusted_base"] = ["TLC", "Color.tla keyword table (pydantic / prompt_toolkit CSS tables, cross-checked with X11 rgb.txt)", "expat"]


def cli_regeneration(chk, cases, r, quick):
    """the command-line tool, run again after the colour strings of the document were edited: the .ui on disk carries the channels of the
    strings NOW in the source -- also when the new form has exactly the length of the old one (same number of channel digits)"""
    import os
    import shutil
    import tempfile
    from vlib import build_cli
    qmluic = build_cli()
    valid = sorted(s for s in cases if cases[s][0] >= 0)
    digits = lambda s: sum(len(str(c)) for c in cases[s])
    pairs = [("red", "blue"), ("#123abc", "#bc3a12"), ("#8f00", "#800f"), ("#010203", "#030201"), ("white", "#fefefe"), ("#fff", "black"), ("transparent", "#0000")]
    by = {}
    for s in r.sample(valid, 4000):
        by.setdefault((digits(s), cases[s][3] == 255), []).append(s)
    for k in sorted(by):
        g = by[k]
        for j in range(0, min(len(g) - 1, 6 if quick else 40), 2):
            if cases[g[j]] != cases[g[j + 1]]:
                pairs.append((g[j], g[j + 1]))
    pairs = [p for p in pairs if p[0] in cases and p[1] in cases][:40 if quick else 400]
    d = tempfile.mkdtemp(prefix="c19cli-", dir=chk.work)
    try:
        for n, (a, b) in enumerate(pairs):
            for step, s in enumerate((a, b, a)):
                q = "import qmluic.QtWidgets\nQWidget {\n  QColorDialog { id: c0; currentColor: %s }\n  QGraphicsView { id: c1; backgroundBrush: %s }\n}\n" % (json.dumps(s), json.dumps(s))
                open(os.path.join(d, "Swatch%d.qml" % n), "w").write(q)
                p = subprocess.run([qmluic, "generate-ui", "--foreign-types", QT5_METATYPES, "Swatch%d.qml" % n], cwd=d, capture_output=True, text=True, timeout=60)
                chk.count({"cli_regen": [a, b], "step": step})
                ui = os.path.join(d, "swatch%d.ui" % n)
                if p.returncode != 0 or not os.path.exists(ui):
                    raise ToolError("generate-ui failed on a valid colour %r: %s" % (s, p.stderr[-300:]))
                got = read_colors(open(ui, encoding="utf-8").read())
                for oid in ("c0", "c1"):
                    if got.get(oid) != cases[s]:
                        chk.violation("after editing the colour string %r -> %r and running the tool again the .ui carries %s at %s, the source now denotes rgba%s" % (
                            (a, b, a)[step - 1] if step else None, s, got.get(oid), oid, tuple(cases[s])), {"qml": q, "history": [a, b, a][:step + 1], "ui": open(ui).read()})
                        break
    finally:
        shutil.rmtree(d, ignore_errors=True)


def read_colors(ui_xml):
    res, cur = {}, {"w": None, "a": None, "ch": {}, "tag": None}
    p = xml.parsers.expat.ParserCreate()
    p.buffer_text = True

    def start(tag, attrs):
        if tag == "widget":
            cur["w"] = attrs.get("name")
        elif tag == "color":
            cur["a"] = int(attrs["alpha"]) if "alpha" in attrs else None
            cur["ch"] = {}
        cur["tag"] = tag

    def text(s):
        if cur["tag"] in ("red", "green", "blue") and s.strip():
            cur["ch"][cur["tag"]] = int(s)

    def end(tag):
        if tag == "color" and cur["w"]:
            res[cur["w"]] = [cur["ch"].get("red"), cur["ch"].get("green"), cur["ch"].get("blue"), cur["a"]]
        cur["tag"] = None
    p.StartElementHandler, p.CharacterDataHandler, p.EndElementHandler = start, text, end
    p.Parse(ui_xml, True)
    return res
