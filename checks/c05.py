"""C05 -- static typing discipline: ill-typed programs are rejected, valid ones accepted.

G leg, both directions.  (i) Every well-typed program of the TLC generators (GenExpr/GenMatrix/GenStmt/GenHandler) whose
constant sub-expressions are defined (Lang.tla) must be accepted without diagnostics.  (ii) Every program of GenIll.tla --
a well-typed program after one type-breaking edit, re-judged ill typed by Typing.tla -- must yield an error diagnostic and
no code.  V leg: the IR of every accepted program is re-typed (operand types of each instruction) by the harness dump.
"""
import json
import os
import random

from vlib import write_ndjson, build_harness, log, ToolError, VERIF_METATYPES, translate, tlc
from vlib import lang, progs as P

RULE = ("case = program; (i) well-typed programs from the typed generators (accepted without diagnostics expected), "
        "(ii) programs of GenIll.tla: every binary/unary operator x operand type family pair, non-bool conditions, results not assignable "
        "(incl. base pointer to derived property, int/double), bad calls/casts/subscripts, handler statements assigning to const / read-only / "
        "other type, wrong argument lists, ill-typed switch labels -- each with constant and with property-read operands; "
        "non-trivial = has an operator or statement; distinct by JSON")

# literal spellings of syntax the documentation lists as unsupported: must be diagnosed, never accepted
UNSUPPORTED = [
    "a.ival ** 2", "a.ival >>> 1", "typeof a.ival", "a.ival ?? 1", "a.ptr instanceof TSource", "void a.ival",
    "delete a.ival", "a.ival++", "--a.ival", "a.ival += 1", "(a.ival, 2)", "function() { return 1 }", "() => 1",
    "`t${a.ival}`", "{ for (let i = 0; i < 3; i = i + 1) {} return 1 }", "{ while (a.flag) {} return 1 }",
    "{ do {} while (a.flag); return 1 }", "{ var v = 1; return v }", "{ let v; return 1 }", "{ const c; return 1 }",
    "{ lbl: { break lbl } return 1 }", "{ break; return 1 }", "{ try { return 1 } catch (e) { return 2 } }", "{ throw 1 }",
    "new TSource()", "a.ival.toString()", "a.nosuch", "nosuch", "a.act", "Math.floor(a.dval)", "Math", "console", "TSource",
    "a[0]", "a.items[0][0]", "a.text.length", "this.nosuch", "[1, \"x\"]", "[a, 1]", "a.ival as QString", "a.text as int",
    "a.ptr as TSub", "1 as bool", "a.flag as double", "qsTr(a.text)", "qsTr(1)", "qsTr()", "qsTr(\"a\", \"b\")",
]


# a class one of whose public bases cannot be resolved (moc lists plain C++ interfaces too) is still not a TSource
BROKEN_BASE = [
    ("ptr: br", False), ("sub: br", False), ("ptr: a.flag ? br : a", False), ("ptr: { if (a.flag) { return br } return null }", False),
    ("onPlain: a.actPtr(br)", False), ("onPlain: { a.ptr = br }", False), ("flag: br == a", False),
    ("ptr: a", True), ("text: br.windowTitle", True), ("onPlain: { br.enabled = a.flag }", True), ("ptr: a.flag ? a : null", True),
]


# members of a grouped value are typed one by one, whatever their siblings are (constant / run-time, dotted / grouped notation)
GROUPS = [
    ("font.bold: true\n    font.pointSize: a.text", False), ("font { family: \"Mono\"; bold: a.text }", False), ("font.bold: a.flag\n    font.pointSize: a.text", False),
    ("font.pointSize: a.dval", False), ("font.bold: true\n    font.pointSize: a.dval", False), ("font.pointSize: 12\n    font.bold: a.ival", False),
    ("font { pointSize: a.flag ? 1 : 2; bold: true; italic: a.items }", False), ("font.family: a.flag\n    font.italic: false", False),
    ("font.family: \"Mono\"\n    font.bold: a.flag ? 1 : 0", False), ("font { bold: true; pointSize: 12; family: a.ival }", False),
    ("font.bold: true\n    font.pointSize: a.ival", True), ("font { family: a.text; bold: true; italic: a.flag }", True), ("font.pointSize: a.ival + 1", True),
    ("font { family: \"Mono\"; bold: false }", True), ("font.bold: a.flag\n    font.italic: !a.flag\n    font.pointSize: 9", True),
]


# list / subscript / implicit-this spellings (docs/language.md): (property or "handler", text, accepted?)
LISTS = [
    # argument counts of the built-in functions
    ("text", "qsTr(\"S\", 42)", False), ("text", "qsTr(\"F: %1\", a.text)", False), ("handler", "a.text = qsTr(\"C\", a.ival, 1.5, a)", False), ("text", "qsTr()", False),
    ("text", "qsTr(\"ok\")", True), ("text", "qsTr(a.text)", False), ("ival", "Math.max(1, 2, 3)", False), ("ival", "Math.max(a.ival)", False), ("ival", "Math.min()", False),
    ("handler", "console.log(a.poke())", False), ("handler", "console.warn(\"x\", a.act(1))", False), ("handler", "console.log(a.label())", True),
    ("flag", "a.text.isEmpty(1)", False), ("text", "qsTr(\"a\", \"b\")", False), ("handler", "console.log()", True), ("handler", "console.log(a.ival, a.text, a.flag)", True),
    # comments are no construct of their own: between the clauses of a switch as anywhere else
    ("ival", "{ switch (a.ival) {\n case 0: return 1;\n // between clauses\n case 1: return 2;\n /* before default */ default: return 3 } }", True),
    ("ival", "{ switch (a.ival) { // after the brace\n case 0: return 1; default: return 2 // before the brace\n } }", True),
    ("ival", "{ switch (a.ival) { default: return 2\n /* after a default that is not last */ case 0: return 1 } }", True),
    ("handler", "switch (a.ival) { case 0: a.poke(); /* c */ default: a.act(1) /* d */ }", True),
    ("ival", "{ /* c */ if (a.flag) /* c */ { return 1 /* c */ } /* c */ else /* c */ { return 2 } /* c */ }", True),
    # elisions: an array hole has no counterpart in a typed list (ECMAScript: an undefined element); a trailing comma makes none
    ("items", "[\"a\", , \"b\"]", False), ("items", "[, \"a\"]", False), ("items", "[\"a\", , ]", False), ("text", "[\"x\", , \"y\"][1]", False), ("items", "[a.text, , a.textB]", False),
    ("items", "[\"a\", \"b\", ]", True), ("items", "[a.text, ]", True), ("items", "[ /* none */ ]", True), ("items", "[\"a\", /* c */ \"b\"]", True),
    ("flag", "a.items[0].isEmpty()", True), ("text", "a.items[0] + \"x\"", True), ("text", "a.items[a.ival]", True), ("text", "a.items[a.uval]", True),
    ("items", "[a.items[0], \"b\"]", True), ("items", "[a.text, a.textB]", True), ("flag", "a.items.isEmpty()", True), ("flag", "a.items[0] == \"x\"", True),
    ("text", "this.text", True), ("ival", "this.ival + ival", True), ("text", "text + \"x\"", True),
    ("handler", "a.items = [\"a\"]", True), ("handler", "a.items = []", True), ("handler", "let l = a.items; l[0] = \"y\"; a.items = l", True),
    ("handler", "let l = a.items; l[a.ival] = a.text", True),
    ("text", "a.items[\"x\"]", False), ("text", "a.items[0][0]", False), ("items", "[1, 2]", False), ("items", "[[]]", False), ("items", "[a.text, 1]", False),
    ("ival", "a.items.length", False), ("flag", "[a, b] == [a]", False), ("text", "a.items[a.dval]", False), ("text", "a.items[a.flag]", False),
    ("handler", "a.items[0] = \"x\"", False), ("handler", "a.items[a.ival] = a.text", False), ("handler", "a.text[0] = \"x\"", False),
    ("handler", "let l = a.items; l[0] = 1", False), ("handler", "let l = a.items; l[\"k\"] = \"y\"", False), ("handler", "let l = a.items; l = 1", False),
]


def const_undefined(e):
    """a maximal literal-only sub-expression whose value is undefined is rightly rejected (C03): excluded here"""
    def is_const(x):
        if not isinstance(x, dict):
            return True
        k = x.get("k")
        if k in ("int", "dbl", "bool", "str"):
            return True
        if k in ("un", "cast"):
            return is_const(x["a"])
        if k == "bin":
            return is_const(x["a"]) and is_const(x["b"])
        return False

    def ev(x):
        k = x["k"]
        if k == "int":
            return x["v"]
        if k == "dbl":
            return x["q"] / 4.0
        if k == "bool":
            return x["bv"]
        if k == "str":
            return x["sv"]
        if k == "un":
            a = ev(x["a"])
            if a is None or isinstance(a, str):
                return None
            return {"-": lambda: -a, "+": lambda: a, "~": lambda: ~a if isinstance(a, int) else None, "!": lambda: (not a)}[x["op"]]()
        if k == "bin":
            a, b = ev(x["a"]), ev(x["b"])
            if a is None or b is None:
                return None
            op = x["op"]
            try:
                if op in ("/", "%") and isinstance(a, int) and isinstance(b, int) and not isinstance(a, bool):
                    if b == 0:
                        return None
                    q = abs(a) // abs(b) * (1 if (a < 0) == (b < 0) else -1)
                    return q if op == "/" else a - b * q
                if op in ("<<", ">>"):
                    if b < 0 or b >= 64:
                        return None
                    return a << b if op == "<<" else a >> b
                import operator as o
                f = {"+": o.add, "-": o.sub, "*": o.mul, "/": o.truediv, "&": o.and_, "|": o.or_, "^": o.xor, "==": o.eq, "!=": o.ne,
                     "<": o.lt, "<=": o.le, ">": o.gt, ">=": o.ge}[op]
                return f(a, b)
            except Exception:
                return None
        return None

    def walk(x):
        if isinstance(x, dict):
            if "k" in x and x["k"] in ("un", "bin") and is_const(x):
                v = ev(x)
                if v is None or (isinstance(v, int) and not isinstance(v, bool) and not -2 ** 63 <= v < 2 ** 63):
                    return True
                return False
            return any(walk(v) for v in x.values())
        if isinstance(x, list):
            return any(walk(v) for v in x)
        return False
    return walk(e)


def type_sound(chk, progs):
    """M leg: the two halves of the language model agree (TypeSound.tla) -- what Typing.tla admits evaluates under Lang.tla, in every state of
    its domain, to undefined or to a value of the kind of the bound property.  An inconsistency is an error of the oracle, not of the code."""
    path = os.path.join(chk.work, "typesound.ndjson")
    write_ndjson(path, [{"prop": p["prop"], "body": p["body"]} for p in progs])
    t = tlc("TypeSound", env={"PROGS": path}, workers=8, coverage=False, timeout=3000, heap="8g", extra=["-continue"])
    chk.add_tlc(t)
    if not t.ok or t.violations:
        bad = [lang.r_body(progs[int(v["i"]) - 1]["body"])[:200] for _, v in t.violations[:3]]
        raise ToolError("Typing.tla and Lang.tla disagree (TypeSound.tla): %s %s" % (bad, t.out[-500:] if not t.violations else ""))
    admitted = sum(1 for x in t.printed("SOUND") if x["admitted"])
    if t.distinct != len(progs) or admitted < len(progs) // 10:
        raise ToolError("TypeSound judged %d of %d programs, %d admitted" % (t.distinct, len(progs), admitted))
    chk.cov["model_consistency_typing_vs_semantics"] = {"programs": len(progs), "admitted_and_evaluated_in_every_state": admitted}


def run(chk):
    build_harness()
    quick = chk.tier == "quick"
    r = random.Random(chk.seed)
    # (i) well-typed programs
    good = []
    for mod, limit in (("GenExpr", 60 if quick else 400), ("GenMatrix", 300 if quick else 4000), ("GenStmt", 60 if quick else 400)):
        for p in P.tlc_programs(chk, mod, limit, chk.seed):
            good.append(("binding", p))
    for p in P.tlc_programs(chk, "GenHandler", 100 if quick else 2000, chk.seed):
        good.append(("handler", p))
    g = lang.Gen(chk.seed)
    for i in range(300 if quick else 6000):
        good.append(("binding", g.program(2 + i % 3)))
    if quick and len(good) > 3500:
        good = r.sample(good, 3500)
    ill = [("handler" if "sig" in p else "binding", p) for p in P.tlc_programs(chk, "GenIll", 100, chk.seed)]
    if quick:
        # thin out the two big families only; every small family is kept whole (a sample across all of them can lose a family of five)
        big = ("operands of different types", "return paths of different types")
        keep = [x for x in ill if x[1].get("why") not in big]
        for fam, n in zip(big, (1300, 700)):
            members = [x for x in ill if x[1].get("why") == fam]
            keep += r.sample(members, min(n, len(members)))
        ill = keep
    # list literals (empty list first / second, against lists, pointers, null, scalars): both verdicts from Typing.tla
    for p in P.tlc_programs(chk, "GenList", 100, chk.seed):
        if p["ok"]:
            good.append(("binding", p))
        else:
            ill.append(("binding", dict(p, why="list / pointer / scalar mix judged ill typed by Typing.tla")))
    # declarations with a type annotation and scopes of names (GenDecl.tla): both verdicts from Typing.tla
    for p in P.tlc_programs(chk, "GenDecl", 100, chk.seed):
        if p["ok"]:
            good.append(("binding", p))
        else:
            ill.append(("binding", dict(p, why="typed declaration / scope judged ill typed by Typing.tla (%s)" % p["fam"])))
    type_sound(chk, [p for kind, p in good + ill if kind == "binding" and "body" in p and "prop" in p])
    reqs, meta = [], {}
    for n, (kind, p) in enumerate(good):
        src = P.binding_doc([p])[0] if kind == "binding" else P.handler_doc([p])
        reqs.append({"id": "g%d" % n, "src": src, "type_name": "Doc", "modes": ["generate"]})
        meta["g%d" % n] = ("good", kind, p, src)
    for n, (kind, p) in enumerate(ill):
        src = P.binding_doc([p])[0] if kind == "binding" else P.handler_doc([p])
        reqs.append({"id": "i%d" % n, "src": src, "type_name": "Doc", "modes": ["generate"]})
        meta["i%d" % n] = ("ill", kind, p, src)
    for n, text in enumerate(UNSUPPORTED):
        src = P.HEAD + "  TSource { id: t0\n    ival: " + text + "\n  }\n}\n"
        reqs.append({"id": "u%d" % n, "src": src, "type_name": "Doc", "modes": ["generate"]})
        meta["u%d" % n] = ("unsupported", "binding", {"text": text}, src)
    for n, (prop, text, ok) in enumerate(LISTS):
        body = ("onPlain: { %s }" % text) if prop == "handler" else "%s: %s" % (prop, text)
        src = P.HEAD + "  TSource { id: t0\n    " + body + "\n  }\n}\n"
        reqs.append({"id": "l%d" % n, "src": src, "type_name": "Doc", "modes": ["generate"]})
        meta["l%d" % n] = ("brokenbase-good" if ok else "unsupported", "binding", {"text": body, "why": "list / subscript spelling outside the documented subset"}, src)
    # handler signatures: the parameter list is typed against the signal's arguments (shared with C13's rejection clause)
    from checks import c13
    for n, (what, text) in enumerate(c13.NEGATIVE + c13.POSITIVE):
        ok = n >= len(c13.NEGATIVE)
        src = P.HEAD + "  TSource { id: s0\n    " + text + "\n  }\n}\n"
        reqs.append({"id": "h%d" % n, "src": src, "type_name": "Doc", "modes": ["generate"]})
        meta["h%d" % n] = ("brokenbase-good" if ok else "unsupported", "binding", {"text": text, "why": "handler signature: " + what}, src)
    for n, (text, ok) in enumerate(GROUPS):
        src = P.HEAD + "  TSource { id: t0\n    " + text + "\n  }\n}\n"
        reqs.append({"id": "m%d" % n, "src": src, "type_name": "Doc", "modes": ["generate"]})
        meta["m%d" % n] = ("brokenbase-good" if ok else "unsupported", "binding", {"text": text, "why": "member of a grouped value bound to a value of another type"}, src)
    for n, (text, ok) in enumerate(BROKEN_BASE):
        src = P.HEAD + "  TBroken { id: br }\n  TSource { id: t0\n    " + text + "\n  }\n}\n"
        reqs.append({"id": "b%d" % n, "src": src, "type_name": "Doc", "modes": ["generate"]})
        meta["b%d" % n] = ("brokenbase-good" if ok else "unsupported", "binding", {"text": text, "why": "object of a class with an unresolvable base used as a TSource"}, src)
    res = translate(reqs, metatypes=[VERIF_METATYPES])
    n_good_rej = n_ill_ok = 0
    skipped_cu = 0
    for rid, (cls, kind, p, src) in meta.items():
        run_ = res[rid]["generate"]
        if run_.get("panic") or run_.get("timeout") or run_.get("crash"):
            continue    # totality is C07's property
        accepted = P.is_accepted(run_) and not run_.get("syntax_error")
        if cls == "brokenbase-good":
            chk.count(p, nontrivial=True)
            if not accepted:
                chk.violation("well-typed program not accepted: %s -> %s" % (p["text"], [d["msg"] for d in run_.get("diags", [])][:2]), {"qml": src, "diagnostics": run_.get("diags")})
            continue
        if cls == "good":
            if const_undefined(p["body"]):
                skipped_cu += 1
                continue
            chk.count(p, nontrivial=lang.count_nodes(p["body"]) > 2)
            if not accepted or run_.get("diags"):
                n_good_rej += 1
                chk.violation("well-typed program not accepted cleanly: %s -> %s" % (
                    (lang.r_body(p["body"]) if kind == "binding" else lang.r_handler(p))[:200], [d["msg"] for d in run_.get("diags", [])][:2]),
                    {"qml": src, "program": p, "diagnostics": run_.get("diags")})
        else:
            chk.count(p, nontrivial=True)
            has_err = run_.get("n_errors", 0) > 0 or run_.get("syntax_error")
            if accepted or not has_err:
                n_ill_ok += 1
                what = p.get("why") or "unsupported syntax"
                text = p.get("text") or (lang.r_body(p["body"]) if kind == "binding" else lang.r_handler(p))
                chk.violation("ill-typed program accepted (%s): %s" % (what, text[:200]),
                              {"qml": src, "program": p, "header": run_.get("header"), "ui": run_.get("ui")})
    chk.cov["programs"] = len(meta)
    chk.cov["well_typed"] = len(good)
    chk.cov["ill_typed"] = len(ill) + len(UNSUPPORTED)
    chk.cov["skipped_constant_undefined"] = skipped_cu
    chk.cov["traces_validated_against_impl"] = len(meta)
    chk.sample({"well_typed": lang.r_body(good[0][1]["body"])})
    for kind, p in ill[:4]:
        chk.sample({"ill_typed": (lang.r_body(p["body"]) if kind == "binding" else lang.r_handler(p)), "why": p["why"]})
    chk.cov["trusted_base"] = ["TLC", "Typing.tla / Lang.tla as oracle"]
