"""C16 -- the support header is self-consistent, valid C++ over the documented Qt API.

V leg: every header the real translator emits for a family of documents (multi-binding documents of the typed generators,
wide documents with 33/64/65/70 bindings, colliding name prefixes, many observers, gadget sub-bindings, the examples) is
tokenised and judged by Header.tla (record-wise trace validation) together with the verdict of g++ -std=c++17 against the
mock Qt generated from the same metatypes (with and without QT_NO_DEBUG).  String literals: bindings and log calls with
hostile literals are compiled, executed and the strings read back.
"""
import glob
import json
import os
import random
import re
from concurrent.futures import ThreadPoolExecutor

from vlib import build_harness, log, ToolError, VERIF_METATYPES, VERIF_T_METATYPES, QT5_METATYPES, REPO, translate, tlc, write_ndjson
from vlib import lang, cxx, progs as P

RULE = ("case = emitted header; documents: 40-binding documents of GenExpr/GenStmt/GenMatrix/GenReact/GenHandler programs, wide documents "
        "(33, 64, 65, 70 bindings), colliding object/property prefixes, many-observer bindings, gadget sub-bindings (token level), examples; "
        "string-literal cases: one per hostile character class and position; non-trivial = header has >= 1 binding or callback; distinct by text")

FN_DEF = re.compile(r"^    (?:\S.*? )?(setup\w*|update\w+|eval\w+|on\w+)\((.*)\)$", re.M)
FN_BLOCK = re.compile(r"^    (?:\S[^\n]*? )?(setup\w*|update\w+|eval\w+|on\w+)\(([^\n]*)\)\n    \{\n(.*?)^    \}\n", re.M | re.S)


CXX_KEYWORDS = set("class union int new delete default switch template export register this operator namespace".split())
IDENT = type("I", (), {"match": staticmethod(lambda n: re.fullmatch(r"[^\W\d]\w*", n) is not None and n not in CXX_KEYWORDS)})


def ascii_lower(s):
    """the file-name rule lower-cases ASCII letters only (qtname.rs make_ascii_lowercase)"""
    return "".join(c.lower() if c.isascii() else c for c in s)


def tokens(header, expected_ui_include):
    defs = [m.group(1) for m in FN_DEF.finditer(header)]
    calls = re.findall(r"this->(\w+)\(", header)
    m = re.search(r"enum class BindingIndex : unsigned \{\n(.*?)\n?    \};", header, re.S)
    enumerators = [x.strip().rstrip(",") for x in m.group(1).splitlines() if x.strip()] if m else []
    indexuses = re.findall(r"BindingIndex::(\w+)", header)
    updates = [d[len("update"):] for d in defs if d.startswith("update")]
    g = re.search(r"quint32 bindingGuard_\[(\d+)\]", header)
    obsdecl = [{"name": a, "n": int(b)} for a, b in re.findall(r"PropertyObserver (observed\w+_)\[(\d+)\];", header)]
    obsuse, orphans = [], []
    for fm in FN_BLOCK.finditer(header):
        body = fm.group(3)
        idx = [int(x) for x in re.findall(r"observed\[(\d+)\]", body)]
        b = re.search(r"auto &observed = (observed\w+_);", body)
        if b:
            obsuse.append({"name": b.group(1), "fn": fm.group(1), "idx": sorted(set(idx))})
        elif idx:
            orphans.append(fm.group(1))
    uses = []
    for u, pat in (("qDebug", r"\bqDebug\("), ("qInfo", r"\bqInfo\("), ("qWarning", r"\bqWarning\("), ("qCritical", r"\bqCritical\("),
                   ("stdmin", r"std::min\b"), ("stdmax", r"std::max\b"), ("stdfmod", r"std::fmod\b")):
        if re.search(pat, header):
            uses.append(u)
    q = re.findall(r'#include "(.*)"', header)
    return {"defs": defs, "calls": [c for c in calls if c not in ("root_", "ui_")], "enumerators": enumerators, "indexuses": indexuses,
            "updates": updates, "guard": int(g.group(1)) if g else 0, "obsdecl": obsdecl, "obsuse": obsuse, "obsorphans": orphans,
            "includes": re.findall(r"#include <(\w+)>", header), "uses": uses,
            "uiinclude": q[0] if len(q) == 1 else "|".join(q), "expecteduiinclude": expected_ui_include}


def compile_header(chk, name, type_name, header, ui, lowercase=True):
    ui_h, _ = cxx.ui_header(type_name, ui)
    lower = ascii_lower(type_name) if lowercase else type_name      # uic names its header after the .ui file as spelled
    files = {"main.cpp": '#include "mockqt_classes.h"\n#include "uisupport_%s.h"\nint main() { return 0; }\n' % lower,
             "ui_%s.h" % lower: ui_h, "uisupport_%s.h" % lower: header}
    rc1, err1 = cxx.syntax_check(chk.work, name, files)
    rc2, err2 = cxx.syntax_check(chk.work, name, files, extra_flags=["-DQT_NO_DEBUG"])
    return ("ok" if rc1 == 0 else "fail"), ("ok" if rc2 == 0 else "fail"), (err1 or err2)


def wide_doc(n):
    """n bindings on one object tree, alternating shapes (plain, observer-carrying, log-calling handlers)"""
    q = P.HEAD
    for i in range(n):
        body = ["a.ival + %d" % i, "b.ptr != null ? b.ptr.jval : %d" % i, "Math.max(a.ival, %d)" % i, "a.flag ? a.jval : b.jval"][i % 4]
        q += "  TSource { id: w%d; ival: %s }\n" % (i, body)
    return q + "}\n"


def collide_doc():
    return (P.HEAD + "  TOther { id: m; subVal: a.ival }\n  TOther { id: mSub; val: a.jval }\n"
            "  TOther { id: mSubVal; ival: a.ival; onIvalChanged: a.poke() }\n"
            "  TOther { id: x; title: a.text; onTitleChanged: a.poke() }\n  TOther { id: xTitle; onWindowTitleChanged: a.poke(); windowTitle: a.text }\n"
            # two callbacks whose object + signal concatenations coincide
            "  TOther { id: y; onWindowTitleChanged: a.poke() }\n  TOther { id: yWindow; onTitleChanged: a.act(1) }\n"
            "  TOther { id: z; onWindowTitleChanged: a.poke(); windowTitle: a.text }\n  TOther { id: zWindow; onTitleChanged: a.act(2); title: a.textB }\n"
            "  TSource { id: setupT; ival: a.ival }\n  TSource { id: t; ival: a.jval; onIvalChanged: function(v: int) { a.act(v) } }\n}\n")


def observers_doc():
    return (P.HEAD + "  TSource { id: o1\n    ival: { let p = a.ptr; let s = 0; if (p != null) { s = p.ival; p = p.ptr; if (p != null) { s = s + p.ival; p = p.ptr; "
            "if (p != null) { s = s + p.jval } } } return s }\n    jval: b.ptr != null && b.ptr.ptr != null ? b.ptr.ptr.ival : 0\n"
            "    text: a.ptr != null ? a.ptr.text : b.ptr != null ? b.ptr.text : \"\"\n  }\n"
            # the same property read repeatedly through run-time chosen variables, in one block, in every order with other reads
            "  TSource { id: o2\n    text: { let s = a.flag ? a.ptr : b.ptr; let t = b.flag ? a.ptr : b.ptr; return s.text + s.text + t.text }\n"
            "    ival: { let s = a.flag ? a.ptr : b.ptr; let t = b.flag ? a.ptr : b.ptr; return s.ival + s.ival + t.jval + t.jval + s.jval + t.ival }\n"
            "    jval: { let s = a.flag ? a.ptr : b.ptr; return s.ival + s.ival + s.ival + s.jval }\n  }\n"
            "  TSource { id: o3\n    text: { let s = a.flag ? a.ptr : b.ptr; let t = b.flag ? a.ptr : b.ptr; return s.text + t.text + s.text + t.text + a.text }\n"
            "    ival: { let s = a.flag ? a.ptr : b.ptr; let u = s; let v = s.ptr; return s.ival + u.ival + v.ival + s.ptr.ival + v.jval }\n  }\n}\n")


GADGET_DOCS = [
    # a facility used only by a CONSTANT member of a gadget map that also has a dynamic member (every member gets an eval function)
    ("import qmluic.QtWidgets\nQWidget {\n  QLineEdit { id: edit }\n  QLabel { id: lab\n    font.family: edit.text\n    font.pointSize: { console.log(\"x\"); 12 }\n  }\n}\n"),
    ("import qmluic.QtWidgets\nQWidget {\n  QLineEdit { id: edit }\n  QLabel { id: lab\n    font.family: edit.text\n    font.pointSize: { console.warn(\"x\"); return 12 }\n    font.bold: true\n  }\n"
     "  QLabel { font { family: edit.text; weight: { console.info(1); 50 } } }\n}\n"),
    ("import qmluic.QtWidgets\nQWidget {\n  QCheckBox { id: chk }\n  QSpinBox { id: spin }\n  QLabel { id: lab\n    font.bold: chk.checked\n    font.pointSize: spin.value\n"
     "    font.family: \"Mono\"\n    sizePolicy.horizontalPolicy: chk.checked ? QSizePolicy.Expanding : QSizePolicy.Fixed\n  }\n"
     "  QLabel { font { italic: chk.checked; underline: !chk.checked } }\n}\n"),
]

# hostile string literals: (label, python string).  XML is not involved: these stay in the header.
STRINGS = [
    ("plain", "abc"), ("quote", 'a"b'), ("backslash", "a\\b"), ("question marks", "a??/b??=c"), ("tab", "a\tb"), ("newline", "a\nb"),
    ("carriage return", "a\rb"), ("0x01", "a\x01b"), ("0x1f", "a\x1fb"), ("0x7f", "a\x7fb"), ("zero width space", "a​b"),
    ("latin-1", "café"), ("cjk", "日本"), ("astral", "x\U0001F600y"), ("nbsp", "a b"), ("line separator", "a b"),
    ("control then digit", "a\x011"), ("control then hex letter", "a\x01f"), ("percent", "100%d %1 %s"), ("single quote", "it's"),
    ("trailing backslash", "ab\\"), ("only quote", '"'), ("bell escape", "a\x07b"), ("vertical tab", "a\x0bb"), ("form feed", "a\x0cb"),
    ("c1 control", "a\u0085b"), ("soft hyphen", "a­b"), ("bom", "a﻿b"),
]
STRINGS_NUL = [("nul then digit", "a\x007"), ("nul", "a\x00b")]


# literals given in their QML spelling: (label, QML literal, denoted string or None when the spelling denotes no string; a spelling may always be rejected)
RAW_LITERALS = [
    ("surrogate pair escapes", '"\\uD83D\\uDE00"', "\U0001F600"), ("braced astral escape", '"\\u{1F600}"', "\U0001F600"), ("lone high surrogate", '"a\\uD83Db"', None),
    ("lone low surrogate", '"a\\uDE00b"', None), ("escape beyond U+10FFFF", '"\\u{110000}"', None), ("braced surrogate", '"\\u{D83D}\\u{DE00}"', "\U0001F600"),
    ("surrogate halves meeting by folding", '"\\uD83D" + "\\uDE00"', "\U0001F600"), ("hex escape", '"\\x41\\x7e"', "A~"), ("latin-1 hex escape", '"\\xe9"', "é"),
    ("legacy octal escape", '"\\101"', "A"), ("nul escape", '"a\\0"', "a\x00"), ("line continuation", '"a\\\nb"', "ab"), ("single quoted", "'it\\'s'", "it's"),
    ("escaped solidus", '"a\\/b"', "a/b"), ("short unicode escape", '"\\u41"', None), ("four digit escape then digit", '"\\u00411"', "A1"), ("empty braced escape", '"\\u{}"', None),
    ("vertical tab escape", '"\\v"', "\x0b"), ("backspace escape", '"\\b"', "\x08"), ("form feed escape", '"\\f"', "\x0c"),
]


def js_literal(s):
    o = '"'
    for ch in s:
        c = ord(ch)
        if ch == '"':
            o += '\\"'
        elif ch == "\\":
            o += "\\\\"
        elif ch == "\n":
            o += "\\n"
        elif ch == "\r":
            o += "\\r"
        elif ch == "\t":
            o += "\\t"
        elif c < 0x20 or c == 0x7f:
            o += "\\x%02x" % c
        elif c in (0x2028, 0x2029, 0x200b, 0xfeff, 0x85, 0xad):
            o += "\\u%04x" % c
        else:
            o += ch
    return o + '"'


def strings_leg(chk, classes):
    """each literal in a QStringLiteral (binding), in a console.log C string and as qsTr source; compiled, run, read back"""
    cases = STRINGS + STRINGS_NUL
    lits = {}
    # raw spellings: only those the translator accepts take part (a spelling that denotes no string must not be accepted)
    rq = [{"id": n, "src": P.HEAD + "  TSource { id: s0\n    text: a.text + %s\n  }\n}\n" % lit, "type_name": "Doc", "modes": ["generate"]} for n, (_, lit, _) in enumerate(RAW_LITERALS)]
    rres = translate(rq, metatypes=[VERIF_METATYPES], procs=1)
    raw_problems = []
    for n, (what, lit, val) in enumerate(RAW_LITERALS):
        r_ = rres[n]["generate"]
        chk.count({"raw literal": lit}, nontrivial=True)
        if r_.get("panic") or not P.is_accepted(r_) or r_.get("syntax_error"):
            continue
        if val is None:
            raw_problems.append(("value", what, lit, rq[n]["src"], r_.get("header"), "the spelling %s denotes no string but is accepted" % lit))
            continue
        cases = cases + [(what, val)]
        lits[len(cases) - 1] = lit
    q = P.HEAD
    for i, (_, s) in enumerate(cases):
        lit = lits.get(i) or js_literal(s)
        q += "  TSource { id: s%d\n    text: a.text + %s\n    onPlain: { console.log(%s); a.actText(%s) }\n    textB: a.flag ? qsTr(%s) : a.text\n  }\n" % (i, lit, lit, lit, lit)
    q += "}\n"
    res = translate([{"id": "s", "src": q, "type_name": "Doc", "modes": ["generate"]}], metatypes=[VERIF_METATYPES], procs=1)
    run = res["s"]["generate"]
    if not P.is_accepted(run):
        raise ToolError("string document rejected: %s" % run.get("diags"))
    ui_h, members = cxx.ui_header("Doc", run["ui"])
    objs = [(name, cls) for cls, name, _ in members[1:]]
    o = ['#include "mockqt_classes.h"', "#include <QtDebug>", "#define private public", '#include "uisupport_doc.h"', "#undef private", "static QWidget root;"]
    for name, cls in objs:
        o.append("static %s %s;" % (cls, name))
    o.append("int main() {\n    Ui::Doc ui;")
    for name, cls in objs:
        o.append('    %s.mockName = "%s"; ui.%s = &%s;' % (name, name, name, name))
    o.append("    UiSupport::Doc sup(&root, &ui);\n    a.flag_ = true;")
    for i in range(len(cases)):
        o.append('    std::cout << "%d text " << mock::show(sup.evalS%dText()) << std::endl;' % (i, i))
        o.append('    std::cout << "%d tr " << mock::show(sup.evalS%dTextB()) << std::endl;' % (i, i))
        o.append('    mock::events().clear(); sup.onS%dPlain(); for (auto &e : mock::events()) std::cout << "%d ev " << e << std::endl;' % (i, i))
    o.append("    return 0;\n}")
    files = {"main.cpp": "\n".join(o) + "\n", "ui_doc.h": ui_h, "uisupport_doc.h": run["header"]}
    crc, cerr, rrc, out, err = cxx.compile_run(chk.work, "strings", files, "")
    if crc != 0:
        # find which literals break the translation unit: compile each alone
        culprits = []
        for i, (what, s) in enumerate(cases):
            lit = lits.get(i) or js_literal(s)
            q1 = P.HEAD + "  TSource { id: s0\n    text: a.text + %s\n    onPlain: { console.log(%s) }\n    textB: a.flag ? qsTr(%s) : a.text\n  }\n}\n" % (lit, lit, lit)
            r1 = translate([{"id": "s", "src": q1, "type_name": "Doc", "modes": ["generate"]}], metatypes=[VERIF_METATYPES], procs=1)["s"]["generate"]
            st, st2, e1 = compile_header(chk, "str%d" % i, "Doc", r1["header"], r1["ui"])
            chk.count({"string": s}, nontrivial=True)
            if st != "ok":
                culprits.append((what, s, q1, r1["header"], e1))
        return [("compile", what, s, q1, hdr, e1) for what, s, q1, hdr, e1 in culprits]
    got = {}
    for line in out.split("\n"):
        if not line:
            continue
        i, kind, rest = line.split(" ", 2)
        got.setdefault((int(i), kind), []).append(rest)
    problems = []
    for i, (what, s) in enumerate(cases):
        chk.count({"string": s}, nontrivial=True)
        exp = json.dumps(s, ensure_ascii=False)
        exp = mock_jstr(s)
        t = got.get((i, "text"), ["MISSING"])[0]
        if t != exp:
            problems.append(("value", what, s, "QStringLiteral: expected %s got %s" % (exp, t)))
        tr = got.get((i, "tr"), ["MISSING"])[0]
        exp_tr = mock_jstr("tr(Doc|" + s.split("\x00")[0] + ")")
        if "\x00" not in s and tr != exp_tr:
            problems.append(("value", what, s, "qsTr source: expected %s got %s" % (exp_tr, tr)))
        evs = got.get((i, "ev"), [])
        if "\x00" not in s:
            exp_ev = ["log:debug " + mock_jstr(s), "a.actText(" + mock_jstr(s) + ")"]
            if evs != exp_ev:
                problems.append(("value", what, s, "console.log / call argument: expected %s got %s" % (exp_ev, evs)))
    return [(k, what, s, q, run["header"], msg) for k, what, s, msg in problems] + raw_problems


def mock_jstr(s):
    o = '"'
    for b in s.encode("utf-8"):
        if b == 0x22:
            o += '\\"'
        elif b == 0x5c:
            o += "\\\\"
        elif b < 0x20 or b == 0x7f:
            o += "\\u%04x" % b
        else:
            o += bytes([b]).decode("latin-1")
    return (o + '"').encode("latin-1").decode("utf-8", "replace")


def run(chk):
    build_harness()
    cxx.gen_mock_classes(os.path.join(chk.work, "mockqt_classes.h"))
    classes = cxx.load_classes()
    quick = chk.tier == "quick"
    r = random.Random(chk.seed)
    docs = []   # (name, qml, metatypes, compile?)
    pool = []
    for mod, limit in (("GenExpr", 40 if quick else 300), ("GenStmt", 30 if quick else 300), ("GenMatrix", 100 if quick else 2000), ("GenReact", 100)):
        pool += [p for p in P.tlc_programs(chk, mod, limit, chk.seed) if lang.has_dynamic(p["body"])]
    # only individually accepted programs go into the shared documents
    for i, p in enumerate(pool):
        p["id"] = "q%d" % i
    runs, _ = P.accepted_individually(chk, pool, want_ir=False)
    pool = [p for p in pool if P.is_accepted(runs[p["id"]])]
    r.shuffle(pool)
    ndocs = 10 if quick else 120
    for d in range(ndocs):
        chunk = pool[d * 40:(d + 1) * 40]
        if chunk:
            docs.append(("bind%d" % d, P.binding_doc(chunk)[0], [VERIF_METATYPES], True))
    hp = P.tlc_programs(chk, "GenHandler", 60 if quick else 1000, chk.seed)
    for i, p in enumerate(hp):
        p["id"] = "h%d" % i
    hruns, _ = P.accepted_individually(chk, hp, kind="handler", want_ir=False)
    hp = [p for p in hp if P.is_accepted(hruns[p["id"]])]
    for d in range(3 if quick else 30):
        chunk = hp[d * 30:(d + 1) * 30]
        if chunk:
            docs.append(("hand%d" % d, P.handler_doc(chunk), [VERIF_METATYPES], True))
    for n in (1, 31, 32, 33, 64, 65, 70) + (() if quick else (96, 97, 128, 129)):
        docs.append(("wide%d" % n, wide_doc(n), [VERIF_METATYPES], True))
    docs.append(("collide", collide_doc(), [VERIF_METATYPES], True))
    docs.append(("observers", observers_doc(), [VERIF_METATYPES], True))
    docs.append(("empty", P.HEAD + "}\n", [VERIF_METATYPES], True))
    docs.append(("minmax", P.HEAD + "  TSource { id: t0; uval: Math.min(a.uval, 3); ival: Math.max(a.ival, 3); dval: Math.max(a.dval, 0.5)\n"
                 "    text: Math.min(a.text, \"m\"); flag: Math.max(a.flag, b.flag); jval: Math.min(7, a.jval) }\n}\n", [VERIF_METATYPES], True))
    docs.append(("fmod", P.HEAD + "  TSource { id: t0; dval: a.dval % 2.0 }\n}\n", [VERIF_METATYPES], True))
    docs.append(("nonfinite", P.HEAD + "  TSource { id: t0; dval: 1.0 / 0.0 + a.dval }\n  TSource { id: t1; dval: 0.0 % 0.0 + a.dval }\n"
                 "  TSource { id: t2; dval: -1e999 + a.dval }\n  TSource { id: t3; dval: a.flag ? 1e999 : -(2.0 / 0.0) }\n}\n", [VERIF_METATYPES], True))
    # callback parameters of gadget type: read only, reassigned, written through a property setter
    docs.append(("gadgetparam", P.HEAD + "  TSource { id: t0; onFontPicked: function(f: QFont) { a.ival = f.pointSize } }\n"
                 "  TSource { id: t1; onFontPicked: function(f: QFont) { f = a.font; b.font = f } }\n"
                 "  TSource { id: t2; onFontPicked: function(f: QFont) { f.bold = a.flag; f.pointSize = a.ival + 1; b.font = f } }\n}\n", [VERIF_METATYPES], True))
    # bitwise operators on enum operands: flags (valid), and the plain / scoped enums of known finding F17
    docs.append(("enumflags", P.HEAD + "  TSource { id: t0; opts: a.opts | TSource.OptX }\n  TSource { id: t1; opts: a.opts & TSource.OptY }\n"
                 "  TSource { id: t2; flag: (a.opts & TSource.OptZ) == TSource.OptZ }\n  TSource { id: t3; level: a.flag ? TSource.Level.High : a.level }\n}\n", [VERIF_METATYPES], True))
    docs.append(("enumbits", P.HEAD + "  TSource { id: t0; mode: a.mode | TSource.ModeB }\n  TSource { id: t1; level: a.level | TSource.Level.High }\n"
                 "  TSource { id: t2; level: ~a.level }\n  TSource { id: t3; level: a.level & a.level }\n}\n", [VERIF_METATYPES], True))
    docs.append(("shiftu", P.HEAD + "  TSource { id: t0; uval: a.uval << 3; ival: a.ival >> a.uval; jval: (a.uval as int) + (a.flag as int) + (a.mode as int) }\n}\n", [VERIF_METATYPES], True))
    # typed declarations without initialiser that are never assigned as a whole, yet used (the only way to build a default value of a gadget type)
    docs.append(("uninit", P.HEAD + "  TSource { id: t0; font: { let f: QFont; f.bold = a.flag; f.pointSize = a.ival; return f } }\n"
                 "  TSource { id: t1; onIvalChanged: { let none: QString; a.text = none } }\n"
                 "  TSource { id: t2; text: { let s: QString; if (a.flag) { s = a.text } return s } }\n"
                 "  TSource { id: t3; ival: { let n: int; n = a.ival; return n } }\n"
                 "  TSource { id: t4; onFontPicked: function(f: QFont) { let g: QFont; g.italic = f.bold; b.font = g } }\n"
                 "  TSource { id: t5; text: { let s: QString; let t: QString; return a.flag ? s : a.text + t } }\n}\n", [VERIF_METATYPES], True))
    # file names as spelled (--no-lowercase-file-name): the header of the form is the one uic writes for the .ui file of that name
    docs.append(("keepcase:MainPanel", wide_doc(3), [VERIF_METATYPES], True))
    docs.append(("keepcase:Ui_Form", collide_doc(), [VERIF_METATYPES], True))
    docs.append(("keepcase:lower", wide_doc(2), [VERIF_METATYPES], True))
    # type names (file stems) that are no C++ identifier are written out verbatim as the class name (known finding F22)
    for tn in ("settings-page", "2ndPage", "My Type", "a.b", "class", "union", "\u00dcbersicht", "Good_1", "_x"):
        docs.append(("oddname:" + tn, wide_doc(1), [VERIF_METATYPES], True))
    # slots that are not public may only appear in a header if the call compiles (it cannot): such a call has to be rejected
    for n, body in enumerate(("onPlain: a.guarded()", "onPlain: { a.guardedInt(1); a.poke() }", "onPlain: a.hidden()", "onPlain: guarded()", "ival: { a.guarded(); return a.ival }")):
        docs.append(("nonpublic%d" % n, P.HEAD + "  TSource { id: t0\n    %s\n  }\n}\n" % body, [VERIF_METATYPES], True))
    # signals that carry a flags value (QFlags<T>, passed by value): the signal pointers of the connections must name the declared parameter lists
    docs.append(("flagsignal", P.HEAD + "  TSource { id: t0; onOptsPicked: a.poke() }\n  TSource { id: t1; onOptsAndText: function(o: TSource.Opts, s: QString) { a.text = s } }\n"
                 "  TSource { id: t2; onModed: a.poke(); onOptsPicked: { a.opts = a.opts | TSource.OptX } }\n}\n", [VERIF_METATYPES], True))
    # callbacks whose last expression statement is a constant (F24: the empty list used to be printed as `static_cast<void>({})`)
    docs.append(("constcompletion", P.HEAD + "  TSource { id: t0; onPlain: { a.poke(); [] } }\n  TSource { id: t1; onPlain: { a.poke(); 1 } }\n  TSource { id: t2; onPlain: { a.poke(); \"s\" } }\n"
                 "  TSource { id: t3; onPlain: { if (a.flag) { null } else { true } } }\n  TSource { id: t4; onPlain: { a.poke(); TSource.ModeA } }\n  TSource { id: t5; onPlain: { [\"x\"] } }\n"
                 "  TSource { id: t6; onPlain: { a.ival } }\n  TSource { id: t7; onPlain: { 1.5 } }\n}\n", [VERIF_METATYPES], True))
    # a property of an enum type that also has a flags type (like Qt::Orientation / Qt::Orientations), bound to a choice between two enumerators
    docs.append(("enumbase", P.HEAD + "  TSource { id: t0; optOne: a.flag ? TSource.OptX : TSource.OptY }\n  TSource { id: t1; optOne: a.optOne }\n"
                 "  TSource { id: t2; opts: a.flag ? TSource.OptX : TSource.OptY }\n  TSource { id: t3; optOne: { if (a.flag) { return TSource.OptZ } return a.optOne } }\n}\n", [VERIF_METATYPES], True))
    docs.append(("ctxquote", P.HEAD + "  TSource { id: t0; text: a.flag ? qsTr(\"x\") : a.text }\n}\n", [VERIF_METATYPES], True))
    for n, g in enumerate(GADGET_DOCS):
        docs.append(("gadget%d" % n, g, [QT5_METATYPES, VERIF_T_METATYPES], False))
    for f in sorted(glob.glob(os.path.join(REPO, "examples", "*.qml"))):
        docs.append(("ex_" + os.path.basename(f)[:-4], open(f).read(), [QT5_METATYPES], False))
    # ---- translate
    recs, back = [], []
    todo = []
    for name, qml, mts, comp in docs:
        tn = "Doc" if not name.startswith("ex_") else name[3:]
        if name == "ctxquote":
            tn = "Do_c"
        keep = name.startswith("keepcase:")
        if keep or name.startswith("oddname:"):
            tn = name.split(":", 1)[1]
        res = translate([{"id": name, "src": qml, "type_name": tn, "modes": ["generate"], "lowercase": not keep}], metatypes=mts, procs=1)
        run_ = res[name]["generate"]
        if run_.get("panic") or not P.is_accepted(run_):
            if name.startswith(("bind", "hand", "wide", "collide", "observers", "minmax", "shiftu", "empty", "uninit", "keepcase", "flagsignal", "constcompletion")):
                raise ToolError("document %s not accepted: %s" % (name, json.dumps(run_.get("diags"))[:600] + str(run_.get("panic"))))
            continue
        todo.append((name, qml, tn, run_, comp))

    def judge(t):
        name, qml, tn, run_, comp = t
        keep = name.startswith("keepcase:")
        tok = tokens(run_["header"], "ui_%s.h" % (tn if keep else ascii_lower(tn)))
        st, st2, err = ("skip", "skip", "")
        if comp:
            st, st2, err = compile_header(chk, name, tn, run_["header"], run_["ui"], lowercase=not keep)
        return tok, st, st2, err
    with ThreadPoolExecutor(14) as ex:
        judged = list(ex.map(judge, todo))
    for (name, qml, tn, run_, comp), (tok, st, st2, err) in zip(todo, judged):
        tok.update({"id": name, "compiled": st, "compilednodebug": st2})
        recs.append(tok)
        back.append((name, qml, run_["header"], err))
        chk.count({"h": run_["header"]}, nontrivial=bool(tok["updates"] or [d for d in tok["defs"] if d.startswith("on")]))
    path = os.path.join(chk.work, "headers.ndjson")
    write_ndjson(path, recs)
    rt = tlc("Header", env={"RECS": path}, workers=4, timeout=900, extra=["-continue"], coverage=False)
    chk.add_tlc(rt)
    if rt.distinct != len(recs):
        raise ToolError("Header.tla judged %d of %d records: %s" % (rt.distinct, len(recs), rt.out[-2000:]))
    chk.cov["traces_validated_against_impl"] = len(recs)
    seen = set()
    for inv, vals in rt.violations:
        idx = int(vals["i"]) - 1
        name, qml, header, err = back[idx]
        if (inv, idx) in seen:
            continue
        seen.add((inv, idx))
        finding = None
        if inv == "Compiles" and name == "minmax" and "std::min(a0, 3)" in header and "no matching function" in err:
            finding = "F6"
        if inv == "Compiles" and name == "fmod" and "% 2e0" in header:
            finding = "F7"
        if inv == "Compiles" and name == "enumbits":
            errs = re.findall(r"error: ([^\n]*)", err)
            if errs and all(("invalid conversion from" in e and "int" in e and "TSource::Mode" in e) or (re.search(r"no match for .operator[|&~^].", e) and "TSource::Level" in e) for e in errs):
                finding = "F17"
        if inv == "Compiles" and name.startswith("oddname:") and not IDENT.match(name.split(":", 1)[1]):
            finding = "F22"
        if finding and chk.is_known(finding):
            chk.known_finding(finding, {"F6": "Math.min/max(<uint expression>, <integer literal>) is printed as std::min(a0, 3): template deduction fails",
                                        "F7": "% on double operands is printed verbatim (a0 % 2e0): invalid C++",
                                        "F22": "a type name (file stem) that is no C++ identifier -- settings-page, 2ndPage, a.b, class -- is written out verbatim as the class name: the header cannot compile",
                                        "F17": "a bitwise operator on operands of an enum type without a flags type (plain or scoped enum) is accepted and printed verbatim: invalid C++"}[finding])
            continue
        chk.violation("%s fails for header of document %s%s" % (inv, name, (": " + err[:400]) if inv == "Compiles" else ""),
                      {"invariant": inv, "qml": qml, "header": header, "compile_error": err[:4000], "tokens": recs[idx]})
    # ---- string literals
    for kind, what, s, qml, header, msg in strings_leg(chk, classes):
        if kind == "compile" and chk.is_known("F3"):
            chk.known_finding("F3", "string literal (%s) printed with Rust escapes is not valid C++" % what)
            continue
        chk.violation("string literal (%s) %r: %s" % (what, s, msg[:400]), {"qml": qml, "header": header, "string": s, "detail": msg})
    chk.sample({"document": "wide33", "tokens": {k: v for k, v in next(x for x in recs if x["id"] == "wide33").items() if k in ("guard", "uses", "includes", "compiled")}})
    chk.sample({"tokens_of": recs[0]["id"], "defs": recs[0]["defs"][:6], "enumerators": recs[0]["enumerators"][:4]})
    chk.cov["trusted_base"] = ["g++ 12 -std=c++17 -fsyntax-only -Wall -Werror=return-type", "mock Qt generated from the same metatypes", "tokenizer in checks/c16.py", "TLC"]
    chk.assumptions += ["property and signal names of the class library do not end in a digit (name model of UniqueNameGenerator)",
                        "headers over the bundled Qt 5 metatypes (gadget sub-bindings, examples) are judged at token level only: no Qt declarations to compile against",
                        "NUL inside a C string passed to a log stream is not compared (a C string cannot carry it)"]
