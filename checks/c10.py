"""C10 -- object names are unique and every reference resolves, across both outputs.

G leg: GenTree.tla trees (element-kind shapes, and shallow trees over classes whose generated-name prefixes interfere:
label/label1, widget/widget2) get ids from seeded strategies (anonymous, all, adversarial = ids that look like generated
names, duplicates, explicit action lists); buddy references and dynamic bindings are planted so that the .ui and the support
header carry references.  From the real outputs: all names pairwise distinct, ids verbatim, generated names derived from
the class, every addaction / cstring / ui_-><name> denotes exactly one declared object of a compatible kind; duplicate ids
are rejected.  M leg: ObjTree.tla's naming model (repaired algorithm) is checked for distinctness on every tree.
"""
import random
import re

from vlib import build_harness, log, ToolError, translate, QT5_METATYPES, VERIF_T_METATYPES
from vlib import trees as T

RULE = ("case = object tree with an id assignment; trees: shapes of GenTree.tla up to 4 nodes + seeded sample of 5, and all shallow trees with 1..4 "
        "children over {QLabel, Label1, QWidget, Widget2, QAction}; id strategies anonymous / some / all / adversarial (twice) / member-like (ids spelled like properties, slots and signals) / duplicate / explicit "
        "actions; non-trivial = >= 1 anonymous object sharing a prefix with an id or another object; distinct by JSON")

WIDGETISH = ("widget", "menu", "tab")


def plant_refs(t, r):
    """buddy references and dynamic bindings between labels, so that names are used as references in both outputs"""
    extra = {}
    ns = [n for n, _ in T.nodes(t)]
    labels = [n for n in ns if n["cls"] in ("QLabel", "Label1")]
    ided = [n for n in ns if n["id"] and T.kind(n["cls"]) in WIDGETISH]
    other = [n for n in ns if n["id"] and T.kind(n["cls"]) not in WIDGETISH]      # actions, layouts, spacers: not a QWidget
    for l in labels:
        if other and r.random() < 0.25:
            extra.setdefault(id(l), []).append("buddy: %s" % r.choice(other)["id"])   # must be rejected, never emitted
            extra["_incompatible"] = True
        elif ided and r.random() < 0.6:
            tgt = r.choice(ided)
            extra.setdefault(id(l), []).append("buddy: %s" % tgt["id"])
        # a dynamic buddy with several returns: object, null, object -- every returned object must be a QWidget
        if ided and (ided + other) and r.random() < 0.2 and not any(x.startswith("buddy:") for x in extra.get(id(l), [])):
            cond = r.choice(ided)["id"]
            first = r.choice(ided + other)
            same = [n for n in ided + other if n["cls"] == first["cls"]] if first in ided else ided     # returned objects of one class, or an incompatible one first
            last = r.choice(same)
            extra.setdefault(id(l), []).append('buddy: { if (%s.windowTitle == "a") { return %s } if (%s.windowTitle == "b") { return null } return %s }' % (cond, first["id"], cond, last["id"]))
            if first in other or last in other:
                extra["_incompatible"] = True
        src = [n for n in ided if n is not l]
        if src and r.random() < 0.6:
            extra.setdefault(id(l), []).append("text: %s.windowTitle" % r.choice(src)["id"])     # windowTitle has a NOTIFY signal (QLabel.text has none)
    # handlers on actions: the header then names the action, wherever it stands in the tree
    for a in [n for n in ns if n["cls"] == "QAction" and not n["sep"]]:
        if r.random() < 0.5:
            extra.setdefault(id(a), []).append('onTriggered: console.log("t")')
    return extra


def classes_compatible(decl_cls, want):
    if want == "QWidget":
        return decl_cls not in ("QAction",) and not decl_cls.endswith("Layout") and decl_cls != "QSpacerItem"
    return True


def scope_leg(chk):
    """G: what a bare identifier denotes (Scope.tla) for every subset of the levels at which a name can be defined; the resolution the
    translator made is read from the IR of the handler (observation hook) or from the diagnostic"""
    from vlib import tlc, tlc_must_pass
    g = tlc("GenScope", workers=1, timeout=600, coverage=False)
    tlc_must_pass(g, "GenScope (IdWins, LocalWins, Total)")
    chk.add_tlc(g)
    cases = g.printed("SCOPE")
    if len(cases) != 32:
        raise ToolError("GenScope produced %d cases" % len(cases))
    reqs, meta = [], []
    for c in cases:
        fam, d = c["fam"], set(c["defined"])
        if fam == "global" and "global" not in d:
            continue            # the global names cannot be undefined
        name = {"property": "text", "parameter": "text", "method": "selectAll", "global": "console"}[fam]
        me = {"property": "QLabel" if "property" in d else "QWidget", "parameter": "QLabel" if "property" in d else "QWidget",
              "method": "QLineEdit" if "method" in d else "QLabel", "global": "QLabel"}[fam]
        idobj = "  QLineEdit { id: %s }\n" % name if "id" in d else ""
        use = {"property": "let seen = text", "parameter": "let seen = text", "method": "selectAll()", "global": 'console.log("x")'}[fam]
        decl = {"property": 'let text = "l"; ', "method": "let selectAll = 1; ", "global": "let console = 1; "}.get(fam, "") if "local" in d else ""
        if fam == "parameter" and "local" in d:
            handler = "onWindowTitleChanged: function(text: QString) { %s }" % use
        else:
            handler = "onWindowTitleChanged: { %s%s }" % (decl, use)
        qml = "import qmluic.QtWidgets\nQWidget {\n  id: root\n%s  %s {\n    id: me\n    %s\n  }\n}\n" % (idobj, me, handler)
        reqs.append({"id": len(reqs), "src": qml, "type_name": "Doc", "modes": ["generate"], "ir": True})
        meta.append((c, name))
    res = translate(reqs, metatypes=[QT5_METATYPES, VERIF_T_METATYPES])
    for q, (c, name) in zip(reqs, meta):
        run_ = res[q["id"]]["generate"]
        chk.count({"scope": c}, nontrivial=len(c["defined"]) >= 2)
        msgs = [d["msg"] for d in run_.get("diags", []) if d["kind"] == "error"]
        text = str([o["code"] for o in run_.get("ir", []) if o["obj"] == "me"])
        if any("undefined reference" in m for m in msgs):
            seen = "undefined"
        elif c["fam"] in ("property", "parameter"):
            seen = "property" if ("'k': 'rprop'" in text and "'name': '%s'" % name in text) else "id" if "'n': '%s'" % name in text else "local" if not msgs else "error"
        elif c["fam"] == "method":
            seen = "method" if ("'k': 'mcall'" in text and "'name': 'selectAll'" in text and not msgs) else "not callable" if msgs else "?"
        else:
            seen = "global" if ("'k': 'builtin'" in text and not msgs) else "not the console" if msgs else "?"
        want = c["resolves"]
        if c["fam"] in ("method", "global") and want in ("local", "id"):
            want = "not callable" if c["fam"] == "method" else "not the console"        # the call on a variable / an object is then an error
        if seen != want:
            chk.violation("identifier `%s` defined as %s: resolves to %s in the translator, Scope.tla says %s" % (name, sorted(c["defined"]), seen, c["resolves"]),
                          {"qml": q["src"], "diags": run_.get("diags"), "model": c})
    chk.cov["scope_cases"] = len(reqs)


def run(chk):
    build_harness()
    quick = chk.tier == "quick"
    r = random.Random(chk.seed)
    shapes = T.tlc_trees(chk, 4 if quick else 5, 1200 if quick else 100000, chk.seed)
    shapes += T.tlc_trees(chk, 6, 300, chk.seed + 1, which="random") if quick else T.tlc_trees(chk, 5, 3000, chk.seed + 1)      # (enumerating all 5-node trees takes > 1 min)
    names = T.tlc_trees(chk, 4, 100000, chk.seed, which="names")
    items = []
    for n, t in enumerate(names):
        for s in ("anon", "adversarial", "adversarial", "some", "members", "exotic"):
            items.append(("n%d_%s%d" % (n, s, len(items)), T.assign_ids(t, s, r)))
    for n, t in enumerate(shapes):
        nested_sep = any(x["sep"] and x["kids"] for x, _ in T.nodes(t))
        for s in (("adversarial", "dup", "exotic") if n % 3 and not nested_sep else ("anon", "adversarial", "actions", "members")):
            if s == "actions" and not any(T.kind(x["cls"]) in ("action", "menu") for x, _ in T.nodes(t)):
                continue
            items.append(("s%d_%s%d" % (n, s, len(items)), T.assign_ids(t, s, r)))
    # shapes outside the tree model that the tool accepts all the same (a layout directly in a tab widget, ...): whatever it makes of them, names stay unique
    N = lambda cls, *kids: {"kids": list(kids), "cls": cls, "id": "", "sep": False, "acts": []}
    crafted = [N("QWidget", N("QTabWidget", N("QVBoxLayout", N("QLabel")), N("QWidget")), N("QWidget")),
               N("QWidget", N("QTabWidget", N("QVBoxLayout"), N("QWidget"), N("QHBoxLayout")), N("QTabWidget", N("QVBoxLayout", N("QWidget")))),
               N("QTabWidget", N("QVBoxLayout", N("QWidget"), N("QWidget")), N("QWidget", N("QWidget"))),
               N("QWidget", N("QVBoxLayout", N("QTabWidget", N("QGridLayout", N("QLabel"), N("QWidget")))), N("QWidget"), N("QLabel"))]
    for n, t in enumerate(crafted):
        for st in ("anon", "adversarial", "adversarial", "some"):
            items.append(("x%d_%s%d" % (n, st, len(items)), T.assign_ids(t, st, r)))
    log("C10: %d documents" % len(items))
    exp = T.expect_forms(chk, items)
    extras = {i: plant_refs(t, r) for i, t in items}
    reqs = [T.request(i, t, extra=extras[i]) for i, t in items]
    res = translate(reqs, metatypes=[QT5_METATYPES, VERIF_T_METATYPES])
    n_model_bad = 0
    for i, t in items:
        run_ = res[i]["generate"]
        e = exp[i]
        ns = [n for n, _ in T.nodes(t)]
        ids = [n["id"] for n in ns if n["id"]]
        if False:
            pass
        anon = [n for n in ns if not n["id"]]
        nontrivial = any(any(o is not n and T.PREFIX[o["cls"]].rstrip("0123456789") == T.PREFIX[n["cls"]].rstrip("0123456789") for o in ns) for n in anon)
        chk.count(T.strip_private(t), nontrivial=nontrivial)
        if not e["distinctrepaired"] and len(set(ids)) == len(ids):
            n_model_bad += 1
        if run_.get("panic") or run_.get("timeout") or run_.get("crash"):
            continue
        qml = T.document(t, extras[i])
        accepted = bool(run_.get("built")) and not run_.get("has_error")
        if len(set(ids)) != len(ids):
            if accepted:
                chk.violation("duplicate id accepted", {"qml": qml, "ui": run_.get("ui")})
            elif not any("duplicated object id" in d["msg"] for d in run_.get("diags", [])):
                chk.violation("duplicate id rejected without naming it: %s" % [d["msg"] for d in run_.get("diags", [])][:3], {"qml": qml})
            continue
        if accepted and extras[i].get("_incompatible"):
            chk.violation("a reference to an object that is not a QWidget is accepted as a buddy", {"qml": qml, "ui": run_.get("ui"), "header": run_.get("header")})
            continue
        reserved = any(n["id"] == "separator" and T.kind(n["cls"]) in ("action", "menu") for n in ns)      # diagnosed since the F8 repair
        if e["accepted"] and not accepted and not extras[i].get("_incompatible") and not reserved:
            chk.violation("admissible document whose references all name declared objects of a compatible class is rejected: %s" % [d["msg"] for d in run_.get("diags", [])][:3],
                          {"qml": qml, "diags": run_.get("diags")})
            continue
        if not accepted:
            continue        # admissibility of shapes is C11's business; references to ids of incompatible class are rejected rightly
        # (a document the tree model calls inadmissible but the tool accepts is C11's finding; its names and references are still judged here)
        ui = T.parse_ui(run_["ui"])
        decl = {}
        for el in ui["all"]:
            decl.setdefault(el["name"], []).append(el)
        probs = []
        for name, els in decl.items():
            if len(els) > 1:
                probs.append("name %s declared %d times (%s)" % (name, len(els), [x["cls"] for x in els]))
        diffs = [d for d in T.compare_form(e["form"], ui["root"]) if "name" in d] if e["accepted"] else []
        probs += diffs
        for el in ui["all"]:
            for a in el["adds"]:
                if a == "separator":
                    continue
                tg = decl.get(a, [])
                if len(tg) != 1:
                    probs.append("addaction %s resolves to %d objects" % (a, len(tg)))
                elif not (tg[0]["el"] == "action" or tg[0]["cls"] in ("QMenu", "MyMenu")):
                    probs.append("addaction %s denotes a %s" % (a, tg[0]["cls"]))
            for c in el.get("cstrings", []):
                tg = decl.get(c, [])
                if len(tg) != 1:
                    probs.append("object reference %s resolves to %d objects" % (c, len(tg)))
                elif not classes_compatible(tg[0]["cls"], "QWidget"):
                    probs.append("buddy %s denotes a %s" % (c, tg[0]["cls"]))
            if el["el"] == "action" and el["name"] == "separator":
                probs.append("an action is named `separator`: <addaction name=\"separator\"/> is the reserved separator entry, the reference does not denote it")
        root_name = ui["root"]["name"]
        for ref in set(re.findall(r"this->ui_->([^\s\-(),;.\[\]&|<>=!?:+*/]+)", run_.get("header") or "")):
            tg = decl.get(ref, [])
            if len(tg) != 1 or ref == root_name:
                probs.append("ui_->%s resolves to %d declared non-root objects" % (ref, len(tg) if ref != root_name else 0))
        if probs:
            f1 = [p for p in probs if "declared" in p]
            chk.violation("names/references: %s" % "; ".join(probs[:3]), {"qml": qml, "ui": run_["ui"], "problems": probs, "header": run_.get("header")})
    scope_leg(chk)
    chk.cov["model_naming_not_distinct"] = n_model_bad
    if n_model_bad:
        log("C10 M leg: repaired naming model yields duplicate names on %d trees" % n_model_bad)
    chk.cov["programs"] = len(items)
    chk.cov["traces_validated_against_impl"] = len(items)
    chk.sample({"qml": T.document(items[3][1], extras[items[3][0]])})
    chk.sample({"qml": T.document(items[-2][1], extras[items[-2][0]])})
    chk.cov["trusted_base"] = ["expat", "TLC", "ObjTree.tla", "Qt 5 metatypes + Label1/Widget2 foreign classes"]
