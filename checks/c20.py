"""C20 -- preview-mode error recovery is local to the faulty object.

G leg: accepted object trees (GenTree.tla shapes with ids, property values on every object and layout attachments) get one
semantic fault planted at one object (unknown / ill-typed / duplicate binding, unknown attached type, duplicate attached
binding, unknown or invalid object type); faulted and reference document (the same document without the faulty binding /
without the faulty object) are translated in omit mode.  ObjTree.tla's FormOf of the reference tree is the expected element
tree; the two real forms must be identical outside the faulty object (which may lose property values), every planted
fault must be reported inside its span.
"""
import json
import random
import re

from vlib import build_harness, log, ToolError, translate, QT5_METATYPES, VERIF_T_METATYPES
from vlib import trees as T

RULE = ("case = (accepted tree, fault kind, fault position); trees: GenTree.tla shapes up to 4 nodes + seeded sample of 5, ids on some objects, "
        "a property value on every object and layout attachments under layouts; faults: unknown property, ill-typed value, duplicate binding, "
        "unknown attached type, duplicate attached binding (under layouts), unknown object type, non-object type, at every object position "
        "(seeded sample); non-trivial = >= 3 objects; distinct by JSON")

VALUE = {"widget": 'toolTip: "w%d"', "menu": 'title: "m%d"', "tab": 'toolTip: "t%d"', "layout": "spacing: %d", "spacer": "orientation: Qt.Vertical", "action": 'text: "a%d"'}
FAULTS = ["unknown_prop", "illtyped", "duplicate", "unknown_attached", "dup_attached", "unknown_type", "non_object_type", "unconsumed_attached", "nonobject_pointer", "dup_grouped"] + ["illtyped_pseudo:%d" % i for i in range(6)]
# fault kinds that apply to few object classes only: always planted where they apply (the others are sampled)
SPECIFIC = ("illtyped_pseudo", "nonobject_pointer", "unconsumed_attached")


def decorate(t):
    """property values on every object, attachments under layouts -> extra lines per node"""
    extra = {}
    for n, (node, parent) in enumerate(T.nodes(t)):
        if node["sep"]:
            continue
        k = T.kind(node["cls"])
        line = VALUE[k]
        extra.setdefault(id(node), []).append(line % n if "%d" in line else line)
        if parent is not None and T.kind(parent["cls"]) == "layout" and parent["cls"] in ("QGridLayout", "QFormLayout"):
            extra[id(node)].append("QLayout.row: %d" % (n % 3))
        if parent is not None and parent["cls"] == "QHBoxLayout":
            extra[id(node)].append("QLayout.columnStretch: %d" % (1 + n % 3))
        if parent is not None and T.kind(parent["cls"]) == "tab":
            extra[id(node)].append('QTabWidget.title: "p%d"' % n)
    return extra


def plant(t, extra, node, parent, fault, salt=0):
    """-> (faulted tree, faulted extra, reference tree, reference extra, marker) or None when not applicable"""
    ft = T.clone(t)
    # map nodes of the clone by position
    orig = [x for x, _ in T.nodes(t)]
    new = [x for x, _ in T.nodes(ft)]
    pos = next(i for i, x in enumerate(orig) if x is node)
    fextra = {id(new[i]): list(extra.get(id(orig[i]), [])) for i in range(len(orig))}
    rextra = {id(orig[i]): list(extra.get(id(orig[i]), [])) for i in range(len(orig))}
    fn = new[pos]
    k = T.kind(fn["cls"])
    under_layout = parent is not None and T.kind(parent["cls"]) == "layout"
    if fault == "unknown_prop":
        name = ["noSuchProperty9", "t\u00eate", "d\u00e9but", "a\u00f1o", "\u540d\u524d", "gr\u00f6\u00dfe", "on\u00c9v\u00e9nement", "x", "\u00e9",
                "Text", "Modal", "Spacing", "Bogus.Foo", "QLayout.Alignment", "A.B.C", "NoSuchThing"][(pos + salt) % 16]       # also names made of capitalised components only
        line = ["%s: 1", "font { %s: 1 }", "%s.sub: 1", "QLayout.%s: 1"][(pos // 9) % 4] % name if pos % 2 and name[0].islower() else "%s: 1" % name
        if fn["sep"] and not line.startswith(name):
            line = "%s: 1" % name
        fextra[id(fn)].append(line)
        return ft, fextra, t, rextra, name
    if fault.startswith("illtyped_pseudo"):
        # an ill-typed CONSTANT on a pseudo property (the counts of a grid, on the axis the flow uses and on the other one); `null` is no such value:
        # the static evaluator leaves it to the C++ pass, which preview mode does not run, so it is dropped silently like any dynamic binding
        if fn["cls"] not in ("QGridLayout", "MyGrid") or fn["cls"] == "MyGrid":
            return None
        line = ['rows: "2"', "columns: true", "rows: Qt.Horizontal", 'columns: "three"', "rows: 2.5", 'columns: "a" + "b"'][int(fault.split(":")[1])]
        fextra[id(fn)].append(line)
        return ft, fextra, t, rextra, line.split(":")[0]
    if fault == "illtyped":
        if k in ("spacer",) or fn["sep"]:
            return None
        line = {"layout": 'spacing: "x"'}.get(k, "objectName: 42")
        if k == "layout":
            fextra[id(fn)] = [l for l in fextra[id(fn)] if not l.startswith("spacing")]
            rextra[id(node)] = [l for l in rextra[id(node)] if not l.startswith("spacing")]
        fextra[id(fn)].append(line)
        return ft, fextra, t, rextra, line.split(":")[0]
    if fault == "duplicate":
        if fn["sep"] or not fextra[id(fn)]:
            return None
        first = fextra[id(fn)][0]
        fextra[id(fn)].append(first)
        return ft, fextra, t, rextra, first.split(":")[0]
    if fault == "dup_grouped":
        # the same member of a grouped value bound twice, the later occurrence inside a group block (after a dotted binding, after another block, verbatim)
        if k not in ("widget", "tab", "menu") or fn["sep"]:
            return None
        base, again = [("font.pointSize: 12", "font { pointSize: 20 }"), ("font { bold: true }", "font { bold: false; italic: true }"),
                       ("sizePolicy { horizontalPolicy: QSizePolicy.Fixed }", "sizePolicy { horizontalPolicy: QSizePolicy.Fixed }"),
                       ("font.family: \"Mono\"", "font { italic: true; family: \"Serif\" }")][pos % 4]
        rextra[id(node)] = rextra[id(node)] + [base]
        fextra[id(fn)] = fextra[id(fn)] + [base, again]
        return ft, fextra, t, rextra, again.split(" ")[0]
    if fault == "unknown_attached":
        fextra[id(fn)].append("NoSuchAttaching7.row: 1")
        return ft, fextra, t, rextra, "NoSuchAttaching7"
    if fault == "dup_attached":
        att = [l for l in fextra[id(fn)] if l.startswith("QLayout.")]
        if not att:
            return None
        fextra[id(fn)].append(att[0])
        return ft, fextra, t, rextra, "QLayout"
    if fault == "unconsumed_attached":
        # an attached binding the parent never evaluates (ill typed on top): reported by the final sweep, no effect on the form
        if parent is None or fn["sep"]:
            return None
        pk = T.kind(parent["cls"])
        line = 'QTabWidget.title: 1' if pk != "tab" else None
        if pk != "layout":
            line = ['QLayout.row: "top"', 'QLayout.columnStretch: "wide"', "QTabWidget.title: 1"][pos % 3] if pk != "tab" else 'QLayout.row: "top"'
        fextra[id(fn)].append(line)
        return ft, fextra, t, rextra, line.split(":")[0].split(".")[0]
    if fault == "nonobject_pointer":
        # a constant that is not an object reference bound to a pointer-valued property
        if fn["cls"] not in ("QLabel", "Label1"):
            return None
        line = ['buddy: "n%d"' % pos, "buddy: 0", "buddy: Qt.AlignLeft", 'buddy: ["x"]', "buddy: 1.5", "buddy: true"][pos % 6]
        fextra[id(fn)].append(line)
        return ft, fextra, t, rextra, "buddy"
    if fault in ("unknown_type", "non_object_type"):
        if parent is None:
            return None
        fn["cls_render"] = "NoSuchType5" if fault == "unknown_type" else "QVariant"       # a type, but not an object type
        rt = T.clone(t)
        rn = [x for x, _ in T.nodes(rt)]
        rparent = next(x for x in rn if any(c is rn[pos] for c in x["kids"]))
        rparent["kids"] = [c for c in rparent["kids"] if c is not rn[pos]]
        rn2 = [x for x, _ in T.nodes(rt)]
        # carry the decoration over by original position
        keep = [i for i, x in enumerate(rn) if any(x is y for y in rn2)]
        rextra2 = {id(rn[i]): list(extra.get(id(orig[i]), [])) for i in keep}
        return ft, fextra, rt, rextra2, fn["cls_render"]
    return None


def render_faulted(t, extra):
    """like T.document but honouring cls_render (an object whose type name is replaced)"""
    def rec(n, ind):
        lines = ["%s%s {" % (ind, n.get("cls_render", n["cls"]))]
        if n["id"]:
            lines.append("%s  id: %s" % (ind, n["id"]))
        if n["sep"]:
            lines.append("%s  separator: true" % ind)
        if n.get("acts"):
            lines.append("%s  actions: [%s]" % (ind, ", ".join(a + ".menuAction()" if k == "menu" else a for a, k in zip(n["acts"], n["_actkinds"]))))
        for b in extra.get(id(n), []):
            lines.append("%s  %s" % (ind, b))
        for k in n["kids"]:
            lines.append(rec(k, ind + "  "))
        lines.append(ind + "}")
        return "\n".join(lines)
    return "import qmluic.QtWidgets\n" + rec(t, "") + "\n"


def same_outside(a, b, fault_name, path="root", skip_cells=False):
    """compare two parsed element trees; the object named fault_name may lose property values; generated names may be renumbered"""
    d = []
    if a is None or b is None:
        return ["%s: element missing in one form" % path]
    if (a["el"], a["cls"]) != (b["el"], b["cls"]):
        d.append("%s: <%s class=%s> vs <%s class=%s>" % (path, a["el"], a["cls"], b["el"], b["cls"]))
    na, nb = a["name"] or "", b["name"] or ""
    if na != nb and na.rstrip("0123456789") != nb.rstrip("0123456789"):
        d.append("%s: name %s vs %s" % (path, na, nb))
    if (a["item"] is None) != (b["item"] is None) or ((a["item"] or {}) != (b["item"] or {}) and not skip_cells):
        d.append("%s: item attributes %s vs %s (the object does not keep its place)" % (path, a["item"], b["item"]))
    la = {k: v for k, v in a.get("attrs", {}).items() if k not in ("name",)}
    lb = {k: v for k, v in b.get("attrs", {}).items() if k not in ("name",)}
    if a["el"] == "layout" and la != lb and not skip_cells:
        d.append("%s: layout attributes %s vs %s" % (path, la, lb))
    if a["name"] == fault_name:
        gained = set(b["props"]) - set(a["props"])       # a = reference, b = faulted: the faulty object may only LOSE property values
        if gained:
            d.append("%s: the faulty object gained properties %s" % (path, sorted(gained)))
    elif a["props"] != b["props"]:
        d.append("%s: properties %s vs %s" % (path, sorted(a["props"]), sorted(b["props"])))
    strip = lambda xs: [x.rstrip("0123456789") for x in xs]
    if strip(a["adds"]) != strip(b["adds"]) and a["name"] != fault_name:        # an explicit actions list is the faulty object's own binding
        d.append("%s: addaction %s vs %s" % (path, a["adds"], b["adds"]))
    if len(a["kids"]) != len(b["kids"]):
        d.append("%s: %d vs %d child elements" % (path, len(a["kids"]), len(b["kids"])))
    else:
        for i, (x, y) in enumerate(zip(a["kids"], b["kids"])):
            d += same_outside(x, y, fault_name, "%s/%d" % (path, i), skip_cells)
    return d


def run(chk):
    build_harness()
    quick = chk.tier == "quick"
    r = random.Random(chk.seed)
    shapes = T.tlc_trees(chk, 4 if quick else 5, 400 if quick else 100000, chk.seed) + (T.tlc_trees(chk, 6, 200, chk.seed + 2, which="random") if quick else T.tlc_trees(chk, 5, 3000, chk.seed + 2))
    # (documents that instantiate QML components are materialised as files: <customwidgets> is part of the form and belongs to no object)
    cases = []
    for n, t in enumerate(shapes):
        t = T.assign_ids(t, "actions" if n % 3 == 0 and any(T.kind(x["cls"]) in ("action", "menu") for x, _ in T.nodes(t)) else "all", r)
        extra = decorate(t)
        # cross references between objects (a reference into a subtree that is dropped must be dropped with a diagnostic, not kept dangling)
        wl = [x for x, _ in T.nodes(t) if T.kind(x["cls"]) in ("widget", "menu", "tab")]
        for lab in [x for x, _ in T.nodes(t) if x["cls"] == "QLabel"]:
            tg = [w for w in wl if w is not lab]
            if tg and r.random() < 0.7:
                extra[id(lab)].append("buddy: %s" % r.choice(tg)["id"])
        ns = T.nodes(t)
        picks = r.sample(ns, min(len(ns), 2 if quick else 4))
        under = [(x, p) for x, p in ns if p is not None and T.kind(p["cls"]) == "layout" and not any(x is y for y, _ in picks)]
        picks += r.sample(under, min(len(under), 3 if quick else len(under)))        # layout items interact with their siblings
        for node, parent in picks:
            general = [f for f in FAULTS if not f.startswith(SPECIFIC)]
            # an object whose attachments its parent layout consumes interacts with its siblings: the faults that can disturb them are always planted there
            always = ["duplicate", "dup_attached", "unknown_type"] if parent is not None and T.kind(parent["cls"]) == "layout" else []
            for fault in [f for f in FAULTS if f.startswith(SPECIFIC)] + always + r.sample([g for g in general if g not in always], 3 if quick else len(general) - len(always)):
                p = plant(t, extra, node, parent, fault, salt=n)
                if p:
                    cases.append((len(cases), t, node["id"], fault.split(":")[0]) + p)
    if not quick and len(cases) > 500000:
        cases = [(i,) + c[1:] for i, c in enumerate(r.sample(cases, 500000))]       # bounds the thorough tier; the sample is seeded
    log("C20: %d (tree, fault, position) cases" % len(cases))
    refs = T.expect_forms(chk, [("r%d" % c[0], c[6]) for c in cases])
    reqs = []
    for c in cases:
        i, t, oid, fault, ft, fextra, rt, rextra, marker = c
        for rid, text in (("f%d" % i, render_faulted(ft, fextra)), ("r%d" % i, T.document(rt, rextra))):
            if T.uses_components(t):
                reqs.append({"id": rid, "files": dict(T.COMPONENTS, **{"Doc.qml": text}), "path": "Doc.qml", "src": text, "type_name": "Doc", "modes": ["omit"]})
            else:
                reqs.append({"id": rid, "src": text, "type_name": "Doc", "modes": ["omit"]})
    out = translate(reqs, metatypes=[QT5_METATYPES, VERIF_T_METATYPES])
    for c in cases:
        i, t, oid, fault, ft, fextra, rt, rextra, marker = c
        fr, rr = out["f%d" % i]["omit"], out["r%d" % i]["omit"]
        chk.count({"t": T.strip_private(t), "o": oid, "f": fault}, nontrivial=len(T.nodes(t)) >= 3)
        if (fr.get("panic") or fr.get("timeout") or fr.get("crash")) and not (rr.get("panic") or rr.get("timeout") or rr.get("crash")):
            chk.violation("no form in preview mode for a document with a %s fault at %s: the translation dies (%s)" % (fault, oid, str(fr.get("panic") or fr.get("timeout") or fr.get("crash"))[:120]),
                          {"qml": render_faulted(ft, fextra), "died": fr})
            continue
        if any(x.get("panic") or x.get("timeout") or x.get("crash") for x in (fr, rr)):
            continue
        fq, rq = render_faulted(ft, fextra), T.document(rt, rextra)
        if not rr.get("ui"):
            continue
        ref_ok = not rr.get("n_errors") and refs["r%d" % i]["accepted"]
        if not ref_ok and fault not in ("unknown_type", "non_object_type"):
            continue        # binding faults are judged against an accepted reference document
        if not fr.get("ui"):
            chk.violation("no form in preview mode for a document with a %s fault at %s" % (fault, oid), {"qml": fq, "diagnostics": fr.get("diags")})
            continue
        s0 = fq.find(marker)
        errs = [d for d in fr.get("diags", []) if d["kind"] == "error"]
        if not errs:
            chk.violation("planted %s fault at %s is not reported in preview mode" % (fault, oid), {"qml": fq})
            continue
        fu, ru = T.parse_ui(fr["ui"]), T.parse_ui(rr["ui"])
        d = same_outside(ru["root"], fu["root"], oid if fault not in ("unknown_type", "non_object_type") else None,
                         skip_cells=fault == "dup_attached")     # losing its own attachment moves the object and the cursor after it
        # the custom widget declarations belong to no object: a fault leaves them alone (a removed subtree may take its own classes with it)
        cf, cr = sorted(map(str, fu.get("custom", []))), sorted(map(str, ru.get("custom", [])))
        if cf != cr and not (fault in ("unknown_type", "non_object_type") and set(cf) <= set(cr)):
            d.append("<customwidgets> differ: %s with the fault, %s without" % (cf, cr))
        # the reference form itself must be what ObjTree.tla says (guards against both forms being wrong alike)
        if ref_ok:
            d += ["reference: " + x for x in T.compare_form(refs["r%d" % i]["form"], ru["root"])]
        if d:
            chk.violation("preview form is not local to the faulty object (%s at %s): %s" % (fault, oid, "; ".join(d[:3])),
                          {"qml_faulted": fq, "qml_reference": rq, "ui_faulted": fr["ui"], "ui_reference": rr["ui"], "differences": d})
    chk.cov["programs"] = len(cases)
    chk.cov["traces_validated_against_impl"] = len(cases)
    if cases:
        c = cases[len(cases) // 2]
        chk.sample({"fault": c[3], "at": c[2], "faulted": render_faulted(c[4], c[5])})
    chk.cov["trusted_base"] = ["expat", "TLC", "ObjTree.tla FormOf for the reference tree"]
    chk.assumptions += ["ids of a removed subtree are not referenced from outside it; duplicates are planted on ordinary and layout-attached bindings"]
