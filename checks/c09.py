"""C09 -- the .ui is well-formed, grammar-conformant XML that preserves strings.

V leg: every .ui the real translator emits for a broad family of documents (object trees, layouts with attachments, a
gadget-rich family: rect/size/font/sizepolicy/palette/brush/color/icon/cursor/pixmap, string lists, item models, header
attributes, tab pages with attached attributes, custom components, the examples) is parsed by expat (independent of
quick-xml) into an event stream and validated by the push-down recogniser UiGrammar.tla (record-wise trace validation).
String clause: strings over a hostile alphabet are placed wherever a user string reaches the XML and read back.
"""
import glob
import json
import os
import random
import xml.parsers.expat

from vlib import build_harness, build_cli, log, ToolError, translate, tlc, write_ndjson, REPO, QT5_METATYPES, VERIF_T_METATYPES
from vlib import trees as T
from checks import c12

RULE = ("case = emitted .ui / (string, position); documents: seeded sample of GenTree.tla trees and GenLayout.tla layouts, the gadget family, "
        "custom components, examples; strings: 24 hostile strings x 8 positions; non-trivial = document has an element kind beyond widget+property / "
        "string has a non-alphanumeric character; distinct by text")


def events(ui_xml):
    evs = []
    p = xml.parsers.expat.ParserCreate()
    p.buffer_text = True
    text = [""]

    def flush():
        if text[0].strip():
            evs.append({"e": "x", "t": "", "a": {}, "x": text[0]})
        t = text[0]
        text[0] = ""
        return t

    def start(tag, attrs):
        flush()
        evs.append({"e": "s", "t": tag, "a": dict(attrs), "x": ""})

    def end(tag):
        t = text[0]
        flush()
        evs.append({"e": "e", "t": tag, "a": {}, "x": t})
    p.StartElementHandler = start
    p.EndElementHandler = end
    p.CharacterDataHandler = lambda s: text.__setitem__(0, text[0] + s)
    try:
        p.Parse(ui_xml.encode("utf-8"), True)
    except xml.parsers.expat.ExpatError as e:
        evs.append({"e": "bad", "t": "", "a": {}, "x": str(e)})
    return evs


GADGETS = """import qmluic.QtWidgets
QMainWindow {
  id: win
  geometry { x: 1; y: 2; width: 300; height: 200 }
  windowTitle: qsTr("Title")
  minimumSize { width: 10; height: 20 }
  font { family: "Mono"; pointSize: 11; bold: true; italic: false; weight: 75; underline: true; strikeout: false; kerning: true; styleStrategy: QFont.PreferAntialias }
  sizePolicy { horizontalPolicy: QSizePolicy.Expanding; verticalPolicy: QSizePolicy.Fixed; horizontalStretch: 1; verticalStretch: 2 }
  cursor: Qt.WaitCursor
  windowIcon { name: "edit-copy"; normalOff: "a.png"; normalOn: "b.png"; disabledOff: "c.png" }
  palette { window: "#102030"; active { windowText: "red"; base: "#8abc" } disabled { button { color: "blue"; style: Qt.Dense4Pattern } } }
  toolTip: "tip"
  QMenuBar { QMenu { id: fileMenu; title: qsTr("File"); QAction { id: open; text: qsTr("Open"); shortcut: QKeySequence.Open; icon.name: "document-open" }
      QAction { separator: true } QAction { id: quit; text: "Quit"; shortcut: "Ctrl+Q"; checkable: true } QMenu { title: "Sub" } } }
  QToolBar { actions: [open, quit, fileMenu.menuAction()] }
  QWidget {
    QGridLayout {
      columns: 2
      contentsMargins { left: 1; top: 2; right: 3; bottom: 4 }
      QLabel { text: "a"; pixmap: "p.png"; alignment: Qt.AlignRight | Qt.AlignVCenter; QLayout.alignment: Qt.AlignLeft; buddy: edit }
      QLineEdit { id: edit; QLayout.columnSpan: 1; QLayout.rowSpan: 1; placeholderText: qsTr("type") }
      QComboBox { model: ["x", "y z"]; QLayout.columnStretch: 2 }
      QListWidget { model: [qsTr("one"), qsTr("two")] }
      QTableView { horizontalHeader { defaultSectionSize: 50; stretchLastSection: true } verticalHeader.visible: false }
      QTreeView { header.visible: false }
      QSpacerItem { orientation: Qt.Vertical; sizeHint { width: 20; height: 40 } }
      QPushButton { default_: true; text: "ok"; autoDefault: false }
      QTabWidget {
        QWidget { QTabWidget.title: qsTr("First"); QTabWidget.toolTip: "tt"; QTabWidget.icon.name: "go-next"; QVBoxLayout { QLabel {} } }
        QWidget { QTabWidget.title: "Second"; QTabWidget.whatsThis: "w" }
      }
      QGraphicsView { backgroundBrush: "#0F80" }
      QPlainTextEdit { plainText: "multi\\nline" }
      QDial { notchTarget: 3.7 }
      QFrame { frameShape: QFrame.Box; frameShadow: QFrame.Sunken; QFormLayout { QLabel {} QCheckBox { checked: true } QVBoxLayout { QLayout.column: 1; QRadioButton {} } } }
      QDialogButtonBox { standardButtons: QDialogButtonBox.Ok | QDialogButtonBox.Cancel }
    }
  }
  QStatusBar {}
}
"""

# hostile strings (read-back clause: XML 1.0 characters only)
STRINGS = [("markup", "<b>&amp; \"q\" 'a' ]]>"), ("leading blank", " lead"), ("trailing blank", "trail "), ("only blanks", "   "), ("tab", "a\tb"),
           ("newline", "a\nb"), ("crlf", "a\r\nb"), ("cr", "a\rb"), ("trailing newline", "a\n"), ("latin-1", "café"), ("cjk", "日本"), ("astral", "x\U0001F600"),
           ("nbsp", "a b"), ("line separator", "a b"), ("empty", ""), ("ampersand entity look-alike", "&lt;&#13;&#x41;"), ("cdata look-alike", "<![CDATA[x]]>"),
           ("comment look-alike", "<!-- x -->"), ("pi look-alike", "<?xml x?>"), ("percent and braces", "%1 {0} $x"), ("quote only", "\""), ("apostrophe", "'"),
           ("many spaces inside", "a    b"), ("c1 control (valid XML 1.0)", "a\u0085b")]
# literals that consist of exactly one escape sequence, in every spelling of an escape (the value is what the spelling denotes)
STRINGS += [("lone escape " + lit, val, lit) for lit, val in (('"\\n"', "\n"), ('"\\t"', "\t"), ('"\\\\"', "\\"), ('"\\x26"', "&"), ('"\\x3c"', "<"), ('"\\u00e9"', "\u00e9"),
                                                         ('"\\u{3c}"', "<"), ('"\\u{1F600}"', "\U0001F600"), ("'\\''", "'"), ('"\\r"', "\r"), ('"\\u0041"', "A"), ('"\\x41\\x42"', "AB"),
                                                         ('"a\\x26"', "a&"), ('"\\x26b"', "&b"))]
NON_XML = [("backspace", "a\bb"), ("form feed", "a\fb"), ("vertical tab", "a\vb"), ("nul", "a\0b"), ("0x01", "a\x01b"), ("U+FFFE", "a￾b")]


def js_literal(s):
    o = '"'
    for ch in s:
        c = ord(ch)
        if ch in '"\\':
            o += "\\" + ch
        elif ch == "\n":
            o += "\\n"
        elif ch == "\r":
            o += "\\r"
        elif ch == "\t":
            o += "\\t"
        elif c < 0x20 or c in (0x7f, 0x85, 0x2028, 0x2029, 0xfffe):
            o += "\\u%04x" % c
        else:
            o += ch
    return o + '"'


def string_doc(s, lit=None):
    """one document per string: the string at every position where a user string reaches the XML"""
    l = lit or js_literal(s)
    return ("import qmluic.QtWidgets\nQWidget {\n  windowTitle: %s\n  toolTip: qsTr(%s)\n  windowIcon.name: %s\n"
            "  QVBoxLayout {\n    QComboBox { id: combo; model: [%s, \"x\"] }\n    QListWidget { id: lw; model: [qsTr(%s)] }\n"
            "    QLabel { id: lab; pixmap: %s; text: \"p\" + %s }\n"
            "    QTabWidget { QWidget { id: page; QTabWidget.title: %s; QTabWidget.toolTip: qsTr(%s) } }\n  }\n}\n") % ((l,) * 9)


# one string position per document: a character XML 1.0 cannot carry is diagnosed at EVERY position (or the form is still well-formed)
POSITIONS = ['windowTitle: %s', 'toolTip: qsTr(%s)', 'windowIcon.name: %s', 'QVBoxLayout { QComboBox { model: [%s, "x"] } }', 'QVBoxLayout { QListWidget { model: [qsTr(%s)] } }',
             'QLabel { pixmap: %s }', 'QLabel { text: "p" + %s }', 'QTabWidget { QWidget { QTabWidget.title: %s } }', 'QTabWidget { QWidget { QTabWidget.toolTip: qsTr(%s) } }',
             'QTabWidget { QWidget { QTabWidget.whatsThis: %s } }', 'QTabWidget { QWidget { QTabWidget.icon.name: %s } }', 'QTabWidget { QWidget { QTabWidget.icon.normalOff: %s } }',
             'QLabel { font.family: %s }', 'QPushButton { icon.name: %s }', 'QPushButton { shortcut: %s }', 'QLabel { statusTip: %s; whatsThis: %s }', 'QAction { text: %s }',
             'QAction { shortcut: %s }', 'QMenu { title: %s }', 'QLineEdit { placeholderText: %s; inputMask: %s }', 'QGroupBox { title: %s }', 'QLabel { styleSheet: %s; accessibleName: %s }',
             'QTableView { horizontalHeader.toolTip: %s }', 'QToolBox { QWidget { windowTitle: %s } }', 'QLabel { cursor: Qt.ArrowCursor; objectName: %s }']


def read_strings(ui_xml):
    """the strings read back at the positions of string_doc, via expat"""
    got = {}
    path, names = [], []
    text = [""]
    p = xml.parsers.expat.ParserCreate()
    p.buffer_text = True

    def start(tag, attrs):
        path.append(tag)
        names.append(attrs.get("name"))
        text[0] = ""
        if tag == "iconset" and "theme" in attrs:
            got["icon theme attribute"] = attrs["theme"]

    def end(tag):
        if tag in ("string", "pixmap"):
            owner = [n for t, n in zip(path, names) if t in ("widget",)]
            prop = [n for t, n in zip(path, names) if t in ("property", "attribute")]
            key = "%s.%s" % (owner[-1] if owner else "?", prop[-1] if prop else "?")
            if "item" in path and len(path) - 1 - path[::-1].index("item") > len(path) - 1 - path[::-1].index("widget"):
                key += "[item]"     # a model item of the widget (not the layout item the widget sits in)
            got.setdefault(key, []).append(text[0])
        path.pop()
        names.pop()
    p.StartElementHandler = start
    p.EndElementHandler = end
    p.CharacterDataHandler = lambda s: text.__setitem__(0, text[0] + s)
    p.Parse(ui_xml.encode("utf-8"), True)
    return got


# grouped values with no constant member, partly constant ones, empty groups: every <property> still holds exactly one value element
DYN_GADGETS = [
    "QLabel { sizePolicy.horizontalPolicy: chk.checked ? QSizePolicy.Expanding : QSizePolicy.Fixed; sizePolicy.verticalPolicy: chk.checked ? QSizePolicy.Fixed : QSizePolicy.Expanding }",
    "QLabel { sizePolicy.horizontalStretch: spin.value }", "QLabel { sizePolicy { } }", "QLabel { sizePolicy.horizontalStretch: 1; sizePolicy.verticalStretch: spin.value }",
    "QLabel { sizePolicy.horizontalPolicy: QSizePolicy.Expanding; sizePolicy.verticalPolicy: QSizePolicy.Fixed; sizePolicy.horizontalStretch: spin.value }",
    "QLabel { font.bold: chk.checked }", "QLabel { font { } }", "QLabel { font.bold: chk.checked; font.family: \"Mono\" }", "QLabel { font { pointSize: spin.value; italic: chk.checked } }",
    "QLabel { geometry { } }", "QLabel { geometry.x: spin.value }", "QLabel { geometry.x: 1; geometry.width: spin.value }", "QLabel { minimumSize { } }", "QLabel { minimumSize.width: spin.value }",
    "QLabel { palette { } }", "QLabel { palette.window: chk.checked ? \"red\" : \"blue\" }", "QLabel { palette.active { } }", "QLabel { palette.active { window: \"red\" } palette.disabled { } }",
    "QLabel { palette.active.window: chk.checked ? \"red\" : \"blue\"; palette.base: \"tan\" }",
    "QVBoxLayout { contentsMargins { } }", "QVBoxLayout { contentsMargins.left: spin.value }", "QVBoxLayout { contentsMargins.left: 1; contentsMargins.top: spin.value }",
    "QVBoxLayout { QSpacerItem { sizeHint { } } }", "QVBoxLayout { QSpacerItem { sizeHint.width: 5 } }", "QTableView { horizontalHeader { } }", "QTableView { horizontalHeader { visible: false } verticalHeader { } }",
    "QComboBox { model: [] }", "QListWidget { model: [] }", "QPushButton { icon { } }", "QPushButton { icon.name: \"x\" }", "QPushButton { icon.normalOff: \"a.png\"; icon.name: \"x\" }",
    "QGraphicsView { backgroundBrush { } }", "QGraphicsView { backgroundBrush.color: \"red\" }", "QGraphicsView { backgroundBrush.style: Qt.Dense1Pattern }",
]


def cli_written(chk, qmluic):
    """what the command-line tool actually leaves on disk, in normal runs and when the file system accepts only part of a write
    (RLIMIT_FSIZE with SIGXFSZ ignored: write() returns a short count, then EFBIG): [(id, source, text of a .ui found afterwards)]"""
    import resource
    import shutil
    import signal
    import subprocess
    import tempfile
    found = []
    srcs = sorted(glob.glob(os.path.join(REPO, "examples", "*.qml")))
    for f in srcs:
        for limit in (None, 300, 1500, 4000, 12000):
            d = tempfile.mkdtemp(prefix="c09-", dir=chk.work)
            shutil.copy(f, d)
            name = os.path.basename(f)

            def pre(limit=limit):
                if limit is not None:
                    signal.signal(signal.SIGXFSZ, signal.SIG_IGN)
                    resource.setrlimit(resource.RLIMIT_FSIZE, (limit, limit))
            p = subprocess.run([qmluic, "generate-ui", "--foreign-types", QT5_METATYPES, name], cwd=d, capture_output=True, text=True, preexec_fn=pre, timeout=60)
            chk.count({"cli": name, "fsize": limit}, nontrivial=limit is not None)
            for g in glob.glob(os.path.join(d, "*.ui")):
                text = open(g, "rb").read().decode("utf-8", "replace")
                found.append(("written by the tool for %s (file size limit %s, exit %d)" % (name, limit, p.returncode), open(f).read(), text, name[:-4]))
            if limit is None and p.returncode == 0 and not glob.glob(os.path.join(d, "*.ui")):
                raise ToolError("no .ui written for %s" % name)
            shutil.rmtree(d, ignore_errors=True)
    # several sources in one invocation, in both modes: each file holds its own document only
    stat = {"Alpha.qml": 'import qmluic.QtWidgets\nQWidget { QLabel { text: "a" } }\n', "Beta.qml": 'import qmluic.QtWidgets\nQDialog { QVBoxLayout { QPushButton { text: "b" } } }\n',
            "Gamma.qml": 'import qmluic.QtWidgets\nQWidget { windowTitle: "g"; QLineEdit { } }\n'}
    for opts in ([], ["--no-dynamic-binding"]):
        for order in (["Alpha.qml", "Beta.qml", "Gamma.qml"], ["Gamma.qml", "Alpha.qml"], ["Beta.qml", "Beta.qml", "Alpha.qml"]):
            d = tempfile.mkdtemp(prefix="c09m-", dir=chk.work)
            for n, t in stat.items():
                open(os.path.join(d, n), "w").write(t)
            p = subprocess.run([qmluic, "generate-ui", "--foreign-types", QT5_METATYPES] + opts + order, cwd=d, capture_output=True, text=True, timeout=60)
            chk.count({"cli_multi": order, "opts": opts}, nontrivial=True)
            if p.returncode != 0:
                raise ToolError("multi-source invocation %s %s failed: %s" % (opts, order, p.stderr[-300:]))
            for n in set(order):
                g = os.path.join(d, n[:-4].lower() + ".ui")
                text = open(g, "rb").read().decode("utf-8", "replace") if os.path.exists(g) else "<missing/>"
                found.append(("written by the tool for %s in the invocation %s %s" % (n, " ".join(opts), " ".join(order)), stat[n], text, n[:-4]))
            shutil.rmtree(d, ignore_errors=True)
    # an output file that is already there -- empty, cut short, longer, or different in one byte -- is replaced by the whole document
    for n, t in stat.items():
        d = tempfile.mkdtemp(prefix="c09p-", dir=chk.work)
        open(os.path.join(d, n), "w").write(t)
        g = os.path.join(d, n[:-4].lower() + ".ui")
        p = subprocess.run([qmluic, "generate-ui", "--foreign-types", QT5_METATYPES, n], cwd=d, capture_output=True, text=True, timeout=60)
        if p.returncode != 0 or not os.path.exists(g):
            raise ToolError("reference run for %s failed: %s" % (n, p.stderr[-300:]))
        ref = open(g, "rb").read()
        pres = {"empty": b"", "first 1 byte": ref[:1], "first 200 bytes": ref[:200], "all but the last byte": ref[:-1], "with trailing bytes": ref + b"<!-- old -->\n",
                "twice": ref + ref, "one byte changed": ref[:len(ref) // 2] + b"#" + ref[len(ref) // 2 + 1:], "identical": ref}
        for what, data in pres.items():
            open(g, "wb").write(data)
            p = subprocess.run([qmluic, "generate-ui", "--foreign-types", QT5_METATYPES, n], cwd=d, capture_output=True, text=True, timeout=60)
            chk.count({"cli_pre": n, "state": what}, nontrivial=True)
            text = open(g, "rb").read().decode("utf-8", "replace") if os.path.exists(g) else "<missing/>"
            found.append(("left by the tool for %s (exit %d) over an output file that held: %s" % (n, p.returncode, what), t, text, n[:-4]))
        shutil.rmtree(d, ignore_errors=True)
    return found


def run(chk):
    build_harness()
    quick = chk.tier == "quick"
    r = random.Random(chk.seed)
    docs = []      # (id, request, typename)
    trees = T.tlc_trees(chk, 4, 300 if quick else 100000, chk.seed) + (T.tlc_trees(chk, 6, 150, chk.seed + 1, which="random") if quick else T.tlc_trees(chk, 5, 6000, chk.seed + 1))
    for n, t in enumerate(trees):
        t = T.assign_ids(t, r.choice(["anon", "some", "all", "actions"]) if any(T.kind(x["cls"]) in ("action", "menu") for x, _ in T.nodes(t)) else "some", r)
        docs.append(("tree%d" % n, T.request("tree%d" % n, t), "Doc"))
    lay = tlc("GenLayout", env={"LIMIT": 150 if quick else 4000, "MAINPICK": 12 if quick else 60}, workers=8, seed=chk.seed, coverage=False, timeout=3000, heap="8g")
    chk.add_tlc(lay)
    for n, c in enumerate(lay.printed("LAYOUT")):
        docs.append(("lay%d" % n, {"id": "lay%d" % n, "src": c12.render(c["layout"]), "type_name": "Doc", "modes": ["generate"]}, "Doc"))
    docs.append(("gadgets", {"id": "gadgets", "src": GADGETS, "type_name": "My_Type9", "modes": ["generate"]}, "My_Type9"))
    for n, body in enumerate(DYN_GADGETS):
        src = "import qmluic.QtWidgets\nQWidget { QCheckBox { id: chk } QSpinBox { id: spin } %s }\n" % body
        docs.append(("dyngadget%d" % n, {"id": "dyngadget%d" % n, "src": src, "type_name": "Doc", "modes": ["generate"]}, "Doc"))
    for f in sorted(glob.glob(os.path.join(REPO, "examples", "*.qml"))):
        name = os.path.basename(f)[:-4]
        docs.append(("ex_" + name, {"id": "ex_" + name, "src": open(f).read(), "type_name": name, "modes": ["generate"]}, name))
    out = translate([q for _, q, _ in docs], metatypes=[QT5_METATYPES, VERIF_T_METATYPES])
    recs, back = [], []
    for i, q, tn in docs:
        run_ = out[i]["generate"]
        if run_.get("panic") or not run_.get("ui"):
            continue
        if i == "gadgets" and run_.get("n_errors"):
            raise ToolError("gadget document not accepted: %s" % [d["msg"] for d in run_["diags"]])
        ui = run_["ui"]
        recs.append({"id": len(recs) + 1, "typename": tn, "events": events(ui)})
        back.append((i, q.get("src") or q["files"]["Doc.qml"], ui))
        chk.count({"ui": ui}, nontrivial=any(x in ui for x in ("<layout", "<action", "<item", "<spacer", "<attribute")))
    # string documents: well-formedness and grammar are judged by the same recogniser, read-back below
    preqs = []
    for what, sv in NON_XML:
        for pos in POSITIONS:
            lit = js_literal(sv)
            preqs.append({"id": "p%d" % len(preqs), "src": "import qmluic.QtWidgets\nQWidget {\n  %s\n}\n" % pos.replace("%s", lit), "type_name": "Doc", "modes": ["generate"], "_what": what, "_pos": pos})
    pout = translate([{k: v for k, v in q.items() if not k.startswith("_")} for q in preqs])
    for q in preqs:
        run_ = pout[q["id"]]["generate"]
        chk.count({"nonxml_at": q["_pos"], "s": q["_what"]}, nontrivial=True)
        if run_.get("panic") or not run_.get("ui") or run_.get("n_errors"):
            continue        # diagnosed (or another error at this position): nothing is written
        try:
            xml.parsers.expat.ParserCreate().Parse(run_["ui"], True)
        except xml.parsers.expat.ExpatError as e:
            chk.violation("a character XML 1.0 cannot carry (%s) at `%s` is accepted and the form is not well-formed: %s" % (q["_what"], q["_pos"], e), {"qml": q["src"], "ui": run_["ui"]})
    sreqs = [{"id": "s%d" % n, "src": string_doc(x[1], x[2] if len(x) > 2 else None), "type_name": "Doc", "modes": ["generate"]} for n, x in enumerate(STRINGS + NON_XML)]
    sout = translate(sreqs)
    for n, (what, s) in enumerate([x[:2] for x in STRINGS + NON_XML]):
        run_ = sout["s%d" % n]["generate"]
        chk.count({"string": s}, nontrivial=True)
        if run_.get("panic"):
            continue
        nonxml = n >= len(STRINGS)
        if not run_.get("ui") or run_.get("n_errors"):
            if not nonxml:
                chk.violation("string (%s) %r rejected: %s" % (what, s, [d["msg"] for d in run_.get("diags", [])][:2]), {"qml": sreqs[n]["src"]})
            continue        # a diagnosed non-XML character is the correct outcome
        ui = run_["ui"]
        recs.append({"id": len(recs) + 1, "typename": "Doc", "events": events(ui)})
        back.append(("string %s" % what, sreqs[n]["src"], ui))
        if nonxml:
            continue        # only well-formedness is claimed for characters XML 1.0 cannot carry
        try:
            got = read_strings(ui)
        except xml.parsers.expat.ExpatError:
            continue        # reported through the recogniser
        want = {"widget.windowTitle": [s], "widget.toolTip": [s], "icon theme attribute": s, "combo.text[item]": [s, "x"], "lw.text[item]": [s],
                "lab.pixmap": [s], "lab.text": ["p" + s], "page.title": [s], "page.toolTip": [s]}
        bad = {k: (got.get(k), v) for k, v in want.items() if got.get(k) != v}
        if bad:
            cr_only = all(isinstance(g, (list, str)) and (g == [x.replace("\r\n", "\n").replace("\r", "\n") for x in w] if isinstance(w, list)
                          else g == w.replace("\r\n", "\n").replace("\r", "\n")) for g, w in bad.values())
            if cr_only and chk.is_known("F4"):
                chk.known_finding("F4", "a carriage return in a string is written raw; an XML parser reads it back as a line feed")
                continue
            k0 = sorted(bad)[0]
            chk.violation("string (%s) %r is not preserved at %s: read back %r" % (what, s, k0, bad[k0][0]),
                          {"qml": sreqs[n]["src"], "ui": ui, "mismatches": {k: {"read_back": g, "source": w} for k, (g, w) in bad.items()}})
    for what, src, ui, tn in cli_written(chk, build_cli()):
        recs.append({"id": len(recs) + 1, "typename": tn, "events": events(ui)})
        back.append((what, src, ui))
    path = os.path.join(chk.work, "ui.ndjson")
    write_ndjson(path, recs)
    rt = tlc("UiGrammar", env={"RECS": path}, workers=8, timeout=3000, heap="8g", extra=["-continue"], coverage=False)
    chk.add_tlc(rt)
    if rt.distinct != len(recs):
        raise ToolError("UiGrammar.tla judged %d of %d documents: %s" % (rt.distinct, len(recs), rt.out[-2000:]))
    chk.cov["traces_validated_against_impl"] = len(recs)
    for rej in rt.printed("REJECT"):
        i, qml, ui = back[rej["id"] - 1]
        if i.startswith("string ") and "not well-formed" in rej["why"] and any(w in i for w, _ in NON_XML) and chk.is_known("F14"):
            chk.known_finding("F14", "a string with a character XML 1.0 cannot carry is written raw: the .ui is not well-formed")
            continue
        chk.violation("the .ui of %s is rejected by the form grammar: %s" % (i, rej["why"]), {"qml": qml, "ui": ui, "why": rej["why"]})
    if len(rt.violations) != len(rt.printed("REJECT")):
        raise ToolError("UiGrammar: %d invariant violations but %d reasons printed" % (len(rt.violations), len(rt.printed("REJECT"))))
    chk.sample({"document": "gadgets", "events": recs[[b[0] for b in back].index("gadgets")]["events"][:6]})
    chk.sample({"string_case": STRINGS[0]})
    chk.cov["trusted_base"] = ["expat (XML well-formedness and normalisation)", "TLC", "UiGrammar.tla as stand-in for uic's reader"]
    chk.assumptions += ["read-back is claimed for XML 1.0 characters only; for other characters only well-formedness (or a diagnostic) is required"]
