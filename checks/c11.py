"""C11 -- the object tree and child order of the QML document are preserved.

G leg: GenTree.tla enumerates object trees by node count over the element kinds (exhaustive up to SIZE nodes for admissible
combinations, plus inadmissible ones); ObjTree.tla's FormOf gives the form each denotes (element kind by class, nesting,
<item> under layouts, sibling order, addaction list by declaration order or exactly the explicit list).  The real
translator's .ui is read back with expat and compared element by element.
"""
import random

from vlib import build_harness, log, ToolError, translate
from vlib import trees as T

RULE = ("case = object tree (with id strategy); trees: all admissible trees up to 4 nodes (quick) / 5 nodes (thorough) over widgets, four layout "
        "classes, spacers, actions, separator actions, menus, tab widgets, plus a seeded sample of the next size, each under id strategies "
        "anonymous / all ids / explicit actions lists; inadmissible parent-child combinations; non-trivial = >= 3 objects; distinct by JSON")


def same_name_projects(chk):
    """one invocation over documents of several directories whose components share a NAME and differ in KIND (widget / menu / layout / action-like):
    every document's form is the one it gets when translated alone, whatever else is named on the command line and in whatever order"""
    import itertools
    import os
    import shutil
    import subprocess
    import tempfile
    from vlib import build_cli, QT5_METATYPES
    qmluic = build_cli()
    H = "import qmluic.QtWidgets\n"
    files = {"v/Tools.qml": H + "QWidget { QLabel { text: \"v\" } }\n", "v/Main.qml": H + "QWidget { Tools { id: t } QLabel { id: after } }\n",
             "e/Tools.qml": H + "QMenu { QAction { id: inner } }\n", "e/Main.qml": H + "QMenu { QAction { id: first } Tools { id: t } QAction { id: last } }\n",
             "l/Tools.qml": H + "QVBoxLayout { }\n", "l/Main.qml": H + "QWidget { Tools { id: t; QLabel { id: a } QLabel { id: b } } }\n",
             "w/Tools.qml": H + "QTabWidget { }\n", "w/Main.qml": H + "QWidget { QVBoxLayout { Tools { id: t; QWidget { id: page; QTabWidget.title: \"p\" } } } }\n"}
    d = tempfile.mkdtemp(prefix="c11same-", dir=chk.work)
    try:
        for f, text in files.items():
            os.makedirs(os.path.join(d, os.path.dirname(f)), exist_ok=True)
            open(os.path.join(d, f), "w").write(text)
        mains = [f for f in files if f.endswith("Main.qml")]

        def run_cli(srcs, out):
            p = subprocess.run([qmluic, "generate-ui", "--foreign-types", QT5_METATYPES, "-O", out] + list(srcs), cwd=d, capture_output=True, text=True, timeout=120)
            got = {}
            for m in srcs:
                g = os.path.join(d, out, os.path.dirname(m), "main.ui")
                got[m] = open(g).read() if os.path.exists(g) else None
            return p.returncode, got, p.stderr[-400:]
        alone = {}
        for n, m in enumerate(mains):
            rc, got, err = run_cli([m], "alone%d" % n)
            if rc != 0 or got[m] is None:
                raise ToolError("same-name project: %s alone is not translated: %s" % (m, err))
            alone[m] = got[m]
        for n, order in enumerate(list(itertools.permutations(mains, 2)) + list(itertools.permutations(mains))[::5]):
            rc, got, err = run_cli(order, "joint%d" % n)
            chk.count({"same_name_project": list(order)}, nontrivial=True)
            for m in order:
                if got[m] != alone[m]:
                    chk.violation("%s translated together with %s (exit %d) yields another form than alone" % (m, [x for x in order if x != m], rc),
                                  {"files": files, "argv": list(order), "alone": alone[m], "joint": got[m], "stderr": err})
                    break
    finally:
        shutil.rmtree(d, ignore_errors=True)


def run(chk):
    build_harness()
    quick = chk.tier == "quick"
    r = random.Random(chk.seed)
    base = T.tlc_trees(chk, 4 if quick else 5, 100000, chk.seed)
    more = T.tlc_trees(chk, 6, 1500, chk.seed, which="random") if quick else T.tlc_trees(chk, 8, 12000, chk.seed, which="random")     # beyond 5 nodes: seeded random construction
    seen = set()
    shapes = []
    for t in base + more:
        k = repr(t)
        if k not in seen:
            seen.add(k)
            shapes.append(t)
    items = []
    for n, t in enumerate(shapes):
        strategies = ["anon", "all"] if n % 2 == 0 else ["some", "all"]
        if any(T.kind(x["cls"]) in ("action", "menu") for x, _ in T.nodes(t)):
            strategies.append("actions")
        for s in strategies:
            items.append(("t%d_%s" % (n, s), T.assign_ids(t, s, r)))
    # deep and wide trees (the enumerations above stop at 5 / 8 nodes): chains widget > layout > widget ... with a leaf, and flat fans
    def chain(depth):
        t = {"cls": "QLabel", "id": "", "kids": [], "sep": False, "acts": []}
        for k in range(depth - 1, 0, -1):
            kids = [t] if k % 2 == 1 else [t, {"cls": "QSpacerItem", "id": "", "kids": [], "sep": False, "acts": []}]      # a spacer beside every widget in a layout
            t = {"cls": "QWidget" if k % 2 == 1 else "QVBoxLayout", "id": "", "kids": kids, "sep": False, "acts": []}
        return t if t["cls"] == "QWidget" else {"cls": "QWidget", "id": "", "kids": [t], "sep": False, "acts": []}
    for d in ((15, 60, 101, 102, 103, 120) if quick else (15, 60, 99, 100, 101, 102, 103, 104, 110, 120)):      # (the JSON reader of TLC nests at most 255 levels, i.e. ~125 objects)
        t = chain(d)
        items.append(("deep%d_anon" % d, T.assign_ids(t, "anon", r)))
        items.append(("deep%d_all" % d, T.assign_ids(t, "all", r)))
    deep_ids = {i for i, _ in items if i.startswith(("deep", "fan"))}
    fan = {"cls": "QWidget", "id": "", "kids": [{"cls": "QVBoxLayout", "id": "", "sep": False, "acts": [],
                                                  "kids": [{"cls": "QLabel", "id": "", "kids": [], "sep": False, "acts": []} for _ in range(300)]}], "sep": False, "acts": []}
    items.append(("fan300_anon", fan))
    deep_ids.add("fan300_anon")
    log("C11: %d shapes, %d documents" % (len(shapes), len(items)))
    exp = T.expect_forms(chk, items)
    reqs = [T.request(i, t) for i, t in items]
    res = translate(reqs)
    for i, t in items:
        run_ = res[i]["generate"]
        e = exp[i]
        n = len(T.nodes(t))
        chk.count(T.strip_private(t), nontrivial=n >= 3)
        if run_.get("panic") or run_.get("timeout") or run_.get("crash"):
            continue
        accepted = bool(run_.get("built")) and not run_.get("has_error")
        if i in deep_ids and not (e["accepted"] and accepted):
            raise ToolError("the deep / wide document %s is not accepted (model %s, translator %s)" % (i, e["accepted"], accepted))
        if not e["accepted"]:
            if accepted:
                chk.violation("inadmissible object tree accepted without a diagnostic", {"qml": T.document(t), "ui": run_.get("ui")})
            continue
        if not accepted:
            chk.violation("admissible object tree rejected: %s" % [d["msg"] for d in run_.get("diags", [])][:3], {"qml": T.document(t), "diagnostics": run_.get("diags")})
            continue
        ui = T.parse_ui(run_["ui"])
        diffs = T.compare_form(e["form"], ui["root"])
        if ui["nroots"] != 1:
            diffs.append("%d root elements" % ui["nroots"])
        if diffs:
            chk.violation("form differs from the object tree: %s" % "; ".join(diffs[:3]),
                          {"qml": T.document(t), "ui": run_["ui"], "differences": diffs, "expected_form": e["form"]})
    chk.cov["programs"] = len(items)
    chk.cov["traces_validated_against_impl"] = len(items)
    chk.cov["exhaustive"] = True
    chk.sample({"qml": T.document(items[len(items) // 2][1])})
    chk.sample({"qml": T.document(items[-1][1])})
    same_name_projects(chk)
    chk.cov["trusted_base"] = ["expat", "TLC", "ObjTree.tla FormOf", "bundled Qt 5 metatypes"]
    chk.assumptions += ["custom components (directories) are exercised by C18; item models, headers and attached tab attributes are outside FormOf"]
