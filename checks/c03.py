"""C03 -- values embedded in the .ui equal the value of their source expression.

G leg: GenConst.tla enumerates constant expressions with the value the documented semantics assign (64-bit checked integer
arithmetic on Wide.tla bigints, exact doubles, bools, strings) or "rej"; GenLit.tla enumerates literal spellings with their
exact value.  Every expression is bound to a property of the matching type, translated by the real code, and the value is
read back from the .ui with expat.  A fixed family covers enum / flag set / string list / object reference / qsTr marking.
"""
import json
import os
import random
import xml.parsers.expat
from fractions import Fraction

from vlib import QT5_METATYPES, build_harness, log, ToolError, VERIF_METATYPES, translate, tlc, tlc_must_pass
from vlib import lang, progs as P

RULE = ("case = constant expression or literal spelling; expressions: operator x operand matrix over {-2^63,-7,-2,-1,0,1,2,3,7,2^31,2^32,2^53,2^62,"
        "+-(2^63-1)} incl. shift counts {-1,0,1,2,31,32,62,63,64,2^32,3-2^32}, seeded nested triples, double/bool/string matrices, mixed-type "
        "expressions; spellings: decimal/hex/octal/binary/legacy-octal with separators, fraction/exponent forms, escape sequences in both quote "
        "styles, invalid escapes; non-trivial = not a bare decimal literal / bare unescaped string; distinct by source text")

CHUNK = 150


def ui_values(ui_xml):
    """{object name: {property name: (element, attrs, text | [items])}} read with expat (independent of quick-xml)"""
    res = {}
    stack = []
    cur = {"obj": None, "prop": None, "val": None}
    p = xml.parsers.expat.ParserCreate()
    p.buffer_text = True

    def start(tag, attrs):
        stack.append(tag)
        if tag == "widget":
            cur["obj"] = attrs.get("name")
            res.setdefault(cur["obj"], {})
        elif tag == "property" and stack[-2:-1] == ["widget"]:
            cur["prop"] = attrs.get("name")
        elif cur["prop"] and stack[-2:-1] == ["property"]:
            cur["val"] = [tag, dict(attrs), "", []]
        elif cur["val"] is not None and tag == "string" and cur["val"][0] == "stringlist":
            cur["val"][3].append("")

    def text(s):
        if cur["val"] is not None:
            if stack[-1] == "string" and cur["val"][0] == "stringlist":
                cur["val"][3][-1] += s
            elif stack[-1] == cur["val"][0]:
                cur["val"][2] += s

    def end(tag):
        stack.pop()
        if tag == "property" and cur["prop"] is not None and stack[-1:] == ["widget"]:
            if cur["val"] is not None:
                res[cur["obj"]].setdefault(cur["prop"], []).append(tuple(cur["val"]))
            cur["prop"] = None
            cur["val"] = None
        elif tag == "widget":
            cur["obj"] = None
    p.StartElementHandler = start
    p.CharacterDataHandler = text
    p.EndElementHandler = end
    p.Parse(ui_xml, True)
    return res


def judge(expect, got):
    """None if the embedded value matches the expectation, else a message"""
    if got is None:
        return "no value embedded"
    if len(got) != 1:
        return "property emitted %d times" % len(got)
    el, attrs, text, items = got[0]
    kind, _, rest = expect.partition(":")
    if kind == "i":
        v = int(rest)
        if el != "number":
            return "element <%s> instead of <number>" % el
        if abs(v) <= 2 ** 53:
            if text != str(v):
                return "number text %r, expected %s" % (text, v)
        else:
            try:
                if float(text) != float(v):
                    return "number %r is not the double nearest to %s" % (text, v)
            except ValueError:
                return "unparsable number %r" % text
        return None
    if kind == "b":
        return None if (el, text) == ("bool", "true" if rest == "1" else "false") else "got <%s>%s" % (el, text)
    if kind in ("d", "f"):
        if kind == "d":
            want = float(Fraction(int(rest), 4))
        else:
            digits, exp = rest.split(":")
            want = float(Fraction(int(digits)) * Fraction(10) ** int(exp))
        if el != "number":
            return "element <%s> instead of <number>" % el
        try:
            if float(text) != want:        # the model has one zero: "-0" (IEEE negative zero of e.g. -(0.0)) is zero
                return "number %r, expected %r" % (text, want)
        except ValueError:
            return "unparsable number %r" % text
        return None
    if kind in ("s", "cp"):
        want = rest if kind == "s" else "".join(chr(int(c)) for c in rest.split(",") if c)
        if el != "string":
            return "element <%s> instead of <string>" % el
        if attrs.get("notr") != "true":
            return "bare string without notr=\"true\""
        if text != want:
            return "string %r, expected %r" % (text, want)
        return None
    return "unknown expectation " + expect


FAMILY = [
    # (binding text, property, expected (element, attrs subset, text/items) or "rej")
    ("mode: TSource.ModeB", "mode", ("enum", {}, "TSource::ModeB")),
    ("opts: TSource.OptX | TSource.OptZ", "opts", ("set", {}, "TSource::OptX|TSource::OptZ")),
    ("opts: TSource.OptY", "opts", ("set", {}, "TSource::OptY")),
    ("opts: TSource.OptZ | TSource.OptY | TSource.OptX", "opts", ("set", {}, "TSource::OptZ|TSource::OptY|TSource::OptX")),
    ("mode: TSource.OptX", "mode", "rej"),
    ("opts: TSource.ModeA", "opts", "rej"),
    ("mode: 1", "mode", "rej"),
    ("text: qsTr(\"hello\")", "text", ("string", {"notr": None}, "hello")),
    ("text: \"a\" + \"b\"", "text", ("string", {"notr": "true"}, "ab")),
    ("text: qsTr(\"a\" + \"b\")", "text", ("string", {"notr": None}, "ab")),
    ("text: \"\"", "text", ("string", {"notr": "true"}, "")),
    ("text: qsTr(\"\")", "text", ("string", {"notr": None}, "")),
    ("text: 1", "text", "rej"),
    ("items: [\"a\", \"b c\"]", "items", ("stringlist", {"notr": "true"}, ["a", "b c"])),
    ("items: [qsTr(\"a\"), qsTr(\"b\")]", "items", ("stringlist", {"notr": None}, ["a", "b"])),
    ("items: [\"x\"]", "items", ("stringlist", {"notr": "true"}, ["x"])),
    ("items: []", "items", ("stringlist", {"notr": "true"}, [])),
    ("items: [\"a\" + \"b\", \"\"]", "items", ("stringlist", {"notr": "true"}, ["ab", ""])),
    ("items: [\"a\", qsTr(\"b\")]", "items", "rej"),
    ("items: [\"a\", 1]", "items", "rej"),
    ("ptr: a", "ptr", ("cstring", {}, "a")),
    ("ptr: b", "ptr", ("cstring", {}, "b")),
    ("sub: b", "sub", ("cstring", {}, "b")),
    ("sub: a", "sub", "rej"),
    ("ival: 1.0", "ival", "rej"),
    ("dval: 1", "dval", "rej"),
    ("uval: 3", "uval", ("number", {}, "3")),
    ("flag: 1", "flag", "rej"),
    ("ival: true", "ival", "rej"),
    ("ival: \"1\"", "ival", "rej"),
    ("dval: -0.5", "dval", ("number", {}, "-0.5")),
    ("ival: -0", "ival", ("number", {}, "0")),
    ("ival: 2147483647 + 1", "ival", ("number", {}, "2147483648")),
]


def run(chk):
    build_harness()
    quick = chk.tier == "quick"
    res = tlc("GenConst", env={"LIMIT": 400 if quick else 6000}, workers=12, seed=chk.seed, coverage=False, timeout=1800)
    tlc_must_pass(res, "GenConst")
    chk.add_tlc(res)
    cases = res.printed("PROG")
    res2 = tlc("GenLit", workers=4, seed=chk.seed, coverage=False, timeout=600)
    tlc_must_pass(res2, "GenLit")
    chk.add_tlc(res2)
    cases += res2.printed("PROG")
    cases.sort(key=lambda c: c["src"])
    if quick and len(cases) > 3000:
        r = random.Random(chk.seed)
        lits = [c for c in cases if c["expect"].startswith(("f:", "cp:", "opt:")) or c["expect"] == "rej"]
        rest = [c for c in cases if c not in lits]
        cases = lits + r.sample(rest, 3000 - min(len(lits), 1500))
    log("C03: %d constant expressions and spellings" % len(cases))
    reqs, spans = [], {}
    for ci in range(0, len(cases), CHUNK):
        chunk = cases[ci:ci + CHUNK]
        qml = P.HEAD
        sp = []
        for i, c in enumerate(chunk):
            line = "  TSource { id: k%d\n    %s: " % (i, c["prop"])
            start = len((qml + line).encode())
            qml += line + c["src"] + "\n  }\n"
            sp.append((start - len(c["prop"]) - 2, start + len(c["src"].encode())))
        qml += "}\n"
        reqs.append({"id": ci, "src": qml, "type_name": "Doc", "modes": ["generate"]})
        spans[ci] = (chunk, sp, qml)
    out = translate(reqs, metatypes=[VERIF_METATYPES])
    n_rej = 0
    for ci, (chunk, sp, qml) in spans.items():
        run_ = out[ci]["generate"]
        if run_.get("panic") or run_.get("timeout") or run_.get("crash") or run_.get("syntax_error"):
            # a literal the parser refuses poisons the whole document: judge its members one by one
            for i, c in enumerate(chunk):
                single(chk, c)
            continue
        try:
            vals = ui_values(run_["ui"]) if run_.get("ui") else {}
        except xml.parsers.expat.ExpatError:
            for i, c in enumerate(chunk):      # some member made the form ill-formed (C09's property): judge one by one
                single(chk, c)
            continue
        errs = [d for d in run_.get("diags", []) if d["kind"] == "error"]
        for i, (c, (s, e)) in enumerate(zip(chunk, sp)):
            nontrivial = not c["src"].isdigit() and not (c["src"].startswith('"') and "\\" not in c["src"])
            chk.count({"src": c["src"]}, nontrivial=nontrivial)
            got = vals.get("k%d" % i, {}).get(c["prop"])
            here = [d for d in errs if s <= d["s"] and d["e"] <= e]
            if c["expect"] == "inexact":
                continue
            if c["expect"].startswith("opt:"):
                if got is None and here:
                    continue            # not supported: diagnosed, nothing embedded
                c = dict(c, expect="cp:" + c["expect"][4:])
            if c["expect"] == "rej":
                n_rej += 1
                if got is not None:
                    chk.violation("undefined / ill-typed constant `%s` is embedded as %s instead of being rejected" % (c["src"], got),
                                  {"qml": "import qmluic.QtWidgets\nQWidget { TSource { %s: %s } }" % (c["prop"], c["src"]), "embedded": got, "expected": "rejected"})
                elif not here:
                    chk.violation("undefined / ill-typed constant `%s` dropped without an error diagnostic inside its binding" % c["src"],
                                  {"qml": qml, "binding_span": [s, e], "diagnostics": errs[:5]})
                continue
            msg = judge(c["expect"], got)
            if msg:
                chk.violation("constant `%s` (%s): %s%s" % (c["src"], c["expect"], msg, (" -- diagnostics: %s" % [d["msg"] for d in here]) if here else ""),
                              {"qml": "import qmluic.QtWidgets\nQWidget { TSource { %s: %s } }" % (c["prop"], c["src"]), "expected": c["expect"], "observed": got,
                               "diagnostics": here})
    family(chk)
    qt_family(chk)
    const_ctl_family(chk)
    listlit_family(chk)
    edge_families(chk)
    flags_family(chk)
    nonfinite_family(chk)
    chk.cov["programs"] = len(cases)
    chk.cov["expected_rejections"] = n_rej
    chk.cov["traces_validated_against_impl"] = len(reqs)
    for c in cases[:2] + cases[len(cases) // 2: len(cases) // 2 + 3]:
        chk.sample(c)
    chk.cov["trusted_base"] = ["expat (XML reading)", "TLC", "Wide.tla (self-checked by MCWide.tla)", "Python float(Fraction) as correctly rounded conversion"]
    chk.assumptions += ["integers compared exactly up to 2^53, as the nearest double beyond (the form's number is a double in the implementation's data model)",
                        "string ordering comparisons, float division by zero and upper-case exponents are not generated",
                        "strings with CR or characters XML 1.0 cannot carry are C09's business"]


def single(chk, c):
    qml = P.HEAD + "  TSource { id: k0\n    %s: %s\n  }\n}\n" % (c["prop"], c["src"])
    run_ = translate([{"id": 0, "src": qml, "type_name": "Doc", "modes": ["generate"]}], metatypes=[VERIF_METATYPES], procs=1)[0]["generate"]
    chk.count({"src": c["src"]}, nontrivial=True)
    if run_.get("panic") or run_.get("timeout") or run_.get("crash"):
        return
    try:
        got = ui_values(run_["ui"]).get("k0", {}).get(c["prop"]) if run_.get("ui") and not run_.get("syntax_error") else None
    except xml.parsers.expat.ExpatError:
        return      # ill-formed form: C09's property
    diagnosed = run_.get("syntax_error") or run_.get("n_errors", 0) > 0
    if c["expect"] == "rej":
        if got is not None or not diagnosed:
            chk.violation("invalid literal `%s` accepted: %s" % (c["src"], got), {"qml": qml, "embedded": got})
        return
    if c["expect"] == "inexact":
        return
    if c["expect"].startswith("opt:"):
        if got is None and diagnosed:
            return
        c = dict(c, expect="cp:" + c["expect"][4:])
    msg = judge(c["expect"], got)
    if msg:
        chk.violation("literal `%s` (%s): %s" % (c["src"], c["expect"], msg), {"qml": qml, "expected": c["expect"], "observed": got,
                                                                                "syntax_errors": run_.get("syntax_errors"), "diagnostics": run_.get("diags")})


def flags_family(chk):
    """G: constant flag expressions over | & ^ (GenFlags.tla): an embedded <set> denotes the value TLC computed; otherwise the binding is
    left to run time (header) or diagnosed -- never embedded as another value, never lost"""
    g = tlc("GenFlags", env={"LIMIT": 200 if chk.tier == "quick" else 2700}, workers=2, seed=chk.seed, timeout=900, coverage=False)
    tlc_must_pass(g, "GenFlags")
    chk.add_tlc(g)
    cases = g.printed("FLAGS")

    def show(e):
        return "TSource." + e["n"] if e["k"] == "f" else "(%s %s %s)" % (show(e["a"][0]), e["op"], show(e["b"][0]))
    reqs = [{"id": n, "src": P.HEAD + "  TSource { id: t0\n    opts: %s\n  }\n}\n" % show(c["e"]), "type_name": "Doc", "modes": ["generate"]} for n, c in enumerate(cases)]
    res = translate(reqs, metatypes=[VERIF_METATYPES])
    for q, c in zip(reqs, cases):
        run_ = res[q["id"]]["generate"]
        chk.count({"flags": show(c["e"])}, nontrivial=c["e"]["k"] == "bin")
        if run_.get("panic") or not run_.get("ui"):
            continue
        got = ui_values(run_["ui"]).get("t0", {}).get("opts")
        if got:
            el, attrs, txt, items = got[0]
            val = 0
            for name in (txt.split("|") if txt else []):
                val |= c["enumerators"][name.split("::")[-1]]
            if el != "set" or val != c["value"]:
                chk.violation("flag expression `%s` denotes %d but is embedded as <%s>%s</%s> (= %d)" % (show(c["e"]), c["value"], el, txt, el, val),
                              {"qml": q["src"], "expected_value": c["value"], "embedded": txt})
        elif not run_.get("n_errors") and "evalT0Opts" not in (run_.get("header") or ""):
            chk.violation("flag expression `%s` is neither embedded, nor generated, nor diagnosed" % show(c["e"]), {"qml": q["src"], "header": run_.get("header")})
    chk.cov["flag_expressions"] = len(cases)


NONFINITE = {"nan": ["(0.0 / 0.0)", "(1e999 - 1e999)", "((1e308 * 10.0) % 2.0)"], "pinf": ["1e999", "(1.0 / 0.0)", "(1e308 * 10.0)"], "ninf": ["-1e999", "(-1.0 / 0.0)"],
             "one": ["1.0"], "zero": ["0.0"]}


def nonfinite_family(chk):
    """G: comparisons with operands that fold to NaN / infinities (GenNonFinite.tla, IEEE 754): the embedded <bool> is what TLC says"""
    g = tlc("GenNonFinite", env={"LIMIT": 1}, workers=1, timeout=600, coverage=False)
    tlc_must_pass(g, "GenNonFinite")
    chk.add_tlc(g)
    cases = g.printed("CMP")
    reqs, meta = [], []
    for c in cases:
        for sa in NONFINITE[c["a"]]:
            for sb in NONFINITE[c["b"]][:2]:
                text = "%s %s %s" % (sa, c["op"], sb)
                reqs.append({"id": len(reqs), "src": P.HEAD + "  TSource { id: t0\n    flag: %s\n  }\n}\n" % text, "type_name": "Doc", "modes": ["generate"]})
                meta.append((c, text))
    res = translate(reqs, metatypes=[VERIF_METATYPES])
    for q, (c, text) in zip(reqs, meta):
        run_ = res[q["id"]]["generate"]
        chk.count({"nonfinite": text}, nontrivial=True)
        if run_.get("panic") or not run_.get("ui") or run_.get("n_errors"):
            continue        # rejecting a non-finite constant is within the statement; only a wrong embedded value is not
        got = ui_values(run_["ui"]).get("t0", {}).get("flag")
        if got and got[0][0] == "bool" and got[0][2] != ("true" if c["holds"] else "false"):
            chk.violation("`%s` is %s (IEEE 754) but embedded as <bool>%s</bool>" % (text, c["holds"], got[0][2]), {"qml": q["src"], "model": c})
    chk.cov["nonfinite_comparisons"] = len(reqs)


# value types with their own reading of a constant (uigen/expr.rs parse_as_value_type), on real Qt classes
QT_FAMILY = [
    # (class, binding text, property, expected (element, text) | "rej")
    ("QPushButton", 'shortcut: "Ctrl+O"', "shortcut", ("string", "Ctrl+O")), ("QPushButton", "shortcut: QKeySequence.Open", "shortcut", ("enum", "QKeySequence::Open")),
    ("QPushButton", "shortcut: 1", "shortcut", "rej"), ("QPushButton", "shortcut: true", "shortcut", "rej"), ("QPushButton", "shortcut: Qt.AlignLeft", "shortcut", "rej"),
    ("QPushButton", 'shortcut: qsTr("Ctrl+P")', "shortcut", ("string", "Ctrl+P")), 
    ("QLabel", "cursor: Qt.WaitCursor", "cursor", ("cursorShape", "WaitCursor")), ("QLabel", "cursor: 1", "cursor", "rej"), ("QLabel", 'cursor: "WaitCursor"', "cursor", "rej"),
    ("QLabel", "cursor: Qt.AlignLeft", "cursor", "rej"),
    ("QLabel", 'pixmap: "a.png"', "pixmap", ("pixmap", "a.png")), ("QLabel", 'pixmap: qsTr("a.png")', "pixmap", "rej"), ("QLabel", "pixmap: 1", "pixmap", "rej"),
    ("QLabel", 'pixmap: "a" + ".png"', "pixmap", ("pixmap", "a.png")),
    ("QLabel", "alignment: Qt.AlignLeft | Qt.AlignTop", "alignment", ("set", "Qt::AlignLeft|Qt::AlignTop")), ("QLabel", "alignment: 1", "alignment", "rej"),
    ("QLabel", "textFormat: Qt.RichText", "textFormat", ("enum", "Qt::RichText")), ("QLabel", "textFormat: Qt.AlignLeft", "textFormat", "rej"),
    ("QLabel", "indent: 1.5", "indent", "rej"), ("QLabel", 'indent: "1"', "indent", "rej"), ("QDoubleSpinBox", "value: 2", "value", "rej"), ("QDoubleSpinBox", "value: 2.5", "value", ("number", "2.5")),
    ("QLabel", "windowOpacity: 0.25", "windowOpacity", ("number", "0.25")), ("QLabel", "enabled: 0", "enabled", "rej"), ("QLabel", 'text: null', "text", "rej"),
    ("QLabel", "buddy: null", "buddy", "rej-or-dynamic"), # (the 32-bit range of an int property is not checked at translation time: constants are 64-bit, as `ival: 2147483647 + 1` above)
    ("QSpinBox", "value: 2147483647", "value", ("number", "2147483647")), ("QSpinBox", "value: -2147483648", "value", ("number", "-2147483648")),
]


def qt_family(chk):
    for i, (cls, text, prop, exp) in enumerate(QT_FAMILY):
        qml = "import qmluic.QtWidgets\nQWidget {\n  %s { id: f0\n    %s\n  }\n}\n" % (cls, text)
        run_ = translate([{"id": "q", "src": qml, "type_name": "Doc", "modes": ["generate"]}], metatypes=[QT5_METATYPES], procs=1)["q"]["generate"]
        chk.count({"qt_family": text}, nontrivial=True)
        if run_.get("panic") or not run_.get("ui"):
            continue
        got = ui_values(run_["ui"]).get("f0", {}).get(prop)
        in_header = ("EvalF0" in (run_.get("header") or "")) or ("evalF0" in (run_.get("header") or ""))
        if exp in ("rej", "rej-or-dynamic"):
            if got is not None:
                chk.violation("constant binding `%s` on %s is embedded as %s although its type is not that of the property" % (text, cls, got), {"qml": qml, "embedded": got})
            elif exp == "rej" and not run_.get("n_errors"):
                chk.violation("ill-typed constant binding `%s` on %s is not diagnosed" % (text, cls), {"qml": qml, "header": run_.get("header")})
            elif exp == "rej-or-dynamic" and not run_.get("n_errors") and not in_header:
                chk.violation("binding `%s` on %s is neither embedded, generated nor diagnosed" % (text, cls), {"qml": qml})
            continue
        if got is None or len(got) != 1 or (got[0][0], got[0][2]) != exp:
            chk.violation("constant binding `%s` on %s: expected <%s>%s, got %s (%s)" % (text, cls, exp[0], exp[1], got, [d["msg"] for d in run_.get("diags", [])][:2]),
                          {"qml": qml, "expected": exp, "observed": got})


def const_ctl_family(chk):
    """G: constant bodies with control flow the static evaluator can follow (GenConstCtl.tla); expected values from Lang.tla (Expect.tla)"""
    progs = P.tlc_programs(chk, "GenConstCtl", 100, chk.seed)
    for n, p in enumerate(progs):
        p["id"] = "k%d" % n
    rows = P.expect(chk, progs)
    reqs = [{"id": p["id"], "src": P.binding_doc([p])[0], "type_name": "Doc", "modes": ["generate"]} for p in progs]
    res = translate(reqs, metatypes=[VERIF_METATYPES])
    n_emb = 0
    for p, q in zip(progs, reqs):
        run_ = res[p["id"]]["generate"]
        r = rows.get(p["id"])
        chk.count({"const_ctl": p["body"]}, nontrivial=True)
        if run_.get("panic") or not run_.get("ui") or not r or not r[0]["ok"]:
            continue
        want = lang.canon_from_show(r[0]["v"])
        got = ui_values(run_["ui"]).get("t0", {}).get("ival")
        if got:
            n_emb += 1
            if got[0][0] != "number" or got[0][2] != want:
                chk.violation("constant body `%s` has the value %s but is embedded as <%s>%s" % (lang.r_body(p["body"])[:120], want, got[0][0], got[0][2]), {"qml": q["src"], "expected": want})
        elif not run_.get("n_errors") and "evalT0Ival" not in (run_.get("header") or ""):
            chk.violation("constant body `%s` is neither embedded, generated nor diagnosed" % lang.r_body(p["body"])[:120], {"qml": q["src"]})
    chk.cov["constant_bodies_with_control_flow"] = {"programs": len(progs), "embedded": n_emb}
    if n_emb < 10:
        raise ToolError("only %d of the constant bodies were embedded: the family does not reach the static evaluator" % n_emb)


def listlit_family(chk):
    """G: string-list values (GenListLit.tla): embedded only when every part is a constant, and then as Lang.tla evaluates it (Expect.tla);
    a list with a part read at run time is generated (or diagnosed), never embedded, never short of an element"""
    progs = P.tlc_programs(chk, "GenListLit", 100, chk.seed)
    for n, p in enumerate(progs):
        p["id"] = "ll%d" % n
    rows = P.expect(chk, progs)
    reqs = [{"id": p["id"], "src": P.binding_doc([p])[0], "type_name": "Doc", "modes": ["generate"]} for p in progs]
    res = translate(reqs, metatypes=[VERIF_METATYPES])
    n_emb = 0
    for p, q in zip(progs, reqs):
        run_ = res[p["id"]]["generate"]
        r = rows.get(p["id"])
        chk.count({"listlit": p["body"]}, nontrivial=True)
        if run_.get("panic") or not run_.get("ui") or not r:
            continue
        vals = {x["v"] for x in r if x["ok"]}
        got = ui_values(run_["ui"]).get("t0", {}).get("items")
        text = lang.r_body(p["body"])[:160]
        if got:
            n_emb += 1
            if lang.has_dynamic(p["body"]) or len(vals) != 1:
                chk.violation("list `%s` depends on run-time values but is embedded as %s" % (text, got[0][3]), {"qml": q["src"], "embedded": got[0][3], "values_by_state": sorted(vals)})
                continue
            want = json.loads(lang.canon_from_show(vals.pop()))
            if got[0][0] != "stringlist" or got[0][3] != want:
                chk.violation("constant list `%s` has the value %s but is embedded as %s" % (text, want, got[0][3]), {"qml": q["src"], "expected": want, "embedded": got[0][3]})
        elif not run_.get("n_errors") and "evalT0Items" not in (run_.get("header") or ""):
            chk.violation("list `%s` is neither embedded, generated nor diagnosed" % text, {"qml": q["src"]})
    chk.cov["string_lists"] = {"programs": len(progs), "embedded": n_emb}
    if n_emb < 10:
        raise ToolError("only %d of the lists were embedded: the family does not reach the static evaluator" % n_emb)


# operators outside the documented subset applied to constants: rejected, or -- if a future version supports them -- the ECMAScript value; never another value
UNSUPPORTED_CONST = [
    ("ival", "-16 >>> 2", 1073741820), ("ival", "16 >>> 2", 4), ("ival", "4294967304 >>> 1", 4), ("ival", "-1 >>> 0", 4294967295), ("ival", "1 >>> 33", 0),
    ("ival", "2 ** 10", 1024), ("ival", "2 ** -1", 0.5), ("dval", "2.0 ** 0.5", 2 ** 0.5), ("ival", "null ?? 3", 3), ("ival", "7 ?? 3", 7),
    ("flag", "1 === 1", True), ("flag", "1 !== 1", False), ("flag", "\"1\" === \"1\"", True), ("ival", "(1, 2)", 2), ("ival", "+\"3\"", 3), ("ival", "~~5.7", 5),
    ("flag", "\"a\" in [\"a\"]", False), ("ival", "typeof 1 == \"number\" ? 1 : 2", 1), ("ival", "void 0 ?? 4", 4), ("ival", "7 % -3", 1), ("ival", "-7 % 3", -1),
    ("ival", "-7 / 2", -3), ("ival", "7 / -2", -3), ("dval", "7.0 / 2.0", 3.5), ("ival", "1 << 31", 2147483648), ("ival", "-1 >> 1", -1), ("ival", "5 & -2", 4), ("ival", "5 ^ -1", -6),
]
# doubles far beyond the 64-bit integer range and other edge values: what is embedded reads back as the same double
BIG_DOUBLES = ["1e19", "1e21", "18446744073709551616.0", "1.7976931348623157e308", "-1e300", "-0.0", "9223372036854775808.0", "-9223372036854775809.0", "1e-320", "5e-324",
               "4.9e-324", "123456789012345678901234567890.0", "0.1", "1e15", "1e16", "1e17", "9007199254740993.0", "1.5e300", "-1.25e-300", "2.5e18", "9.5e18"]


# casts of constants (`as`): left to run time today; whatever is embedded instead must be the value the cast denotes (C truncation toward zero)
CONST_CASTS = [("ival", "2.5 as int", 2), ("ival", "-7.9 as int", -7), ("ival", "(1.5 + 2.25) as int", 3), ("uval", "(10.0 / 4.0) as uint", 2), ("ival", "(10.0 / 4.0) as uint as int", 2),
               ("ival", "{ let x = 9.75 as int; return x }", 9), ("dval", "100 as double", 100.0), ("ival", "2.0 as int", 2), ("ival", "true as int", 1), ("ival", "false as int", 0),
               ("dval", "(7 / 2) as double", 3.0), ("ival", "0.999 as int", 0), ("ival", "-0.5 as int", 0), ("dval", "(2.5 as int) as double", 2.0), ("ival", "(TSource.ModeC as int) + 1", 3),
               ("uval", "3 as uint", 3), ("ival", "(3 as uint) as int", 3), ("ival", "1e3 as int", 1000), ("dval", "(1 as double) / (4 as double)", 0.25), ("ival", "(0.1 + 0.2) * 10 as int", None)]


def edge_families(chk):
    reqs, meta = [], []
    for prop, text, val in UNSUPPORTED_CONST + [c for c in CONST_CASTS if c[2] is not None]:
        reqs.append({"id": len(reqs), "src": P.HEAD + "  TSource { id: t0\n    %s: %s\n  }\n}\n" % (prop, text), "type_name": "Doc", "modes": ["generate"]})
        meta.append((prop, text, val))
    for text in BIG_DOUBLES:
        reqs.append({"id": len(reqs), "src": P.HEAD + "  TSource { id: t0\n    dval: %s\n  }\n}\n" % text, "type_name": "Doc", "modes": ["generate"]})
        meta.append(("dval", text, float(text)))
    res = translate(reqs, metatypes=[VERIF_METATYPES])
    for q, (prop, text, val) in zip(reqs, meta):
        run_ = res[q["id"]]["generate"]
        chk.count({"edge": text}, nontrivial=True)
        if run_.get("panic") or not run_.get("ui"):
            continue
        got = ui_values(run_["ui"]).get("t0", {}).get(prop)
        if not got:
            if text in BIG_DOUBLES and not run_.get("n_errors"):
                chk.violation("double constant %s is neither embedded nor diagnosed" % text, {"qml": q["src"]})
            continue
        el, attrs, txt, items = got[0]
        try:
            emb = {"true": True, "false": False}.get(txt, None) if el == "bool" else float(txt)
        except ValueError:
            emb = None
        if emb is None or emb != val or (isinstance(val, bool) != isinstance(emb, bool)):
            chk.violation("constant `%s` denotes %r but is embedded as <%s>%s</%s>" % (text, val, el, txt, el), {"qml": q["src"], "expected": val, "embedded": txt})
    chk.cov["edge_constants"] = len(reqs)


def family(chk):
    qml = P.HEAD
    for i, (text, prop, exp) in enumerate(FAMILY):
        qml += "  TSource { id: f%d\n    %s\n  }\n" % (i, text)
    qml += "}\n"
    run_ = translate([{"id": "fam", "src": qml, "type_name": "Doc", "modes": ["generate"]}], metatypes=[VERIF_METATYPES], procs=1)["fam"]["generate"]
    if run_.get("panic") or not run_.get("ui"):
        raise ToolError("family document failed: %s" % (run_.get("panic") or run_.get("diags")))
    vals = ui_values(run_["ui"])
    for i, (text, prop, exp) in enumerate(FAMILY):
        chk.count({"family": text}, nontrivial=True)
        got = vals.get("f%d" % i, {}).get(prop)
        if exp == "rej":
            if got is not None:
                chk.violation("ill-typed constant binding `%s` embedded as %s" % (text, got), {"qml": qml, "binding": text, "embedded": got})
            continue
        if got is None or len(got) != 1:
            chk.violation("constant binding `%s` not embedded exactly once: %s" % (text, got), {"qml": qml, "binding": text, "observed": got,
                                                                                                   "diagnostics": run_.get("diags")})
            continue
        el, attrs, txt, items = got[0]
        wel, wattrs, wtxt = exp
        ok = el == wel and all(attrs.get(k) == v for k, v in wattrs.items()) and ((items == wtxt) if isinstance(wtxt, list) else (txt == wtxt))
        if not ok:
            chk.violation("constant binding `%s`: expected <%s %s>%s, got <%s %s>%s%s" % (text, wel, wattrs, wtxt, el, attrs, txt, items),
                          {"qml": qml, "binding": text, "expected": exp, "observed": got})
