"""C14 -- the dynamic-binding mode changes only the support code and its diagnostics.

V leg: every catalogue document (accepted and faulted; singles, pairs, seeded triples), object-tree documents with planted
dynamic bindings on every element kind (spacers, actions, layouts), and the examples are translated by the real code in the
three modes in one process; the outcome triple (form hash, error set, header presence, binding/callback counts) is one record
validated by TLC against TraceModes.tla: same form whenever produced, reject accepted <=> generate accepted with an empty
header, omit errors subset of generate errors, header in generate only, and agreement with Pipeline.tla's prediction.
"""
import glob
import itertools
import os
import random
import re

from vlib import build_harness, log, ToolError, translate, tlc, write_ndjson, sha, QT5_METATYPES, REPO
from vlib import catalog as C

RULE = ("case = (document, mode triple); catalogue singles, pairs and seeded triples (accepted and faulted), dynamic / constant bindings and handlers "
        "planted on every element kind (widget, layout, spacer, action, separator action with a handler, menu, tab page), examples; "
        "non-trivial = >= 2 bindings of different ownership or a planted fault; distinct by text")

KINDS = [
    ("spacer dynamic", "QWidget { QCheckBox { id: chk } QVBoxLayout { QSpacerItem { orientation: chk.checked ? Qt.Horizontal : Qt.Vertical } } }"),
    ("spacer constant", "QWidget { QVBoxLayout { QSpacerItem { orientation: Qt.Vertical } } }"),
    ("layout dynamic", "QWidget { QSpinBox { id: spin } QVBoxLayout { spacing: spin.value } }"),
    ("layout margins dynamic", "QWidget { QSpinBox { id: spin } QVBoxLayout { contentsMargins.left: spin.value } }"),
    ("action dynamic", "QWidget { QCheckBox { id: chk } QAction { enabled: chk.checked } }"),
    ("separator with handler", "QMenu { QAction { separator: true; onHovered: {} } }"),
    ("separator with handler in list", "QMenu { id: m; actions: [s]; QAction { id: s; separator: true; onHovered: {} } }"),
    ("separator dynamic", "QMenu { QAction { id: other; checkable: true } QAction { separator: other.checked } }"),
    ("separator with other property", "QMenu { QAction { separator: true; text: \"x\" } }"),
    ("menu dynamic title", "QMenuBar { QLineEdit { id: e } QMenu { title: e.text } }"),
    ("tab page dynamic attached", "QTabWidget { QLineEdit { id: e } QWidget { QTabWidget.title: e.text } }"),
    ("tab page constant attached", "QTabWidget { QWidget { QTabWidget.title: \"t\" } }"),
    ("item model dynamic", "QWidget { QCheckBox { id: chk } QComboBox { model: chk.checked ? [\"a\"] : [\"b\"] } }"),
    ("header map dynamic", "QWidget { QCheckBox { id: chk } QTableView { horizontalHeader.visible: chk.checked } }"),
    ("palette dynamic", "QWidget { QCheckBox { id: chk } QLabel { palette.window: chk.checked ? \"red\" : \"blue\" } }"),
    ("sizepolicy dynamic", "QWidget { QCheckBox { id: chk } QLabel { sizePolicy.horizontalStretch: chk.checked ? 1 : 2 } }"),
    ("root handler", "QDialog { id: root; QDialogButtonBox { onAccepted: root.accept() } }"),
    ("root dynamic", "QWidget { id: root; windowTitle: e.text; QLineEdit { id: e } }"),
    ("warning only", "QWidget { QPushButton { onClicked: function(): void {} } }"),
    ("nothing dynamic", "QWidget { QLabel { text: \"x\" } }"),
]


def summarise(run):
    h = run.get("header")
    return {"form": sha(run.get("ui")) or "", "errors": sorted({"%s@%d-%d" % (d["msg"], d["s"], d["e"]) for d in run.get("diags", []) if d["kind"] == "error"}),
            "header": h is not None,
            "nbind": len(re.findall(r"^        \w+,$", re.search(r"enum class BindingIndex : unsigned \{\n(.*?)    \};", h, re.S).group(1), re.M)) if h and "BindingIndex" in h else 0,
            "ncb": len(re.findall(r"^    void on\w+\(", h, re.M)) if h else 0}


def cli_sequences(chk):
    """the mode relations through the command line, over sequences of runs in ONE directory: after every successful run the files on disk are what the
    library produces for the current source in that mode (form in both modes, support header in generate mode only and never stale); reject mode fails
    exactly when the generate-mode header of the current source has bindings or callbacks"""
    import shutil
    import subprocess
    import tempfile
    from vlib import build_cli
    qmluic = build_cli()
    head = "import qmluic.QtWidgets\n"
    static = head + 'QWidget { QLineEdit { id: edit } QPushButton { id: btn; text: "x" } }\n'
    handler = head + 'QWidget { QLineEdit { id: edit } QPushButton { id: btn; text: "x"; onClicked: edit.clear() } }\n'       # same form as `static`
    dynamic = head + 'QWidget { windowTitle: edit.text; QLineEdit { id: edit } QPushButton { id: btn; text: "x" } }\n'          # same form as `static`
    other = head + 'QWidget { QLineEdit { id: edit } QPushButton { id: btn; text: "y" } }\n'
    docs = {"static": static, "handler": handler, "dynamic": dynamic, "other": other}
    lib = translate([{"id": k, "src": v, "type_name": "X", "modes": ["generate", "reject"]} for k, v in docs.items()], metatypes=[QT5_METATYPES])
    sequences = [[("reject", "static"), ("generate", "static"), ("generate", "handler"), ("reject", "handler"), ("generate", "static"), ("generate", "dynamic"), ("reject", "dynamic")],
                 [("generate", "static"), ("generate", "handler"), ("generate", "dynamic"), ("generate", "other"), ("reject", "other"), ("generate", "handler")],
                 [("generate", "dynamic"), ("reject", "static"), ("generate", "static"), ("reject", "handler"), ("generate", "handler")]]
    for si, seq in enumerate(sequences):
        d = tempfile.mkdtemp(prefix="c14-", dir=chk.work)
        try:
            for step, (mode, doc) in enumerate(seq):
                open(os.path.join(d, "X.qml"), "w").write(docs[doc])
                cmd = [qmluic, "generate-ui", "--foreign-types", QT5_METATYPES] + (["--no-dynamic-binding"] if mode == "reject" else []) + ["X.qml"]
                p = subprocess.run(cmd, cwd=d, capture_output=True, text=True, timeout=60)
                chk.count({"cli_sequence": si, "step": step}, nontrivial=step > 0)
                want = lib[doc][mode]
                want_ok = not want.get("n_errors")
                ctx = {"sequence": [list(x) for x in seq[:step + 1]], "qml": docs[doc], "exit": p.returncode, "stderr": p.stderr[-400:], "files": sorted(os.listdir(d))}
                if (p.returncode == 0) != want_ok:
                    chk.violation("step %d of CLI sequence %d (%s mode on `%s`): exit %d, the library %s the document in that mode" % (step, si, mode, doc, p.returncode, "accepts" if want_ok else "rejects"), ctx)
                    break
                if p.returncode != 0:
                    continue
                ui = open(os.path.join(d, "x.ui")).read() if os.path.exists(os.path.join(d, "x.ui")) else None
                if ui != want.get("ui"):
                    chk.violation("step %d of CLI sequence %d: x.ui on disk is not the form of the current source" % (step, si), dict(ctx, on_disk=ui, expected=want.get("ui")))
                if mode == "generate":
                    h = open(os.path.join(d, "uisupport_x.h")).read() if os.path.exists(os.path.join(d, "uisupport_x.h")) else None
                    if h != want.get("header"):
                        chk.violation("step %d of CLI sequence %d: uisupport_x.h on disk is %s, not the support code of the current source" % (step, si, "missing" if h is None else "stale or different"),
                                      dict(ctx, on_disk=h, expected=want.get("header")))
        finally:
            shutil.rmtree(d, ignore_errors=True)


def run(chk):
    build_harness()
    quick = chk.tier == "quick"
    r = random.Random(chk.seed)
    names = sorted(C.CATALOG)
    docs = [[n] for n in names] + [list(p) for p in itertools.combinations(names, 2)]
    docs += [list(t) for t in r.sample(list(itertools.combinations(names, 3)), 300 if quick else 6000)]
    if quick:
        grouped = lambda d: len(d) > 1 and all(C.CATALOG[n]["attrs"]["group"] for n in d) and len({(C.CATALOG[n]["attrs"]["group"], C.CATALOG[n]["host"]) for n in d}) == 1
        docs = docs[:len(names)] + [d for d in docs[len(names):] if grouped(d)] + r.sample([d for d in docs[len(names):] if not grouped(d)], 700)
    items = [("d%d" % i, d) for i, d in enumerate(docs)]
    pred = C.places(chk, items)
    # the type name (file stem) is the same input to every mode: it must not tell the modes apart, whatever it looks like
    TYPE_NAMES = ["Doc", "Doc", "settings-page", "2ndPage", "\u00dcbersicht", "My Type", "a.b", "class", "Doc_1", "ui_", "x", "\u30d5\u30a9\u30fc\u30e0"]
    reqs = [{"id": i, "src": C.build_document(d)[0], "type_name": TYPE_NAMES[n % len(TYPE_NAMES)], "modes": ["generate", "reject", "omit"]} for n, (i, d) in enumerate(items)]
    extra = [("k%d" % n, "import qmluic.QtWidgets\n" + q + "\n", what) for n, (what, q) in enumerate(KINDS)]
    extra += [("x%d" % n, open(f).read(), os.path.basename(f)) for n, f in enumerate(sorted(glob.glob(os.path.join(REPO, "examples", "*.qml"))))]
    reqs += [{"id": i, "src": q, "type_name": TYPE_NAMES[n % len(TYPE_NAMES)], "modes": ["generate", "reject", "omit"]} for n, (i, q, _) in enumerate(extra)]
    # documents that instantiate QML components (file based): <customwidgets> is part of the form in every mode
    comp = {"MyPanel.qml": "import qmluic.QtWidgets\nQWidget { QLabel { id: inner } }\n", "MyButton.qml": "import qmluic.QtWidgets\nQPushButton { }\n",
            "sub/Deep.qml": "import qmluic.QtWidgets\nQLabel { }\n"}
    for n, body in enumerate(["QWidget { MyPanel { } }", "QWidget { MyPanel { } MyButton { text: \"x\" } MyPanel { } }", "MyPanel { MyButton { } }",
                              "QWidget { QCheckBox { id: chk } MyButton { enabled: chk.checked } }", "QWidget { MyButton { onClicked: {} } }"]):
        files = dict(comp, **{"Doc.qml": "import qmluic.QtWidgets\nimport \"sub\"\n" + body.replace("QWidget {", "QWidget { Deep { }", 1) + "\n"})
        reqs.append({"id": "f%d" % n, "files": files, "path": "Doc.qml", "type_name": "Doc", "modes": ["generate", "reject", "omit"], "src": files["Doc.qml"]})
    out = translate(reqs, metatypes=[QT5_METATYPES])
    recs, back = [], []
    for q in reqs:
        runs = out[q["id"]]
        if any(runs[m].get("panic") or runs[m].get("timeout") or runs[m].get("crash") for m in runs):
            continue
        p = pred.get(q["id"])
        rec = {"id": len(recs) + 1, "gen": summarise(runs["generate"]), "rej": summarise(runs["reject"]), "omit": summarise(runs["omit"]),
               "haspred": p is not None, "pred": p["accepted"] if p else {"generate": True, "reject": True, "omit": True}}
        recs.append(rec)
        back.append(q)
        chk.count({"src": q["src"]}, nontrivial=True)
    path = os.path.join(chk.work, "modes.ndjson")
    write_ndjson(path, recs)
    rt = tlc("TraceModes", env={"RECS": path}, workers=8, timeout=1800, extra=["-continue"], coverage=False)
    chk.add_tlc(rt)
    if rt.distinct != len(recs):
        raise ToolError("TraceModes judged %d of %d records: %s" % (rt.distinct, len(recs), rt.out[-2000:]))
    chk.cov["traces_validated_against_impl"] = len(recs)
    seen = set()
    for inv, vals in rt.violations:
        idx = int(vals["i"]) - 1
        if (inv, idx) in seen:
            continue
        seen.add((inv, idx))
        q = back[idx]
        chk.violation("%s violated: gen=%s rej=%s omit=%s" % (inv, {k: v for k, v in recs[idx]["gen"].items() if k != "errors"}, recs[idx]["rej"]["errors"][:2] or "accepted",
                                                           recs[idx]["omit"]["errors"][:2] or "accepted"),
                      {"invariant": inv, "qml": q["src"], "record": recs[idx]})
    chk.sample({"record": recs[len(names) + 5], "qml": back[len(names) + 5]["src"][-400:]})
    cli_sequences(chk)
    chk.sample({"kind_document": KINDS[0]})
    chk.cov["trusted_base"] = ["TLC", "regex count of BindingIndex enumerators and on<...> functions", "sha1 of the form text"]
