"""C13 -- signal callbacks are wired to the right signal and do what the source says.

G leg: handler bodies enumerated by GenHandler.tla (and control skeletons of GenCtl.tla with effectful leaves) get their
effect sequence for every (arguments, object state) from Lang.tla (Expect.tla); the real header is compiled against the
mock Qt, the signal is emitted and the recorded event log must equal the predicted effect sequence -- and stay empty when
another signal of the same object is emitted.  Rejection clause: a fixed family of inadmissible handlers must be diagnosed.
"""
import json
import os
import re
import random
from concurrent.futures import ThreadPoolExecutor

from vlib import build_harness, log, ToolError, VERIF_METATYPES, translate
from vlib import lang, cxx, progs as P

RULE = ("case = (handler body, signal arguments, object state); bodies from GenHandler.tla (pairs of effect statements, branches, "
        "switch with default at every position, early return, locals, read-after-write) in function and arrow form with 0..2 declared "
        "parameters; arguments from {-1,0,3} x {'','q'}; states over the properties read; non-trivial = body has >= 2 statements or a "
        "branch; plus the rejection family (overloads, non-signals, bad parameters, named functions, maps)")

DOC_SIZE = 30
LEVEL_TAG = {"log": "log:debug", "debug": "log:debug", "info": "log:info", "warn": "log:warn", "error": "log:error"}


def uses_local(x, name):
    if isinstance(x, dict):
        if x.get("k") == "lv" and x.get("n") == name:
            return True
        return any(uses_local(v, name) for v in x.values())
    if isinstance(x, list):
        return any(uses_local(v, name) for v in x)
    return False


def variants(p):
    """declare only the leading parameters the body needs (a handler may take a prefix of the signal's arguments)"""
    out = [p]
    if not uses_local(p["body"], "s"):
        q = dict(p, params=p["params"][:1])
        out.append(q)
        if not uses_local(p["body"], "n"):
            out.append(dict(p, params=[]))
    return out


def expected_events(row):
    ev = []
    for e in row["e"]:
        kind, o, n, args = e.split(":", 3)
        vals = [lang.canon_from_show(a) for a in args.split("|")] if args else []
        if kind == "set":
            ev.append("%s.set%s(%s)" % (o, P.cap(n), vals[0]))
        elif kind == "call":
            ev.append("%s.%s(%s)" % (o, n, ",".join(vals)))
        else:
            ev.append(LEVEL_TAG[n] + "".join(" " + v for v in vals))
    return ev


def main_cpp(classes, members, n_progs):
    objs = [(name, cls) for cls, name, _ in members[1:]]
    o = ['#include "mockqt_classes.h"', "#include <functional>", '#include "uisupport_doc.h"', ""]
    o.append("static QWidget root;")
    for name, cls in objs:
        o.append("static %s %s;" % (cls, name))
    o.append(cxx.setter_table(classes, [(n, c) for n, c in objs if n in ("a", "b")]))
    o.append("static std::string arg(const std::vector<std::string> &a, size_t i) { return a.at(i).substr(a.at(i).find(':') + 1); }")
    o.append("int main() {")
    o.append('    root.mockName = "root";')
    o.append("    Ui::Doc ui;")
    for name, cls in objs:
        o.append('    %s.mockName = "%s"; ui.%s = &%s;' % (name, name, name, name))
    o.append("    UiSupport::Doc sup(&root, &ui);")
    o.append("    sup.setup();")
    o.append("    std::vector<std::function<void(const std::vector<std::string> &)>> fire, other;")
    for i in range(n_progs):
        o.append("    fire.push_back([&](const std::vector<std::string> &a) { s%d.fired(std::stoi(arg(a, 0)), QString(arg(a, 1))); });" % i)
        o.append("    other.push_back([&](const std::vector<std::string> &) { s%d.plain(); s%d.ivalChanged(1); s%d.toggledTo(true); });" % (i, i, i))
    o.append(r'''    std::string line;
    while (std::getline(std::cin, line)) {
        // <prog> <row> <mode> arg|arg <US> slot=value <US> slot=value...
        std::istringstream is(line); size_t prog, row; std::string mode, rest; is >> prog >> row >> mode; std::getline(is, rest);
        if (!rest.empty() && rest[0] == ' ') rest.erase(0, 1);
        std::vector<std::string> parts; size_t p = 0;
        while (true) { size_t q = rest.find('\x1f', p); parts.push_back(rest.substr(p, q == std::string::npos ? q : q - p)); if (q == std::string::npos) break; p = q + 1; }
        std::vector<std::string> args; { std::string s = parts[0]; size_t u = 0; while (u <= s.size()) { size_t q = s.find('\x1e', u); if (q == std::string::npos) q = s.size(); args.push_back(s.substr(u, q - u)); u = q + 1; } }
        bool ok = true;
        for (size_t i = 1; i < parts.size(); ++i) { const std::string &kv = parts[i]; if (kv.empty()) continue; size_t eq = kv.find('='), dot = kv.find('.');
            if (!mock_set(kv.substr(0, dot), kv.substr(dot + 1, eq - dot - 1), kv.substr(eq + 1))) ok = false; }
        mock::events().clear();
        std::string res;
        if (!ok) res = "BADSLOT";
        else { try { if (mode == "fire") fire.at(prog)(args); else other.at(prog)(args); } catch (mock::Trap &e) { mock::event(std::string("TRAP:") + e.what()); } }
        std::cout << prog << " " << row << " " << mode;
        for (auto &e : mock::events()) std::cout << "\x1f" << e;
        std::cout << std::endl;
    }
    return 0;
}''')
    return "\n".join(o) + "\n"


def run_doc(chk, di, doc_progs, rows_of, classes):
    qml = P.handler_doc(doc_progs)
    res = translate([{"id": di, "src": qml, "type_name": "Doc", "modes": ["generate"]}], metatypes=[VERIF_METATYPES], procs=1)
    run = res[di]["generate"]
    if not P.is_accepted(run):
        return {"error": "document of individually accepted handlers rejected", "diags": run.get("diags"), "qml": qml}
    ui_h, members = cxx.ui_header("Doc", run["ui"])
    lines = []
    for i, p in enumerate(doc_progs):
        for ri, r in enumerate(rows_of[p["id"]]):
            if r["ok"]:
                args = list(r["a"]) + ["i:0", "s:"][len(r["a"]):]     # the signal always carries both arguments
                rest = "\x1e".join(args) + "\x1f" + "\x1f".join(r["s"])
                lines.append("%d %d fire %s" % (i, ri, rest))
                if ri % 7 == 0:
                    lines.append("%d %d other %s" % (i, ri, rest))
    files = {"main.cpp": main_cpp(classes, members, len(doc_progs)), "ui_doc.h": ui_h, "uisupport_doc.h": run["header"]}
    crc, cerr, rrc, out, err = cxx.compile_run(chk.work, "doc%d" % di, files, "\n".join(lines) + "\n")
    return {"crc": crc, "cerr": cerr, "rrc": rrc, "out": out, "err": err, "qml": qml, "header": run["header"]}


NEGATIVE = [
    ("true overload", "onOvl: function(x: int) { a.act(x) }"),
    ("true overload, no parameter", "onOvl: a.poke()"),
    ("default-argument variants plus a diverging overload", "onLvl: a.poke()"),
    ("default-argument variants plus a diverging overload, int parameter", "onLvl: function(x: int) { a.act(x) }"),
    ("not a signal (slot)", "onAct: a.poke()"),
    ("not a signal (method)", "onTwice: a.poke()"),
    ("unknown signal", "onNoSuchThing: a.poke()"),
    ("too many parameters", "onFired: function(n: int, s: QString, z: int) { a.act(n) }"),
    ("too many parameters for a nullary signal", "onPlain: function(n: int) { a.act(n) }"),
    ("incompatible parameter type", "onFired: function(n: QString) { a.actText(n) }"),
    ("incompatible second parameter type", "onFired: function(n: int, s: int) { a.act(s) }"),
    ("derived parameter from base argument", "onPicked: function(p: TSub) { a.poke() }") if False else ("int parameter for bool argument", "onToggledTo: function(x: int) { a.act(x) }"),
    ("untyped parameter", "onFired: function(n) { a.poke() }"),
    ("named function", "onFired: function foo(n: int) { a.act(n) }"),
    ("map instead of handler", "onFired { x: 1 }"),
    ("redefined parameter", "onFired: function(n: int, n: QString) { a.poke() }"),
    ("handler body ill-typed", "onFired: function(n: int) { a.actText(n) }"),
    ("void parameter", "onFired: function(n: void) { a.poke() }"),
    ("handler on a nested object", "ptr.onPlain: a.poke()"), ("handler inside a nested object group", "sub { onXvalChanged: a.poke() }"),
    ("handler with parameters on a nested object", "ptr.onFired: function(n: int) { a.act(n) }"),
    ("handler on a gadget member", "font.onChanged: a.poke()"), ("handler inside a grouped value", "font { onFamilyChanged: a.poke() }"),
    ("handler on an attached type", "QLayout.onRowChanged: a.poke()"), ("handler on a value-typed member", "gad.onGxChanged: a.poke()"),
    ("double parameter for int argument", "onFired: function(n: double) { a.poke() }"), ("uint parameter for int argument", "onFired: function(n: uint) { a.poke() }"),
    ("int parameter for enum argument", "onModed: function(m: int) { a.act(m) }"), ("bool parameter for int argument", "onFired: function(n: bool) { a.actFlag(n) }"),
    ("derived parameter for a base pointer argument", "onFontPicked: function(f: QString) { a.poke() }"),
    ("handler bound twice", "onPlain: a.poke()\n    onPlain: a.act(1)"),
    ("handler with a return value in block form", "onPlain: { return 1 }") if False else ("parameter of an unknown type", "onFired: function(n: Nope) { a.poke() }"),
]
POSITIVE = [
    ("upcast parameter", "onPicked: function(p: TSource) { a.actPtr(p) }"),
    ("exact pointer parameter", "onPicked: function(p: TSub) { a.actPtr(p) }"),
    ("enum parameter", "onModed: function(m: TSource.Mode) { a.mode = m }"),
    ("bool parameter", "onToggledTo: function(x: bool) { a.actFlag(x) }"),
    ("expression handler", "onPlain: a.poke()"),
    ("two default arguments, both taken", "onPeaked: function(x: int, y: int) { a.actTwo(x, y) }"),
    ("two default arguments, none taken", "onPeaked: a.poke()"),
    ("parenthesised arrow", "onFired: ((n: int) => { a.act(n) })") if False else ("arrow expression body", "onFired: (n: int) => a.act(n)"),
]


# handlers inside the map of a nested object of a real Qt class: rejected, or -- if accepted -- connected to that signal
NESTED_QT = [("QTreeView { header.onSectionClicked: function(i: int) { } }", "sectionClicked"), ("QTableView { horizontalHeader { onSectionResized: { } } }", "sectionResized"),
             ("QTableView { verticalHeader.onSectionCountChanged: { } }", "sectionCountChanged"), ("QTableView { horizontalHeader { visible: false; onGeometriesChanged: { } } }", "geometriesChanged")]


def nested_object_handlers(chk):
    from vlib import QT5_METATYPES
    reqs = [{"id": n, "src": "import qmluic.QtWidgets\nQWidget { %s }\n" % body, "type_name": "Doc", "modes": ["generate"]} for n, (body, _) in enumerate(NESTED_QT)]
    res = translate(reqs, metatypes=[QT5_METATYPES], procs=1)
    for n, (body, sig) in enumerate(NESTED_QT):
        r = res[n]["generate"]
        chk.count({"nested": body}, nontrivial=True)
        if r.get("panic") or r.get("n_errors"):
            continue
        if not re.search(r"connect\([^;]*::%s\b" % sig, r.get("header") or ""):
            chk.violation("handler of %s inside a nested object is accepted but nothing is connected to the signal: %s" % (sig, body), {"qml": reqs[n]["src"], "header": r.get("header")})


def unresolvable_overloads(chk):
    """a handler on a signal NAME some of whose declarations mention a type the type map does not know: which declaration the handler means cannot be
    decided (true overload or default-argument chain?), so it is rejected -- never wired to whatever happens to resolve"""
    import os
    from vlib import MOCKQT
    x = os.path.join(MOCKQT, "verif_x_metatypes.json")
    cases = [("onMixed: function(s: QString) { a.actText(s) }", False), ("onMixed: { a.poke() }", False), ("onFinishedD: function(n: int) { a.act(n) }", False), ("onFinishedD: { a.poke() }", False),
             ("onAllUnknown: { a.poke() }", False), ("onThree: function(n: int) { a.act(n) }", False), ("onPlainOk: function(n: int) { a.act(n) }", True), ("onPlainOk: { a.poke() }", True)]
    reqs = [{"id": "o%d" % n, "src": P.HEAD + "  TOvl { id: o\n    %s\n  }\n}\n" % text, "type_name": "Doc", "modes": ["generate"]} for n, (text, ok) in enumerate(cases)]
    res = translate(reqs, metatypes=[VERIF_METATYPES, x])
    for q, (text, ok) in zip(reqs, cases):
        run_ = res[q["id"]]["generate"]
        chk.count({"unresolvable_overloads": text}, nontrivial=True)
        if run_.get("panic"):
            continue
        acc = P.is_accepted(run_)
        if ok and not acc:
            raise ToolError("control handler `%s` is not accepted: %s" % (text, [d["msg"] for d in run_.get("diags", [])][:2]))
        if not ok and acc:
            chk.violation("handler `%s` on a signal name with a declaration of unknown type is accepted: %s" % (text, re.findall(r"QOverload<[^>]*>::of\(&TOvl::\w+\)|&TOvl::\w+", run_.get("header") or "")[:2]),
                          {"qml": q["src"], "header": run_.get("header")})


def cli_regeneration(chk):
    """the handler code on disk follows the source: generate, edit only the statements of a handler (the form stays byte-identical), generate again in place --
    the support header must be the one the library produces for the edited source"""
    import shutil
    import subprocess
    import tempfile
    from vlib import build_cli, QT5_METATYPES
    qmluic = build_cli()
    head = "import qmluic.QtWidgets\n"
    steps = [head + 'QDialog { id: root; QLineEdit { id: edit } QPushButton { onClicked: { edit.text = "one" } } QCheckBox { onToggled: function(on: bool) { edit.enabled = on } } }\n',
             head + 'QDialog { id: root; QLineEdit { id: edit } QPushButton { onClicked: { edit.text = "two"; root.accept() } } QCheckBox { onToggled: function(on: bool) { edit.enabled = on } } }\n',
             head + 'QDialog { id: root; QLineEdit { id: edit } QPushButton { onClicked: { edit.text = "two"; root.accept() } } QCheckBox { onToggled: function(on: bool) { edit.enabled = !on; console.log(on) } } }\n',
             head + 'QDialog { id: root; QLineEdit { id: edit } QPushButton { onClicked: { } } QCheckBox { onToggled: { } } }\n',
             head + 'QDialog { id: root; QLineEdit { id: edit } QPushButton { onClicked: { edit.text = "one" } } QCheckBox { onToggled: function(on: bool) { edit.enabled = on } } }\n']
    lib = translate([{"id": n, "src": t, "type_name": "X", "modes": ["generate"]} for n, t in enumerate(steps)], metatypes=[QT5_METATYPES])
    d = tempfile.mkdtemp(prefix="c13-", dir=chk.work)
    try:
        for n, t in enumerate(steps):
            open(os.path.join(d, "X.qml"), "w").write(t)
            p = subprocess.run([qmluic, "generate-ui", "--foreign-types", QT5_METATYPES, "X.qml"], cwd=d, capture_output=True, text=True, timeout=60)
            chk.count({"regeneration_step": n}, nontrivial=n > 0)
            if p.returncode != 0:
                raise ToolError("regeneration step %d failed: %s" % (n, p.stderr[-300:]))
            h = open(os.path.join(d, "uisupport_x.h")).read()
            if h != lib[n]["generate"]["header"]:
                chk.violation("after editing only handler statements and regenerating in place (step %d), uisupport_x.h is not the code of the current handlers" % n,
                              {"qml": t, "previous_qml": steps[n - 1] if n else None, "on_disk": h, "expected": lib[n]["generate"]["header"]})
    finally:
        shutil.rmtree(d, ignore_errors=True)


def rejection_clause(chk):
    reqs = []
    for n, (what, text) in enumerate(NEGATIVE + POSITIVE):
        reqs.append({"id": "n%d" % n, "src": P.HEAD + "  TSource { id: s0\n    " + text + "\n  }\n}\n", "modes": ["generate"], "type_name": "Doc"})
    res = translate(reqs, metatypes=[VERIF_METATYPES], procs=1)
    for n, (what, text) in enumerate(NEGATIVE + POSITIVE):
        r = res["n%d" % n]["generate"]
        neg = n < len(NEGATIVE)
        chk.count({"neg": text}, nontrivial=True)
        if r.get("panic"):
            continue    # C07's business
        acc = P.is_accepted(r) and not r.get("syntax_error")
        if neg and acc:
            chk.violation("inadmissible handler accepted (%s): %s" % (what, text), {"qml": reqs[n]["src"], "header": r.get("header")})
        if neg and not acc and not (r.get("n_errors") or r.get("syntax_error")):
            chk.violation("inadmissible handler dropped without a diagnostic (%s): %s" % (what, text), {"qml": reqs[n]["src"]})
        if not neg and not acc:
            chk.violation("admissible handler rejected (%s): %s -> %s" % (what, text, [d["msg"] for d in r.get("diags", [])]), {"qml": reqs[n]["src"]})


def run(chk):
    build_harness()
    cxx.gen_mock_classes(os.path.join(chk.work, "mockqt_classes.h"))
    classes = cxx.load_classes()
    quick = chk.tier == "quick"
    base = P.tlc_programs(chk, "GenHandler", 400 if quick else 4000, chk.seed)
    progs = []
    for p in base:
        progs += variants(p)
    if quick and len(progs) > 900:
        small = [p for p in progs if '"join"' in json.dumps(p)]          # the small families are kept whole
        progs = random.Random(chk.seed).sample([p for p in progs if p not in small], 900) + small
    # the same multi-line handlers with a comment between every two lines (three styles): a comment never changes what a handler does --
    # the commented text is rejected (a comment between two switch clauses is) or performs the same effects
    import copy
    rr = random.Random(chk.seed + 5)
    multi = [p for p in progs if "switch" in lang.r_handler(p)]
    rest = [p for p in progs if "switch" not in lang.r_handler(p) and lang.r_handler(p).count("\n") > 2]
    for n, p in enumerate(rr.sample(multi, min(len(multi), 150 if quick else 1500)) + rr.sample(rest, min(len(rest), 50 if quick else 500))):
        q = copy.deepcopy(p)
        q["cm"] = 1 + n % 3
        progs.append(q)
    for i, p in enumerate(progs):
        p["id"] = "h%d" % i
    log("C13: %d handler programs" % len(progs))
    rows_of = P.expect(chk, progs)
    runs, srcs = P.accepted_individually(chk, progs, kind="handler", want_ir=False)
    acc = []
    for p in progs:
        if rows_of[p["id"]] is None:
            continue
        r = runs[p["id"]]
        if r.get("panic"):
            continue
        if not P.is_accepted(r) and p.get("cm"):
            continue        # comments in some positions are not supported: rejected with a diagnostic, which is within the statement
        if not P.is_accepted(r):
            chk.violation("well-typed handler rejected: %s" % [d["msg"] for d in r.get("diags", [])][:2], {"qml": srcs[p["id"]], "program": p})
            continue
        acc.append(p)
    docs = [acc[i:i + DOC_SIZE] for i in range(0, len(acc), DOC_SIZE)]
    with ThreadPoolExecutor(14) as ex:
        results = list(ex.map(lambda t: run_doc(chk, t[0], t[1], rows_of, classes), enumerate(docs)))
    for di, (doc_progs, r) in enumerate(zip(docs, results)):
        if "error" in r:
            raise ToolError("doc %d: %s %s" % (di, r["error"], json.dumps(r["diags"])[:500]))
        if r["crc"] != 0:
            chk.violation("generated header does not compile against the declared signals (doc %d): %s" % (di, r["cerr"][:600]),
                          {"qml": r["qml"], "compile_error": r["cerr"][:4000], "header": r["header"]})
            continue
        got = {}
        for line in r["out"].splitlines():
            head, *evs = line.split("\x1f")
            a, b, mode = head.split(" ")
            got[(int(a), int(b), mode)] = evs
        for i, p in enumerate(doc_progs):
            nstm = lang.count_nodes(p["body"])
            for ri, row in enumerate(rows_of[p["id"]]):
                if not row["ok"]:
                    continue
                chk.count({"b": p["body"], "p": len(p["params"]), "f": p.get("form"), "s": row["s"], "a": row["a"]}, nontrivial=nstm > 6)
                exp = expected_events(row)
                obs = got.get((i, ri, "fire"), ["MISSING rc=%s %s" % (r["rrc"], r["err"][-200:])])
                if obs != exp:
                    chk.violation("handler %s with args %s in state %s: expected effects %s, observed %s" % (
                        lang.r_handler(p)[:160], row["a"], row["s"], exp, obs),
                        {"program": p, "qml": P.handler_doc([p]), "args": row["a"], "state": row["s"], "expected": exp, "observed": obs})
                    break
                oth = got.get((i, ri, "other"))
                if oth:
                    chk.violation("handler runs on a signal it was not declared for: %s" % oth, {"program": p, "qml": P.handler_doc([p]), "observed": oth})
                    break
        chk.cov["traces_validated_against_impl"] += 1
    rejection_clause(chk)
    unresolvable_overloads(chk)
    nested_object_handlers(chk)
    cli_regeneration(chk)
    for p in acc[:3]:
        chk.sample({"handler": lang.r_handler(p), "rows": rows_of[p["id"]][:2]})
    chk.cov["programs"] = len(acc)
    chk.cov["trusted_base"] = ["g++ 12", "mock Qt signal engine (connect keyed by class + member pointer, longest invocable argument prefix)", "TLC", "Lang.tla"]
