"""C01 -- generated binding code computes the value of its source expression.

G leg: programs (TLC-enumerated by GenExpr/GenStmt, plus the seeded random driver for depth) get their value
for every input state of EnvsFor(prog) from the reference semantics Lang.tla (Expect.tla); the real translator's
header is compiled against the mock Qt and the generated eval function is executed in every defined state.
"""
import json
import os
from concurrent.futures import ThreadPoolExecutor

from vlib import build_harness, log, ToolError, VERIF_METATYPES, translate
from vlib import lang, cxx, progs as P

RULE = ("case = (program, input state); programs: all well-typed expressions of GenExpr.tla up to 4 nodes per type family "
        "(exhaustive), seeded samples of sizes 5-7, the statement skeletons of GenStmt.tla, and seeded random programs; "
        "states: full product of the small per-type domains over the properties the program reads (Expect.tla EnvsFor); "
        "non-trivial = program has an operator or control node and the state is in its defined domain; distinct by JSON")

DOC_SIZE = 40


def main_cpp(type_name, classes, members, evals):
    objs = [(name, cls) for cls, name, _ in members[1:]]
    o = ['#include "mockqt_classes.h"', "#include <QtDebug>", "#include <algorithm>", "#define private public",
         '#include "uisupport_%s.h"' % type_name.lower(), "#undef private", "#include <functional>", ""]
    o.append("static QWidget root;")
    for name, cls in objs:
        o.append("static %s %s;" % (cls, name))
    o.append(cxx.setter_table(classes, [(n, c) for n, c in objs if n in ("a", "b")]))
    o.append("int main() {")
    o.append('    root.mockName = "root";')
    o.append("    Ui::%s ui;" % type_name)
    for name, cls in objs:
        o.append('    %s.mockName = "%s"; ui.%s = &%s;' % (name, name, name, name))
    o.append("    UiSupport::%s sup(&root, &ui);" % type_name)
    o.append("    std::vector<std::function<std::string()>> evals;")
    for fn in evals:
        o.append("    evals.push_back([&]() { return mock::show(sup.%s()); });" % fn)
    o.append(r'''    std::string line;
    while (std::getline(std::cin, line)) {
        // <prog> <row> slot=value;slot=value;...
        std::istringstream is(line); size_t prog, row; std::string rest; is >> prog >> row; std::getline(is, rest);
        if (!rest.empty() && rest[0] == ' ') rest.erase(0, 1);
        size_t p = 0; bool ok = true;
        while (p < rest.size()) {
            size_t q = rest.find('\x1f', p); if (q == std::string::npos) q = rest.size();
            std::string kv = rest.substr(p, q - p); p = q + 1;
            size_t eq = kv.find('='), dot = kv.find('.');
            if (!mock_set(kv.substr(0, dot), kv.substr(dot + 1, eq - dot - 1), kv.substr(eq + 1))) ok = false;
        }
        std::string res;
        if (!ok) res = "BADSLOT";
        else { try { res = evals.at(prog)(); } catch (mock::Trap &e) { res = std::string("TRAP:") + e.what(); } }
        std::cout << prog << " " << row << " " << res << std::endl;
    }
    return 0;
}''')
    return "\n".join(o) + "\n"


def run_doc(chk, di, doc_progs, rows_of, classes):
    qml, _ = P.binding_doc(doc_progs)
    res = translate([{"id": di, "src": qml, "type_name": "Doc", "modes": ["generate"]}], metatypes=[VERIF_METATYPES], procs=1)
    run = res[di]["generate"]
    if not P.is_accepted(run):
        return {"error": "document of individually accepted programs rejected", "diags": run.get("diags"), "qml": qml}
    ui_h, members = cxx.ui_header("Doc", run["ui"])
    evals = ["evalT%d%s" % (i, P.cap(p["prop"])) for i, p in enumerate(doc_progs)]
    lines = []
    for i, p in enumerate(doc_progs):
        for ri, r in enumerate(rows_of[p["id"]]):
            if r["ok"]:
                lines.append("%d %d %s" % (i, ri, "\x1f".join(r["s"])))
    files = {"main.cpp": main_cpp("Doc", classes, members, evals), "ui_doc.h": ui_h, "uisupport_doc.h": run["header"]}
    crc, cerr, rrc, out, err = cxx.compile_run(chk.work, "doc%d" % di, files, "\n".join(lines) + "\n")
    return {"crc": crc, "cerr": cerr, "rrc": rrc, "out": out, "err": err, "qml": qml, "header": run["header"], "nlines": len(lines)}


def gather_programs(chk):
    quick = chk.tier == "quick"
    progs = []
    for mod, limit in (("GenExpr", 60 if quick else 400), ("GenStmt", 60 if quick else 400), ("GenMatrix", 500 if quick else 4000)):
        ps = P.tlc_programs(chk, mod, limit, chk.seed)
        for p in ps:
            p["src_set"] = mod
        progs += ps
    progs = [p for p in progs if lang.has_dynamic(p["body"])]
    if quick:
        # quick tier: seeded sub-sample of the exhaustive strata (the thorough tier runs them all)
        import random
        r = random.Random(chk.seed)
        small = [p for p in progs if lang.count_nodes(p["body"]) <= 4 or p["src_set"] in ("GenMatrix", "GenStmt")]
        rest = [p for p in progs if lang.count_nodes(p["body"]) > 4 and p["src_set"] not in ("GenMatrix", "GenStmt")]
        progs = small + r.sample(rest, min(len(rest), 1200))
    g = lang.Gen(chk.seed)
    nrand = 500 if quick else 8000
    for i in range(nrand):
        p = g.program(2 + (i % 3))
        if lang.has_dynamic(p["body"]):
            p["src_set"] = "random"
            progs.append(p)
    # the same multi-line bodies with a comment between every two lines (three comment styles): a comment never changes the value
    import copy
    import random as _random
    multi = [p for p in progs if "\n" in lang.r_body(p["body"])]
    sw = [p for p in multi if "switch" in lang.r_body(p["body"])]
    rr = _random.Random(chk.seed + 7)
    pick = rr.sample(sw, min(len(sw), 120 if quick else 1500)) + rr.sample(multi, min(len(multi), 60 if quick else 800))
    for n, p in enumerate(pick):
        q = copy.deepcopy(p)
        q["cm"] = 1 + n % 3
        q["src_set"] = "commented"
        progs.append(q)
    for i, p in enumerate(progs):
        p["id"] = "p%d" % i
    return progs


def run(chk):
    build_harness()
    cxx.gen_mock_classes(os.path.join(chk.work, "mockqt_classes.h"))
    classes = cxx.load_classes()
    progs = gather_programs(chk)
    log("C01: %d programs" % len(progs))
    rows_of = P.expect(chk, progs)
    runs, srcs = P.accepted_individually(chk, progs, want_ir=False)
    acc, rejected, nodef = [], [], 0
    for p in progs:
        rows = rows_of[p["id"]]
        if rows is None or not any(r["ok"] for r in rows):
            nodef += 1
            continue
        run_ = runs[p["id"]]
        if run_.get("panic") or run_.get("timeout"):
            chk.violation("translator panicked on a well-typed program: %s" % run_.get("panic"),
                          {"qml": srcs[p["id"]], "program": p, "observed": run_})
            continue
        if not P.is_accepted(run_):
            rejected.append({"qml": lang.r_body(p["body"]), "diags": [d["msg"] for d in run_.get("diags", [])][:2]})
            continue
        acc.append(p)
    log("C01: accepted %d, rejected %d, no defined state %d" % (len(acc), len(rejected), nodef))
    if len(rejected) > 0.25 * len(progs):
        raise ToolError("generator/translator disagreement on acceptance: %d of %d rejected, e.g. %s" % (len(rejected), len(progs), rejected[:3]))
    chk.cov["programs"] = len(acc)
    chk.cov["rejected_by_translator"] = len(rejected)
    chk.cov["rejected_samples"] = rejected[:5]
    docs = [acc[i:i + DOC_SIZE] for i in range(0, len(acc), DOC_SIZE)]
    with ThreadPoolExecutor(14) as ex:
        results = list(ex.map(lambda t: run_doc(chk, t[0], t[1], rows_of, classes), enumerate(docs)))
    for di, (doc_progs, r) in enumerate(zip(docs, results)):
        if "error" in r:
            raise ToolError("doc %d: %s %s" % (di, r["error"], json.dumps(r["diags"])[:500]))
        if r["crc"] != 0:
            # a header of accepted, well-typed programs that does not compile: C16's business, reported here as data
            chk.violation("generated header does not compile (doc %d): %s" % (di, r["cerr"][:600]),
                          {"qml": r["qml"], "compile_error": r["cerr"][:4000], "header": r["header"]})
            continue
        got = {}
        for line in r["out"].splitlines():
            a, b, v = line.split(" ", 2)
            got[(int(a), int(b))] = v
        if r["rrc"] != 0:
            log("doc %d: driver exited with %s: %s" % (di, r["rrc"], r["err"][-300:]))
        for i, p in enumerate(doc_progs):
            nodes = lang.count_nodes(p["body"])
            for ri, row in enumerate(rows_of[p["id"]]):
                if not row["ok"]:
                    continue
                case = {"b": p["body"], "s": row["s"]}
                chk.count(case, nontrivial=nodes > 2)
                if not row["det"]:
                    continue
                exp = lang.canon_from_show(row["v"])
                obs = got.get((i, ri), "MISSING(rc=%s %s)" % (r["rrc"], r["err"][-200:]))
                if p["prop"] == "dval":
                    obs = lang.canon_hexfloat(obs)        # the model has one zero: -0.0 and 0.0 are the same value
                    if obs == "-0x0.0p+0":
                        obs = "0x0.0p+0"
                if obs != exp:
                    chk.violation("eval of `%s` in state %s: expected %s, generated code gives %s" % (
                        lang.r_body(p["body"])[:200], row["s"], exp, obs),
                        {"program": p, "qml_binding": lang.r_body(p["body"]), "state": row["s"], "expected": exp, "observed": obs,
                         "document": P.binding_doc([p])[0]})
                    break
        chk.cov["traces_validated_against_impl"] += 1
    for p in acc[:3]:
        chk.sample({"binding": "%s: %s" % (p["prop"], lang.r_body(p["body"])), "rows": rows_of[p["id"]][:2]})
    # string constants inside binding expressions: hostile literals (control characters followed by digits / hex letters, quotes, trigraph-like
    # text, non-ASCII) are compiled, evaluated and read back byte for byte -- the round trip shared with C16
    from checks import c16
    for kind, what, s, qml, header, msg in c16.strings_leg(chk, classes):
        chk.violation("string constant (%s) %r in a binding expression: %s" % (what, s, msg[:300]), {"qml": qml, "header": header, "string": s, "detail": msg})
    chk.cov["trusted_base"] = ["g++ 12 (C++ expression semantics)", "mock Qt (mockqt_core.h, generated classes)", "TLC", "Lang.tla as oracle"]
    chk.assumptions += ["int values within -(2^31-1)..2^31-1; uint wrap-around not modelled; doubles restricted to exact quarters",
                        "string contents alphanumeric in this check (escaping is C16/C09/C03)"]
