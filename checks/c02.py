"""C02 -- dynamic bindings stay current when any property they read changes.

V leg (exhaustive over histories): the REAL IR and static-dependency list of every accepted binding (hook) is loaded into
Reactive.tla; TLC explores the complete reachable state space under all property changes (incl. re-pointing / nulling)
from every defined initial state and checks `target = Eval(source)` (Lang.tla) in every state.
G leg: seeded change histories are replayed against the compiled support header on the mock signal engine (real setters,
real NOTIFY signals, real connects); after setup() and after every step the target is compared with the Lang.tla value.
Rejection clause: reads of non-constant properties without NOTIFY must be diagnosed, reads of CONSTANT ones accepted.
"""
import json
import os
import random
from concurrent.futures import ThreadPoolExecutor

from vlib import build_harness, log, ToolError, VERIF_METATYPES, translate, tlc, write_ndjson, strip_nulls
from vlib import lang, cxx, progs as P

RULE = ("case = (binding program, change history); programs: GenReact.tla (reads directly / via locals / via pointer chains of length 1..3, under "
        "ternary, &&, if, switch; re-assigned and aliasing locals) plus pointer-reading programs of GenExpr.tla and seeded random programs; "
        "V: all histories (complete state space); G: seeded random walks of 12..30 steps over the program's slots; non-trivial = the history "
        "changes a property the program reads and has a re-pointing or >= 2 steps; distinct by JSON")


def ir_for_tlc(code):
    """slim IR for TLC: ints as ints, doubles as exact quarters, no byte ranges"""
    def op(a):
        a = dict(a)
        a.pop("r", None)
        a.pop("bits", None)
        if a.get("k") == "const":
            if a["ty"] == "int":
                v = int(a["v"])
                if abs(v) >= 2 ** 31:
                    raise ValueError("wide constant")
                a["v"] = v
            elif a["ty"] == "double":
                q = float(a.pop("v")) * 4
                if q != int(q) or abs(q) >= 2 ** 31:
                    raise ValueError("inexact double")
                a["q"] = int(q)
        return a

    def rv(r):
        r = dict(r)
        for k in ("a", "b", "o", "i"):
            if k in r and isinstance(r[k], dict):
                r[k] = op(r[k])
        if "args" in r:
            r["args"] = [op(x) for x in r["args"]]
        if "p" in r:
            r["p"] = {"name": r["p"]["name"]}
        if "m" in r:
            r["m"] = {"name": r["m"]["name"]}
        return r

    def st(s):
        s = dict(s)
        if "rv" in s:
            s["rv"] = rv(s["rv"])
        if "sig" in s:
            s["sig"] = {"name": s["sig"]["name"]}
        return s

    def tm(t):
        t = dict(t)
        for k in ("c", "a"):
            if k in t:
                t[k] = op(t[k])
        return t
    return {"params": code["params"], "nobs": code["nobs"],
            "locals": [{"i": l["i"]} for l in code["locals"]],
            "deps": [{"obj": d["obj"], "sig": {"name": d["sig"]["name"]}} for d in code["deps"]],
            "blocks": [{"st": [st(s) for s in b["st"]], "tm": tm(b["tm"])} for b in code["blocks"]]}


def uses_pointer(p):
    s = json.dumps(p["body"])
    return '"ptr"' in s or '"sub"' in s


def gather(chk):
    quick = chk.tier == "quick"
    progs = P.tlc_programs(chk, "GenReact", 100, chk.seed)
    ex = [p for p in P.tlc_programs(chk, "GenExpr", 40 if quick else 300, chk.seed) if lang.has_dynamic(p["body"])]
    r = random.Random(chk.seed)
    ptr = [p for p in ex if uses_pointer(p)]
    oth = [p for p in ex if not uses_pointer(p)]
    progs += ptr + r.sample(oth, min(len(oth), 60 if quick else 1500))
    g = lang.Gen(chk.seed + 7)
    progs += [p for p in (g.program(2 + i % 3) for i in range(80 if quick else 1500)) if lang.has_dynamic(p["body"])]
    for i, p in enumerate(progs):
        p["id"] = "r%d" % i
    return progs


def setter_call_table(classes, objects):
    """mock_call(obj, prop, shown-value): calls the real setter (store + NOTIFY)"""
    o = ["static bool mock_call(const std::string &obj, const std::string &prop, const std::string &val) {",
         "    const std::string v = val.substr(val.find(':') + 1);"]
    for var, cls in objects:
        for name, ty, owner in cxx.all_properties(classes, cls):
            prop = next(p for p in classes[owner]["properties"] if p["name"] == name)
            if not prop.get("write"):
                continue
            cond = '    if (obj == "%s" && prop == "%s") { ' % (var, name)
            call = "%s.%s" % (var, prop["write"])
            if ty == "int":
                o.append(cond + "%s(std::stoi(v)); return true; }" % call)
            elif ty == "uint":
                o.append(cond + "%s(static_cast<uint>(std::stoul(v))); return true; }" % call)
            elif ty in ("double", "qreal"):
                o.append(cond + "%s(std::stoi(v) / 4.0); return true; }" % call)
            elif ty == "bool":
                o.append(cond + '%s(v == "1"); return true; }' % call)
            elif ty == "QString":
                o.append(cond + "%s(QString(v)); return true; }" % call)
            elif ty == "QStringList":
                o.append(cond + "QStringList l; { std::string items = v.substr(v.find(':') + 1); size_t n = std::stoul(v); size_t p = 0; "
                         "for (size_t i = 0; i < n; ++i) { size_t q = items.find('|', p); l.push_back(QString(items.substr(p, q == std::string::npos ? q : q - p))); p = q + 1; } } %s(l); return true; }" % call)
            elif ty.endswith("*"):
                o.append(cond + "%s(dynamic_cast<%s>(mock_find(v))); return true; }" % (call, ty))
            elif any(e["name"] == ty and e.get("isFlag") for e in classes[owner]["enums"]):
                o.append(cond + "%s(%s::%s::fromInt(std::stoi(v))); return true; }" % (call, owner, ty))
            elif any(e["name"] == ty for e in classes[owner]["enums"]):
                o.append(cond + "%s(static_cast<%s::%s>(std::stoi(v))); return true; }" % (call, owner, ty))
    o += ["    return false;", "}"]
    return "\n".join(o) + "\n"


def main_cpp(classes, members, prop, gadget=False):
    objs = [(name, cls) for cls, name, _ in members[1:]]
    getter = next(p for p in classes["TSource"]["properties"] if p["name"] == prop)["read"]
    # gadget variant: the program is bound to the member pointSize of the grouped value `font`, next to two constant members
    shown = "t0.font().pointSize()" if gadget else "t0.%s()" % getter
    tail = ' << " bold=" << t0.font().bold() << " family=" << t0.font().family().d' if gadget else ""
    o = ['#include "mockqt_classes.h"', '#include "uisupport_doc.h"', ""]
    o.append("static QWidget root;")
    for name, cls in objs:
        o.append("static %s %s;" % (cls, name))
    ab = [(n, c) for n, c in objs if n in ("a", "b")]
    o.append(cxx.setter_table(classes, ab))
    o.append(setter_call_table(classes, ab))
    o.append("int main() {")
    o.append('    root.mockName = "root";')
    o.append("    Ui::Doc ui;")
    for name, cls in objs:
        o.append('    %s.mockName = "%s"; ui.%s = &%s;' % (name, name, name, name))
    o.append("    UiSupport::Doc sup(&root, &ui);")
    o.append(r'''    std::string line; bool started = false;
    auto show = [&]() { std::cout << mock::show(SHOWN) << " conns=" << a.liveConnections() + b.liveConnections()TAIL << std::endl; };
    while (std::getline(std::cin, line)) {
        // init <slot=value US ...>   |   set slot=value
        std::string cmd = line.substr(0, line.find(' ')); std::string rest = line.size() > cmd.size() ? line.substr(cmd.size() + 1) : "";
        try {
            if (cmd == "init") {
                size_t p = 0;
                while (p < rest.size()) { size_t q = rest.find('\x1f', p); if (q == std::string::npos) q = rest.size(); std::string kv = rest.substr(p, q - p); p = q + 1;
                    size_t eq = kv.find('='), dot = kv.find('.'); if (!mock_set(kv.substr(0, dot), kv.substr(dot + 1, eq - dot - 1), kv.substr(eq + 1))) { std::cout << "BADSLOT" << std::endl; return 0; } }
                sup.setup(); started = true; show();
            } else if (cmd == "set" && started) {
                size_t eq = rest.find('='), dot = rest.find('.');
                if (!mock_call(rest.substr(0, dot), rest.substr(dot + 1, eq - dot - 1), rest.substr(eq + 1))) { std::cout << "BADSLOT" << std::endl; return 0; }
                show();
            }
        } catch (mock::Trap &e) { std::cout << "TRAP:" << e.what() << std::endl; return 0; }
    }
    return 0;
}'''.replace("SHOWN", shown).replace("TAIL", tail))
    return "\n".join(o) + "\n"


def walks(rows, seed, n_walks, steps):
    """seeded random walks over slot assignments staying inside the defined set; rows: Expect rows (all assignments)"""
    r = random.Random(seed)
    table = {tuple(row["s"]): row for row in rows}
    defined = [k for k, row in table.items() if row["ok"] and row["det"]]
    if not defined:
        return []
    doms = {}
    for k in table:
        for kv in k:
            s, v = kv.split("=", 1)
            doms.setdefault(s, set()).add(v)
    out = []
    for _ in range(n_walks):
        cur = r.choice(defined)
        hist = [("init", cur)]
        for _ in range(steps):
            cands = []
            for i, kv in enumerate(cur):
                s, v = kv.split("=", 1)
                if s.split(".")[1] in ("konst", "cptr", "rdonly", "quiet", "fin", "finq"):
                    continue
                for v2 in doms[s]:
                    if v2 != v:
                        nxt = cur[:i] + (s + "=" + v2,) + cur[i + 1:]
                        if nxt in table and table[nxt]["ok"] and table[nxt]["det"]:
                            cands.append((s + "=" + v2, nxt))
            if not cands:
                break
            # prefer re-pointing steps: they are what the observers are for
            ptrs = [c for c in cands if "=p:" in c[0]]
            step, cur = r.choice(ptrs) if ptrs and r.random() < 0.5 else r.choice(cands)
            hist.append((step, cur))
        out.append(hist)
    return out, table


def run_prog(chk, p, rows, classes, n_walks, steps):
    qml, _ = P.binding_doc([p])
    gadget = bool(p.get("gadget"))
    if p.get("chain"):
        # a chain of bindings: t1.ival is bound to the program, t0.ival to t1.ival, t0 is what is watched
        qml = qml.replace("  TSource { id: t0\n", "  TSource { id: t1\n", 1)
        qml = qml[:qml.rindex("}")] + "  TSource { id: t0\n    ival: t1.ival\n  }\n}\n"
    if gadget:
        qml = qml.replace("    ival: ", "    font.bold: true\n    font.family: \"n\"\n    font.pointSize: ", 1)
    res = translate([{"id": p["id"], "src": qml, "type_name": "Doc", "modes": ["generate"]}], metatypes=[VERIF_METATYPES], procs=1)
    run = res[p["id"]]["generate"]
    ui_h, members = cxx.ui_header("Doc", run["ui"])
    w = walks(rows, chk.seed * 1000 + int(p["id"][1:]), n_walks, steps)
    if not w:
        return {"skip": True}
    hists, table = w
    files = {"main.cpp": main_cpp(classes, members, p["prop"], gadget), "ui_doc.h": ui_h, "uisupport_doc.h": run["header"]}
    d = os.path.join(chk.work, p["id"] + ("g" if gadget else "") + ("c" if p.get("chain") else ""))
    first = True
    results = []
    for hist in hists:
        lines = ["init " + "\x1f".join(hist[0][1])] + ["set " + step for step, _ in hist[1:]]
        if first:
            crc, cerr, rrc, out, err = cxx.compile_run(chk.work, p["id"] + ("g" if gadget else "") + ("c" if p.get("chain") else ""), files, "\n".join(lines) + "\n")
            first = False
            if crc != 0:
                return {"crc": crc, "cerr": cerr, "qml": qml, "header": run["header"]}
        else:
            import subprocess
            r = subprocess.run([os.path.join(d, "m")], input="\n".join(lines) + "\n", stdout=subprocess.PIPE, stderr=subprocess.PIPE, text=True, timeout=60)
            rrc, out, err = r.returncode, r.stdout, r.stderr
        results.append((hist, out.splitlines(), rrc, err))
    return {"crc": 0, "results": results, "table": table, "qml": qml, "header": run["header"]}


NEG = [
    ("direct read of a property without NOTIFY", "ival: a.quiet"),
    ("read without NOTIFY inside a ternary arm", "ival: a.flag ? a.quiet : 1"),
    ("read without NOTIFY through a local", "ival: { let p = a; return p.quiet }"),
    ("read without NOTIFY through a pointer chain", "ival: a.ptr != null ? a.ptr.quiet : 0"),
    ("read without NOTIFY inside a switch body", "ival: { switch (a.ival) { case 0: return a.quiet; } return 1 }"),
    ("read without NOTIFY under &&", "flag: a.flag && a.quiet > 0"),
    ("read of a FINAL read-only property without NOTIFY", "ival: a.finq"), ("FINAL read-only without NOTIFY through a chain", "ival: a.ptr != null ? a.ptr.finq : 0"),
    ("read without NOTIFY after a switch left by break", "ival: { switch (a.ival) { case 0: break; default: break; } return a.quiet }"),
    ("read without NOTIFY via chain local in else arm", "ival: { if (a.flag) { return 1 } else { let q = a.ptr; if (q != null) { return q.quiet } } return 0 }"),
]
POS = [
    ("read of a CONSTANT property", "ival: a.konst + a.ival"),
    ("read through a CONSTANT pointer", "ival: a.cptr != null ? a.cptr.ival : 0"),
    ("read of a read-only property with NOTIFY", "ival: a.rdonly"),
    ("CONSTANT property only", "ival: a.konst"),
    ("read of a FINAL read-only property with NOTIFY", "ival: a.fin + b.fin"),
]


def rejection_clause(chk):
    reqs = []
    for n, (what, text) in enumerate(NEG + POS):
        reqs.append({"id": "n%d" % n, "src": P.HEAD + "  TSource { id: t0\n    " + text + "\n  }\n}\n", "modes": ["generate"], "type_name": "Doc"})
    res = translate(reqs, metatypes=[VERIF_METATYPES], procs=1)
    for n, (what, text) in enumerate(NEG + POS):
        r = res["n%d" % n]["generate"]
        chk.count({"neg": text}, nontrivial=True)
        if r.get("panic"):
            continue
        acc = P.is_accepted(r)
        if n < len(NEG):
            if acc:
                chk.violation("binding that reads a non-constant property without NOTIFY is generated (would go stale): %s (%s)" % (text, what),
                              {"qml": reqs[n]["src"], "header": r.get("header")})
            elif not any("unobservable" in d["msg"] for d in r.get("diags", [])):
                chk.violation("unobservable read rejected without the diagnostic: %s -> %s" % (text, [d["msg"] for d in r.get("diags", [])]), {"qml": reqs[n]["src"]})
        elif not acc:
            chk.violation("admissible binding rejected (%s): %s -> %s" % (what, text, [d["msg"] for d in r.get("diags", [])]), {"qml": reqs[n]["src"]})


def run(chk):
    build_harness()
    cxx.gen_mock_classes(os.path.join(chk.work, "mockqt_classes.h"))
    classes = cxx.load_classes()
    quick = chk.tier == "quick"
    progs = gather(chk)
    rows_of = P.expect(chk, progs)
    runs, srcs = P.accepted_individually(chk, progs, want_ir=True)
    recs, back, acc = [], [], []
    for p in progs:
        rows = rows_of[p["id"]]
        run_ = runs[p["id"]]
        if rows is None or not any(r["ok"] and r["det"] for r in rows) or not P.is_accepted(run_):
            continue
        irs = [ir for ir in run_["ir"] if ir["obj"] == "t0" and ir["kind"] == "binding" and not ir["const"]]
        if len(irs) != 1:
            # an accepted binding whose value depends on the state (the oracle gives different values in different states) but which the translator
            # took for a constant: it is embedded once and never updated
            vals = {r["v"] for r in rows if r["ok"] and r["det"]}
            if len(vals) > 1 and any(ir["obj"] == "t0" and ir["kind"] == "binding" and ir["const"] for ir in run_["ir"]):
                chk.violation("binding `%s` takes %d different values over the states of the objects it reads but is embedded as a constant (no update code)" % (
                    lang.r_body(p["body"])[:200], len(vals)), {"program": p, "qml": srcs[p["id"]], "ui": run_.get("ui"), "header": run_.get("header")})
            continue
        acc.append(p)
        try:
            recs.append(strip_nulls({"id": p["id"], "prop": p["prop"], "body": p["body"], "code": ir_for_tlc(irs[0]["code"])}))
            back.append(p)
        except ValueError:
            pass
    log("C02: %d programs, %d accepted with a dynamic binding, %d loaded into Reactive.tla" % (len(progs), len(acc), len(recs)))
    # ---- V: complete state space per binding
    path = os.path.join(chk.work, "react.ndjson")
    write_ndjson(path, recs)
    r = tlc("Reactive", env={"RECS": path}, workers=10, timeout=3000, heap="12g", extra=["-continue"], coverage=False)
    chk.add_tlc(r)
    if not r.ok and not r.violations:
        raise ToolError("Reactive.tla did not complete: %s" % r.out[-3000:])
    chk.cov["reactive_states"] = r.distinct
    chk.cov["traces_validated_against_impl"] += len(recs)
    seen = set()
    for inv, vals in r.violations:
        bi = int(vals.get("bi", "0")) - 1
        if (inv, bi) in seen or bi < 0:
            continue
        seen.add((inv, bi))
        p = back[bi]
        chk.violation("%s violated for binding `%s` (state: heap=%s)" % (inv, lang.r_body(p["body"])[:200], vals.get("heap", "")[:300]),
                      {"invariant": inv, "program": p, "qml": srcs[p["id"]], "tlc_state": vals, "ir": recs[bi]["code"]})
    # ---- G: histories against the compiled header
    sel = acc if not quick else acc[:40] + random.Random(chk.seed).sample(acc[40:], min(len(acc) - 40, 30)) if len(acc) > 40 else acc
    n_walks, steps = (3, 14) if quick else (8, 30)
    # the same int-valued programs bound to a member of a grouped value that also has constant members
    ints = [q for q in sel if q["prop"] == "ival"]
    sel = sel + [dict(p, gadget=True) for p in ints[:(12 if quick else 200)]] + [dict(p, chain=True) for p in ints[-(12 if quick else 200):]]
    with ThreadPoolExecutor(14) as ex:
        results = list(ex.map(lambda p: run_prog(chk, p, rows_of[p["id"]], classes, n_walks, steps), sel))
    for p, res in zip(sel, results):
        if res.get("skip"):
            continue
        if res["crc"] != 0:
            chk.violation("generated header does not compile: %s" % res["cerr"][:500], {"qml": res["qml"], "header": res["header"], "compile_error": res["cerr"][:3000]})
            continue
        table = res["table"]
        bad = False
        for hist, lines, rrc, err in res["results"]:
            if bad:
                break
            repoint = any("=p:" in s for s, _ in hist[1:])
            chk.count({"b": p["body"], "h": [s for s, _ in hist]}, nontrivial=len(hist) > 2 or repoint)
            for k, (step, state) in enumerate(hist):
                exp = lang.canon_from_show(table[state]["v"])
                obs = lines[k].split(" conns=")[0] if k < len(lines) else "MISSING(rc=%s %s)" % (rrc, err[-200:])
                if p.get("gadget") and k < len(lines) and not lines[k].endswith(" bold=1 family=n"):
                    obs += " but the constant members hold" + lines[k].split(" conns=")[1][1:]
                if p["prop"] == "dval":
                    obs = lang.canon_hexfloat(obs)
                    obs = "0x0.0p+0" if obs == "-0x0.0p+0" else obs
                if obs != exp:
                    chk.violation("binding `%s` stale/wrong after step %d of history %s: expected %s, target holds %s" % (
                        lang.r_body(p["body"])[:160], k, [s if isinstance(s, str) else "init" for s, _ in hist[:k + 1]][-4:], exp, obs),
                        {"program": p, "qml": res["qml"], "history": [(s if s != "init" else list(st)) for s, st in hist[:k + 1]],
                         "expected": exp, "observed": obs, "header": res["header"]})
                    bad = True
                    break
            chk.cov["traces_validated_against_impl"] += 1
    rejection_clause(chk)
    for p in acc[:3]:
        chk.sample({"binding": "%s: %s" % (p["prop"], lang.r_body(p["body"]))})
    chk.cov["programs"] = len(acc)
    chk.cov["trusted_base"] = ["g++ 12", "mock Qt signal engine", "TLC", "Lang.tla", "IR serialisation"]
