"""C08 -- identical inputs give byte-identical outputs.

M leg: Determinism.tla audits every consumer of a randomly seeded hash map (sort-then-emit, fold-into-set, the palette's
collect-then-merge) over every iteration order of every small map; the disciplines the code does not use (emit in iteration
order, merge palette defaults eagerly) are explored as negative controls and TLC must refute them.
V leg: documents that are wide at every audited site (>= 5 entries per map) are translated repeatedly by the real code --
many times inside one process in shuffled company (Rust re-keys every new map, so iteration orders differ inside a process)
and in fresh processes, through the library and through the command line (single- and multi-source invocations) -- and TLC
checks on the run records that form, header and the diagnostics set never differ (TraceDeterminism.tla).
"""
import glob
import os
import random
import re
import shutil
import subprocess
import tempfile
from concurrent.futures import ThreadPoolExecutor

from vlib import build_harness, build_cli, log, ToolError, tlc, tlc_must_pass, write_ndjson, sha, _translate_chunk, QT5_METATYPES, VERIF_T_METATYPES, REPO
from vlib import catalog as C

RULE = ("case = (document, mode, process, ordinal in that process); documents: four hand-written wide documents (constants at every map site, dynamic bindings / "
        "handlers / includes, 40 errors, warnings), catalogue documents with all accepted / all faulted entries, seeded catalogue mixes, the examples; "
        "non-trivial = every case (each is one more hash seed); distinct by (document, process, ordinal)")
HEAD = "import qmluic.QtWidgets\n"
WIDE = {}
WIDE["const"] = HEAD + '''QWidget {
    id: root
    windowTitle: "w"; toolTip: "t"; statusTip: "s"; whatsThis: "wt"; accessibleName: "an"; accessibleDescription: "ad"; styleSheet: "ss"; enabled: false
    acceptDrops: true; autoFillBackground: true; minimumSize.width: 10; minimumSize.height: 20; maximumSize.width: 1000; maximumSize.height: 2000
    geometry.x: 1; geometry.y: 2; geometry.width: 300; geometry.height: 400
    sizePolicy.horizontalPolicy: QSizePolicy.Expanding; sizePolicy.verticalPolicy: QSizePolicy.Fixed; sizePolicy.horizontalStretch: 1; sizePolicy.verticalStretch: 2
    font.family: "Mono"; font.pointSize: 11; font.bold: true; font.italic: true; font.underline: true; font.strikeout: true; font.kerning: false; font.weight: 75
    palette.window: "red"; palette.windowText: "#112233"; palette.base: "blue"; palette.text: "green"; palette.button: "#80112233"
    palette.active { window: "white"; highlight: "black"; toolTipBase: "gray"; link: "navy" }
    palette.disabled { text: "silver"; buttonText: "teal"; brightText: "olive"; shadow: "maroon" }
    QAction { id: a1; text: "a"; toolTip: "b"; statusTip: "c"; whatsThis: "d"; iconText: "e"; checkable: true; checked: true; enabled: false; visible: false; autoRepeat: false }
    QGridLayout {
        horizontalSpacing: 3; verticalSpacing: 4; contentsMargins.left: 1; contentsMargins.top: 2; contentsMargins.right: 3; contentsMargins.bottom: 4
        sizeConstraint: QLayout.SetFixedSize
        QLabel { QLayout.row: 0; QLayout.column: 0; QLayout.rowSpan: 1; QLayout.columnSpan: 2; QLayout.alignment: Qt.AlignLeft | Qt.AlignTop
                 text: "x"; wordWrap: true; indent: 3; margin: 4; openExternalLinks: true; scaledContents: true; textFormat: Qt.RichText; alignment: Qt.AlignRight
                 palette.inactive { window: "white" } palette.base: "red"; palette.button: "tan" }
        QTableView { QLayout.row: 1; QLayout.column: 0
                     horizontalHeader.visible: false; horizontalHeader.defaultSectionSize: 30; horizontalHeader.minimumSectionSize: 10; horizontalHeader.stretchLastSection: true
                     horizontalHeader.cascadingSectionResizes: true; horizontalHeader.highlightSections: true; horizontalHeader.showSortIndicator: true
                     verticalHeader.visible: false; verticalHeader.defaultSectionSize: 31; verticalHeader.minimumSectionSize: 11; verticalHeader.stretchLastSection: true
                     showGrid: false; sortingEnabled: true; wordWrap: false; cornerButtonEnabled: false; alternatingRowColors: true }
        QSpacerItem { QLayout.row: 2; QLayout.column: 1; orientation: Qt.Vertical; sizeHint.width: 5; sizeHint.height: 50 }
        QComboBox { QLayout.row: 3; QLayout.column: 0; model: ["a", "b", "c"]; editable: true; maxVisibleItems: 4; maxCount: 9; duplicatesEnabled: true; frame: false; minimumContentsLength: 3; currentIndex: 1 }
    }
}
'''
WIDE["dynamic"] = HEAD + '''QWidget {
    id: root
    QCheckBox { id: chk }
    QLineEdit { id: edit }
    QSpinBox { id: spin }
    QDoubleSpinBox { id: dspin }
    QLabel {
        id: lab
        text: edit.text; toolTip: edit.text + "t"; statusTip: edit.text + "s"; whatsThis: edit.text + "w"; accessibleName: edit.text + "a"; styleSheet: edit.text + "ss"
        enabled: chk.checked; visible: !chk.checked; wordWrap: chk.checked && spin.value > 0; indent: spin.value; margin: Math.max(spin.value, 2)
        openExternalLinks: dspin.value % 2.0 > 0.5; windowTitle: qsTr("v %1").arg(spin.value)
        font.bold: chk.checked; font.italic: !chk.checked; font.pointSize: spin.value; font.family: edit.text; font.underline: chk.checked; font.kerning: chk.checked
        palette.window: "red"; palette.base: "blue"; palette.disabled { text: "silver" } palette.active { base: "white" }
    }
    QPushButton {
        id: btn
        text: edit.text; enabled: chk.checked; checkable: chk.checked; flat: !chk.checked; autoDefault: chk.checked; toolTip: edit.text
        onClicked: { console.log("c", spin.value) }
        onPressed: { spin.value = Math.min(spin.value + 1, 9) }
        onReleased: { edit.text = "r" }
        onToggled: function(on: bool) { chk.checked = on }
        onWindowTitleChanged: { console.warn("w") }
        onObjectNameChanged: { console.error("o") }
    }
    QSpinBox { id: spin2; value: spin.value; minimum: -5; maximum: 50; singleStep: 2; enabled: chk.checked; prefix: edit.text; suffix: edit.text
               onTextChanged: { edit.text = "x" } onEditingFinished: { chk.checked = true } }
}
'''
WIDE["errors"] = HEAD + '''QWidget {
    id: root
    QCheckBox { id: chk }
    QLabel {
        nope1: 1; nope2: 2; nope3: 3; nope4: 4; nope5: 5; nope6: 6; nope7: 7; nope8: 8
        text: 1; wordWrap: "x"; indent: "y"; margin: true; toolTip: 3; statusTip: false; enabled: "e"; visible: 2
        font.nope: 1; font.bold: "b"; font.pointSize: "p"; font.family: 3; font.italic: 4
        palette.nope: "red"; palette.window: 1; palette.active { nope: "red"; window: 2 } palette.disabled { base: true }
        QLayout.row: 1; QLayout.column: 2; QLayout.rowSpan: 1; QLayout.alignment: Qt.AlignLeft; QTabWidget.title: "t"; QTabWidget.toolTip: "tt"
        onNope: {} onNope2: {} onLinkActivated: { nope() }
    }
    QLabel { QTabWidgett.title: "x"; QTabWidgett.icon: "y"; QLayot.row: 1; QLayot.column: 2; QTabWidget.tooltip: "t"; QTabWidget.nope: 1; QFormLayot.x: 1; QGridLayot.y: 2; QLayout.nope: 3 }
    QVBoxLayout { QLabel { QLayout.row: 1; QLayout.column: 2; QLayout.rowSpan: 1; QLayout.columnSpan: 2; text: chk.nope; toolTip: chk.nope2; statusTip: nope3 } }
}
'''
# anonymous objects whose generated-name prefixes compete (label / label1, widget / widget2), some of them needing support code
WIDE["names"] = HEAD + '''QWidget {
    QCheckBox { id: chk }
    QLabel { } Label1 { } QLabel { enabled: chk.checked } Label1 { } QLabel { } Widget2 { } QWidget { } QWidget { visible: chk.checked } Widget2 { onWindowTitleChanged: {} } QWidget { }
    QVBoxLayout { QLabel { } Label1 { text: chk.text } QLabel { } QSpacerItem { } QSpacerItem { } QHBoxLayout { QLabel { } } QHBoxLayout { } }
    QAction { } QAction { } QAction { separator: true } QMenu { } QMenu { QAction { } }
}
'''
WIDE["warnings"] = "import qmluic.QtWidgets 6.2\n" + 'QWidget { QPushButton { text: "x"; onClicked: function(): void {} } }\n'
MODES = ["generate", "reject", "omit"]
ANSI = re.compile(r"\x1b\[[0-9;]*m")


def summarise(run):
    if run.get("panic") or run.get("timeout") or run.get("crash"):
        return {"ui": "died", "h": "died", "diags": [str(run)[:200]]}
    return {"ui": sha(run.get("ui")) or "", "h": sha(run.get("header")) or "",
            "diags": sorted("%s|%s|%d-%d|%s" % (d["kind"], d["msg"], d["s"], d["e"], ";".join("%s@%s-%s" % (l[2], l[0], l[1]) for l in d.get("labels", [])))
                            for d in run.get("diags", []))}


def cli_segments(err):
    """stderr of one invocation -> {source: sorted diagnostic blocks}"""
    segs, cur = {}, None
    for line in ANSI.sub("", err).splitlines():
        m = re.match(r"^\s*processing (\S+)$", line)
        if m:
            cur = m.group(1)
            segs[cur] = []
            continue
        if cur is not None:
            segs[cur].append(line.rstrip())
    res = {}
    for k, lines in segs.items():
        blocks = [b.strip("\n") for b in "\n".join(lines).split("\n\n") if b.strip()]
        res[k] = sorted(blocks)
    return res


def run(chk):
    build_harness()
    qmluic = build_cli()
    quick = chk.tier == "quick"
    r = random.Random(chk.seed)
    # ---- M leg: the audit and its negative controls
    m = tlc("MCDeterminism", env={"NEGATIVE": "0"}, workers=4, timeout=900, coverage=False)
    tlc_must_pass(m, "MCDeterminism (every iteration order under the code's disciplines)")
    chk.add_tlc(m)
    for neg in ("order", "eager"):
        n = tlc("MCDeterminism", env={"NEGATIVE": neg}, workers=1, timeout=900, coverage=False)
        if n.invariant != "OrderIndependent":
            raise ToolError("negative control '%s' of Determinism.tla was not refuted: %s" % (neg, n.out[-1500:]))
    chk.cov["model_check_audit"] = {"distinct_states": m.distinct, "negative_controls_refuted": ["order", "eager"]}
    # ---- documents
    docs = dict(("wide-" + k, v) for k, v in WIDE.items())
    names = sorted(C.CATALOG)
    ok = [n for n in names if n not in C.FAULTY]
    docs["catalogue-accepted"] = C.build_document(ok)[0]
    docs["catalogue-faulted"] = C.build_document(C.FAULTY)[0]
    docs["catalogue-all"] = C.build_document(names)[0]
    for k in range(3 if quick else 30):
        docs["catalogue-mix-%d" % k] = C.build_document(r.sample(names, 14))[0]
    for f in sorted(glob.glob(os.path.join(REPO, "examples", "*.qml"))):
        docs["example-" + os.path.basename(f)] = open(f).read()
    ids = sorted(docs)
    reps, nproc = (8, 6) if quick else (40, 24)
    # ---- library: `reps` shuffled rounds in each of `nproc` fresh processes
    def one_process(p):
        rr = random.Random(chk.seed * 1000 + p)
        reqs = []
        for rnd in range(reps if p < 2 else 2):
            order = ids[:]
            rr.shuffle(order)
            for d in order:
                reqs.append({"id": [d, p, len(reqs)], "src": docs[d], "type_name": "Doc", "modes": MODES})
        return _translate_chunk(reqs, [QT5_METATYPES, VERIF_T_METATYPES], 20)
    runs = {}     # (doc, mode) -> [run summaries]
    with ThreadPoolExecutor(min(nproc, 12)) as ex:
        for part in ex.map(one_process, range(nproc)):
            for key, res in part.items():
                d, p, o = __import__("json").loads(key)
                for mode in MODES:
                    s = summarise(res[mode])
                    s.update({"proc": p, "ord": o})
                    runs.setdefault((d, mode), []).append(s)
                    chk.count({"doc": d, "mode": mode, "proc": p, "ord": o}, nontrivial=True)
    recs, back = [], []
    for (d, mode), rs in sorted(runs.items()):
        recs.append({"id": len(recs) + 1, "doc": d, "mode": mode, "runs": rs})
        back.append({"doc": d, "mode": mode, "qml": docs[d], "via": "library, %d processes" % nproc})
    # ---- command line: fresh processes, single- and multi-source
    tree = tempfile.mkdtemp(prefix="c08-", dir=chk.work)
    cli_docs = {"Const.qml": WIDE["const"], "Dynamic.qml": WIDE["dynamic"], "Warn.qml": WIDE["warnings"], "Warn2.qml": WIDE["warnings"].replace('"x"', '"y"'),
                "Palette.qml": HEAD + 'QWidget { palette.window: "red"; palette.base: "blue"; palette.text: "green"; palette.disabled { button: "gray" } palette.active { link: "navy" } }\n'}
    # a project whose two string imports define the same type name: the later import wins, in every process
    proj = {"Shadow.qml": HEAD + 'import "pa"\nimport "pb"\nQWidget { Fancy { text: "x" } Fancy { } Other { } }\n',
            "Shadow2.qml": HEAD + 'import "pb"\nimport "pa"\nimport "pc"\nQWidget { Fancy { text: "x" } Other { } Third { } }\n',
            "pa/Fancy.qml": HEAD + "QLabel { }\n", "pb/Fancy.qml": HEAD + "QPushButton { }\n", "pa/Other.qml": HEAD + "QPushButton { }\n", "pb/Other.qml": HEAD + "QLabel { }\n",
            "pc/Fancy.qml": HEAD + "QCheckBox { }\n", "pc/Third.qml": HEAD + "QLabel { }\n", "pa/Third.qml": HEAD + "QLineEdit { }\n"}
    for n, t in proj.items():
        os.makedirs(os.path.dirname(os.path.join(tree, n)), exist_ok=True)
        open(os.path.join(tree, n), "w").write(t)
    cli_docs["Shadow.qml"] = proj["Shadow.qml"]
    cli_docs["Shadow2.qml"] = proj["Shadow2.qml"]
    for n, t in cli_docs.items():
        open(os.path.join(tree, n), "w").write(t)
    invocations = [[n] for n in sorted(cli_docs)] * (3 if quick else 12) + [["Shadow.qml"], ["Shadow2.qml"]] * (6 if quick else 30)
    multi = [["Warn.qml", "Const.qml", "Warn2.qml", "Dynamic.qml", "Palette.qml"], ["Palette.qml", "Dynamic.qml", "Warn2.qml", "Const.qml", "Warn.qml"],
             ["Warn2.qml", "Warn.qml", "Palette.qml"], ["Const.qml", "Warn.qml"], ["Warn.qml", "Const.qml"]]
    invocations += multi * (2 if quick else 6)
    cli_runs = {}

    def invoke(k_srcs):
        k, srcs = k_srcs
        out = os.path.join(chk.work, "c08-out-%d" % k)
        p = subprocess.run([qmluic, "generate-ui", "--foreign-types", QT5_METATYPES, "-O", out] + srcs, cwd=tree, capture_output=True, text=True, timeout=120)
        segs = cli_segments(p.stderr)
        res = []
        for s in srcs:
            stem = s[:-4].lower()
            ui = os.path.join(out, stem + ".ui")
            h = os.path.join(out, "uisupport_" + stem + ".h")
            res.append((s, {"proc": k, "ord": srcs.index(s), "ui": sha(open(ui).read()) if os.path.exists(ui) else "", "h": sha(open(h).read()) if os.path.exists(h) else "",
                            "diags": segs.get(s, ["<not processed>"]), "exit": p.returncode, "argv": srcs}))
        shutil.rmtree(out, ignore_errors=True)
        return res
    with ThreadPoolExecutor(8) as ex:
        for res in ex.map(invoke, list(enumerate(invocations))):
            for s, run_ in res:
                cli_runs.setdefault(s, []).append(run_)
                chk.count({"cli": s, "proc": run_["proc"], "ord": run_["ord"]}, nontrivial=True)
    for s, rs in sorted(cli_runs.items()):
        recs.append({"id": len(recs) + 1, "doc": s, "mode": "cli", "runs": [{k: v for k, v in x.items() if k not in ("exit", "argv")} for x in rs]})
        back.append({"doc": s, "mode": "cli", "qml": cli_docs[s], "via": "command line", "invocations": sorted({" ".join(x["argv"]) for x in rs})})
    # ---- TLC judges the run records
    path = os.path.join(chk.work, "runs.ndjson")
    write_ndjson(path, recs)
    rt = tlc("TraceDeterminism", env={"RECS": path}, workers=4, timeout=1800, extra=["-continue"], coverage=False)
    chk.add_tlc(rt)
    if rt.distinct != len(recs):
        raise ToolError("TraceDeterminism judged %d of %d records: %s" % (rt.distinct, len(recs), rt.out[-2000:]))
    chk.cov["traces_validated_against_impl"] = sum(len(x["runs"]) for x in recs)
    seen = set()
    for inv, vals in rt.violations:
        idx = int(vals["i"]) - 1
        if (inv, idx) in seen:
            continue
        seen.add((inv, idx))
        if inv == "Compared":
            raise ToolError("record %s compares fewer than two runs" % back[idx]["doc"])
        rs = recs[idx]["runs"]
        field = {"FormAgrees": "ui", "HeaderAgrees": "h", "DiagnosticsAgree": "diags"}[inv]
        variants = {}
        for x in rs:
            variants.setdefault(str(x[field]), []).append((x["proc"], x["ord"]))
        chk.violation("%s of %s (%s) differs between runs: %d variants, e.g. runs %s" % (
            {"ui": "the .ui", "h": "the support header", "diags": "the diagnostics set"}[field], back[idx]["doc"], back[idx]["mode"], len(variants),
            [v[0] for v in variants.values()][:3]), dict(back[idx], invariant=inv, variants=[{"value": k[:1500], "runs": v[:10]} for k, v in variants.items()][:4]))
    chk.cov["documents"] = len(docs) + len(cli_docs)
    chk.cov["runs_per_document_library"] = len(runs[(ids[0], "generate")])
    chk.cov["programs"] = len(recs)
    chk.sample({"record": {"doc": recs[0]["doc"], "mode": recs[0]["mode"], "runs": recs[0]["runs"][:2]}})
    chk.cov["trusted_base"] = ["TLC", "sha1 of output texts", "Rust's per-map RandomState re-keying as the source of order variation (not controllable: coverage of orders is statistical)"]
    chk.assumptions += ["iteration orders are sampled, not enumerated: a site with n entries has n! orders and each run draws one; a two-entry site is missed with probability 2^-(runs-1)"]
