"""C06 -- generated function bodies have sound control flow and define before use.

V leg: the finished IR of every accepted binding/callback (observation hook) is validated by TLC against the
predicates of Tir.tla (TraceTir.tla).  M leg: the builder model TirBuilder.tla is model-checked over all control
skeletons; its IR is compared with the real IR (drift check, reported, never a violation).
Token-level cross-check of the emitted C++ (labels/gotos, no fall-through between labels).
"""
import glob
import json
import os
import re

from vlib import build_harness, log, ToolError, VERIF_METATYPES, VERIF_T_METATYPES, QT5_METATYPES, REPO, translate, tlc, write_ndjson, strip_nulls
from vlib import lang, progs as P

RULE = ("case = accepted binding or handler body; bodies: all control skeletons of GenCtl.tla (as binding and as handler), the "
        "statement skeletons of GenStmt.tla, handler bodies of GenHandler.tla, sampled expressions of GenExpr.tla, seeded random "
        "programs and the repository's examples; non-trivial = CFG has >= 2 blocks; distinct by IR JSON")


def handler_of(body):
    return {"sig": "plain", "params": [], "form": "block", "body": body if body["k"] == "block" else {"k": "block", "b": [body]}}


def gather(chk):
    quick = chk.tier == "quick"
    items = []   # (id, kind, qml, program)
    ctl = P.tlc_programs(chk, "GenCtl", 40 if quick else 400, chk.seed)
    stm = P.tlc_programs(chk, "GenStmt", 40 if quick else 400, chk.seed)
    exp = P.tlc_programs(chk, "GenExpr", 30 if quick else 200, chk.seed)
    hnd = P.tlc_programs(chk, "GenHandler", 60 if quick else 400, chk.seed)
    g = lang.Gen(chk.seed)
    rnd = [g.program(3 + i % 2) for i in range(300 if quick else 5000)]
    n = 0
    for p in ctl:
        b = dict(p, prop="ival")
        items.append(("c%d" % n, "binding", P.binding_doc([b])[0], b)); n += 1
        h = handler_of(p["body"])
        items.append(("c%d" % n, "handler", P.handler_doc([h]), h)); n += 1
    # the same skeletons as dynamic gadget sub-bindings (font.pointSize of a real QLabel; Qt 5 metatypes + T classes)
    for p in ctl + stm:
        qml = ("import qmluic.QtWidgets\nQWidget {\n  id: root\n  TSource { id: a }\n  TSub { id: b }\n  QLabel { id: t0\n"
               "    font.pointSize: " + lang.r_body(p["body"]) + "\n    font.bold: a.flag\n  }\n}\n")
        items.append(("c%d" % n, "gadget", qml, p)); n += 1
    for p in stm + exp + rnd:
        items.append(("c%d" % n, "binding", P.binding_doc([p])[0], p)); n += 1
    for p in hnd:
        items.append(("c%d" % n, "handler", P.handler_doc([p]), p)); n += 1
    # bodies that yield no value on any path (handler bodies) bound to properties, incl. one of the most permissive type (QVariant): if such
    # a binding is ever accepted, its function must still return a value on every path
    def uses_params(h):
        names = {x["n"] for x in h.get("params", [])}
        txt = json.dumps(h["body"])
        return any('"k": "lv", "n": "%s"' % nm in txt or '"n": "%s", "k": "lv"' % nm in txt for nm in names)
    for p in [h for h in hnd if not uses_params(h)][:150]:
        for prop in ("vval", "ival"):
            q = {"prop": prop, "body": p["body"]}
            items.append(("c%d" % n, "binding", P.binding_doc([q])[0], q)); n += 1
    for prop, text in (("vval", "a.poke()"), ("vval", "a.vval"), ("vval", "{ if (a.flag) { return a.vval } b.vval }"), ("vval", "{ if (a.flag) { return } a.vval }"),
                       ("vval", "{ switch (a.ival) { case 0: return a.vval; default: break } }"), ("vval", "console.log(a.text)"), ("ival", "a.poke()")):
        qml = P.HEAD + "  TSource { id: t0\n    %s: %s\n  }\n}\n" % (prop, text)
        items.append(("c%d" % n, "binding", qml, {"prop": prop, "text": text})); n += 1
    # the same sub-expression at several places none of which lies on every path to the others (ternary ladder, switch returns, early returns,
    # both arms of an if): each occurrence has its own temporaries
    REPEAT = [("text", 'qsTr("X")'), ("text", 'a.text + "x"'), ("text", "a.label()"), ("text", '"lit"'), ("ival", "a.ival + 1"), ("ival", "a.twice(2)"), ("ival", "Math.max(a.ival, 1)"),
              ("ival", "-a.ival"), ("ival", "(a.uval as int)"), ("flag", "!a.flag"), ("flag", "a.text.isEmpty()"), ("ptr", "a.ptr"), ("items", '[a.text, "k"]'), ("text", "a.items[0]")]
    for prop, e in REPEAT:
        shapes = ["a.flag ? %s : a.flagB ? %s : %s" % (e, e, e),
                  "{ switch (a.ival) { case 0: return %s; case 1: return %s; default: return %s } }" % (e, e, e),
                  "{ if (a.flag) { return %s } if (a.flagB) { return %s } return %s }" % (e, e, e),
                  "{ let r = %s; if (a.flag) { r = %s } else if (a.flagB) { r = %s } return r }" % (e, e, e),
                  "{ switch (a.ival) { case 0: if (a.flag) { return %s } break; case 1: return %s } return %s }" % (e, e, e)]
        for sh in shapes:
            qml = P.HEAD + "  TSource { id: t0\n    %s: %s\n  }\n}\n" % (prop, sh)
            items.append(("c%d" % n, "binding", qml, {"prop": prop, "text": sh})); n += 1
        qml = P.HEAD + "  TSource { id: t0\n    onPlain: { if (a.flag) { a.%s = %s } else { a.%s = %s } a.%s = %s }\n  }\n}\n" % (prop, e, prop, e, prop, e)
        items.append(("c%d" % n, "handler", qml, {"prop": prop, "text": e})); n += 1
    return items


HEADER_FN = re.compile(r"^    (\S[^\n]*?) (eval\w+|on\w+)\(([^\n]*)\)\n    \{\n(.*?)^    \}\n", re.M | re.S)


def header_token_check(header):
    """labels <-> gotos; every label body ends in goto/return/Q_UNREACHABLE (no fall-through into the next label)."""
    problems = []
    for m in HEADER_FN.finditer(header):
        name, body = m.group(2), m.group(4)
        labels = re.findall(r"^    (b\d+):$", body, re.M)
        gotos = re.findall(r"goto (b\d+);", body)
        if len(set(labels)) != len(labels):
            problems.append("%s: duplicate label" % name)
        for g in gotos:
            if g not in labels:
                problems.append("%s: goto %s without label" % (name, g))
        parts = re.split(r"^    b\d+:$", body, flags=re.M)[1:]
        for lab, part in zip(labels, parts):
            lines = [l.strip() for l in part.strip().splitlines() if l.strip() and not l.strip().startswith("#")]
            if not lines:
                problems.append("%s: %s is empty" % (name, lab))
                continue
            last = lines[-1]
            if not (last.startswith("goto ") or last.startswith("return") or last == "Q_UNREACHABLE();"):
                problems.append("%s: %s falls through (%s)" % (name, lab, last))
    return problems


def run(chk):
    build_harness()
    import threading
    merr = []

    def mrun():
        try:
            model_leg(chk)
        except BaseException as e:      # re-raised after the V leg
            merr.append(e)
    mleg = threading.Thread(target=mrun)      # the M leg runs beside the V leg
    mleg.start()
    items = gather(chk)
    reqs = [{"id": i, "src": qml, "type_name": "Doc", "modes": ["generate"], "ir": True} for i, k, qml, _ in items if k != "gadget"]
    res = translate(reqs, metatypes=[VERIF_METATYPES])
    greqs = [{"id": i, "src": qml, "type_name": "Doc", "modes": ["generate"], "ir": True} for i, k, qml, _ in items if k == "gadget"]
    res.update(translate(greqs, metatypes=[QT5_METATYPES, VERIF_T_METATYPES]))
    # corpus: the repository's examples with the bundled Qt 5 metatypes
    corpus = sorted(glob.glob(os.path.join(REPO, "examples", "*.qml")))
    creqs = [{"id": "x%d" % n, "src": open(f).read(), "type_name": os.path.basename(f)[:-4], "modes": ["generate"], "ir": True}
             for n, f in enumerate(corpus)]
    cres = translate(creqs, metatypes=[QT5_METATYPES])
    recs, back = [], []
    n_acc = n_rej = n_panic = 0
    all_runs = [(i, kind, qml, prog, res[i]["generate"]) for i, kind, qml, prog in items] + \
               [(r["id"], "corpus", r["src"], None, cres[r["id"]]["generate"]) for r in creqs]
    for i, kind, qml, prog, run_ in all_runs:
        if run_.get("panic") or run_.get("timeout") or run_.get("crash"):
            n_panic += 1
            continue
        if not P.is_accepted(run_):
            n_rej += 1
            continue
        n_acc += 1
        probs = header_token_check(run_["header"])
        if probs:
            chk.violation("header control flow: %s" % "; ".join(probs[:3]), {"qml": qml, "problems": probs, "header": run_["header"]})
        for ir in run_.get("ir", []):
            if ir["kind"] == "attached" or (ir["kind"] == "binding" and ir["const"]):
                continue   # constants are embedded in the .ui, no function body is generated
            code = dict(ir["code"])
            user = user_locals(qml, code)
            if user:
                code["user"] = user
            recs.append(strip_nulls({"id": len(recs) + 1, "kind": "binding" if ir["kind"] == "binding" else "callback", "code": code}))
            back.append((i, qml, ir))
            chk.count(code, nontrivial=len(code["blocks"]) >= 2)
    log("C06: %d documents accepted, %d rejected, %d panicked (C07), %d code bodies" % (n_acc, n_rej, n_panic, len(recs)))
    if not recs:
        raise ToolError("no IR recorded")
    path = os.path.join(chk.work, "recs.ndjson")
    write_ndjson(path, recs)
    r = tlc("TraceTir", env={"RECS": path}, workers=8, timeout=1800, heap="8g", extra=["-continue"], coverage=False)
    chk.add_tlc(r)
    if r.distinct != len(recs) or (not r.violations and not r.ok):
        raise ToolError("TraceTir did not validate all records: %s" % r.out[-2000:])
    chk.cov["traces_validated_against_impl"] = len(recs)
    seen = set()
    for inv, vals in r.violations:
        idx = int(vals["i"]) - 1
        i, qml, ir = back[idx]
        key = (inv, i, ir["obj"], tuple(ir["path"]))
        if key in seen:
            continue
        seen.add(key)
        chk.violation("%s fails for %s.%s of %s" % (inv, ir["obj"], ".".join(ir["path"]), i),
                      {"invariant": inv, "qml": qml, "ir": ir})
    chk.cov["panics_seen"] = n_panic
    for i, kind, qml, prog, run_ in all_runs[:2]:
        chk.sample({"kind": kind, "qml": qml[-300:]})
    chk.sample({"ir_record": recs[min(5, len(recs) - 1)]}, limit=8)
    chk.cov["trusted_base"] = ["TLC", "observation hook serialisation (harness/src/ir.rs)"]
    mleg.join()
    if merr:
        raise merr[0]


def norm_operand(a):
    if a is None:
        return ("void",)
    k = a.get("k")
    if k == "loc":
        return ("loc", a["i"])
    if k == "obj":
        return ("obj", a["n"])
    if k in ("const", "enum"):
        return ("const",)
    return ("void",)


DECLARATOR = re.compile(r"^[A-Za-z_$][\w$]*\s*(:\s*[\w.]+\s*($|=(?!=))|=(?!=))")


def user_locals(qml, code):
    """indices of the locals the program itself declares: their source range is a variable declarator (`x = e`, `x: T`, `x: T = e`) or a parameter"""
    src = qml.encode()
    out = []
    for l in code.get("locals", []):
        text = src[l["r"][0]:l["r"][1]].decode("utf-8", "replace")
        if DECLARATOR.match(text):
            out.append(l["i"])
    return out


def norm_real(code):
    out = []
    for b in code["blocks"]:
        sts = []
        for st in b["st"]:
            rv = st.get("rv", {})
            k = rv.get("k")
            ops = {"copy": ["a"], "un": ["a"], "bin": ["a", "b"], "rprop": ["o"]}.get(k)
            sts.append((st["k"], st.get("l"), k, tuple(norm_operand(rv.get(x)) for x in ops) if ops else ("?",)))
        tm = b["tm"]
        out.append((tuple(sts), (tm["k"], tm.get("t", -1), tm.get("f", -1), norm_operand(tm.get("c")) if tm["k"] == "brc" else ("void",),
                                 norm_operand(tm.get("a")) if tm["k"] == "ret" else ("void",))))
    return out


def norm_model(blocks):
    out = []
    for b in blocks:
        sts = []
        for st in b["st"]:
            rv = st["rv"]
            ops = {"copy": ["a"], "un": ["a"], "bin": ["a", "b"], "rprop": ["o"]}[rv["k"]]
            sts.append((st["k"], st["l"], rv["k"], tuple(norm_operand(rv[x]) for x in ops)))
        tm = b["tm"]
        out.append((tuple(sts), (tm["k"], tm["t"], tm["f"], norm_operand(tm["c"]) if tm["k"] == "brc" else ("void",), norm_operand(tm["a"]) if tm["k"] == "ret" else ("void",))))
    return out


def model_leg(chk):
    """M: the builder model (TirBuilder.tla) satisfies the IR predicates on every control skeleton -- a design-level statement --
    and the IR it builds is compared block by block with the real builder's IR for the same source (model drift report).
    Neither produces a VIOLATION: the verdict about the code comes from the V leg above."""
    r = tlc("MCTirBuilder", env={"LIMIT": 40 if chk.tier == "quick" else 400}, workers=8, timeout=3000, heap="8g", seed=chk.seed, coverage=False)
    chk.add_tlc(r)
    built = r.printed("BUILT")
    info = {"skeletons": len(built), "model_invariants_hold": r.ok, "invariant_violated": r.invariant}
    if not r.ok:
        log("C06 M leg: the builder model violates %s (design-level counterexample, reported in the evidence)" % r.invariant)
    # drift: the same programs through the real builder, as binding and as handler
    reqs, exp = [], {}
    for n, x in enumerate(built):
        if not x["ok"]:
            continue
        b = dict(x["prog"], prop="ival")
        reqs.append({"id": "b%d" % n, "src": P.binding_doc([b])[0], "type_name": "Doc", "modes": ["generate"], "ir": True})
        reqs.append({"id": "h%d" % n, "src": P.handler_doc([handler_of(x["prog"]["body"])]), "type_name": "Doc", "modes": ["generate"], "ir": True})
        exp["b%d" % n] = exp["h%d" % n] = norm_model(x["blocks"])
    res = translate(reqs, metatypes=[VERIF_METATYPES])
    same = differ = rejected = 0
    first = None
    for q in reqs:
        run_ = res[q["id"]]["generate"]
        irs = [ir for ir in run_.get("ir", []) if ir["kind"] in ("binding", "callback") and ir["obj"] in ("t0", "s0")]
        if run_.get("panic") or not irs or (q["id"].startswith("b") and not P.is_accepted(run_)):
            rejected += 1          # ill-typed as a binding (e.g. int and void returns): the real builder has no finished IR
            continue
        got = norm_real(irs[0]["code"])
        if got == exp[q["id"]]:
            same += 1
        else:
            differ += 1
            if first is None:
                first = {"qml": q["src"][-400:], "model": str(exp[q["id"]])[:1500], "real": str(got)[:1500]}
    info.update({"compared_with_real_ir": same + differ, "identical": same, "different": differ, "no_real_ir": rejected})
    if first:
        info["first_difference"] = first
        log("C06 M leg: model drift on %d of %d bodies (the model no longer transcribes the builder; reported, not a verdict)" % (differ, same + differ))
    chk.cov["model_check_builder"] = info


