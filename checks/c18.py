"""C18 -- QML components in directories resolve as custom widgets, in any order.

M leg: the discovery machine of QmlDir.tla (stack of pending directories, visited modules, nondeterministic read_dir and
argument order) is model-checked over every import relation between three directories: terminates, visits exactly the
reachable directories.
G leg: TLC enumerates crafted and random layouts and prints, for every file used as a source, what QmlDir.tla predicts
(accepted?, <customwidgets>, class and Qt base of every object); the layouts are materialised (several spellings per import,
incl. symlinks) and the real binary is run on every file, on the accepted files in several argument orders and with a
failing companion.
V leg: the binary's own discovery log (QMLUIC_LOG=trace) of every run is validated against the machine (TraceQmlDir.tla).
"""
import hashlib
import itertools
import json
import os
import random
import re
import shutil
import subprocess
import tempfile
import xml.etree.ElementTree as ET
from concurrent.futures import ThreadPoolExecutor

from vlib import build_cli, log, ToolError, tlc, tlc_must_pass, write_ndjson, QT5_METATYPES

RULE = ("case = (layout, source arguments in order, options); layouts: 13 crafted (mutual imports, mutual/self/3-cycle inheritance, components extending components "
        "across directories, shadowing, broken imports, unknown types, component as document root) + seeded random layouts over 8 file slots in 3 directories; "
        "per layout: every file alone, the accepted files in several orders, accepted files with a failing companion, one run with --no-lowercase-file-name; "
        "non-trivial = the layout has >= 2 files; distinct by JSON")
ANSI = re.compile(r"\x1b\[[0-9;]*m")
BASEPROP = {"QWidget": [("windowTitle", "k")], "QLabel": [("text", "k"), ("windowTitle", "w")], "QPushButton": [("text", "k"), ("toolTip", "w")]}
# inherited properties whose TYPE lives in the Qt module (a gadget and two enumerations): the type is resolved where the property is declared,
# whatever the component file or the document imports; (binding text, expected element text) -- the enumerations need the name Qt in the document
TYPEDPROP = {"QWidget": [("minimumSize { width: 7%d; height: 3 }", "minimumSize", "height=3,width=7%d", False), ("focusPolicy: Qt.StrongFocus", "focusPolicy", "Qt::StrongFocus", True)],
             "QLabel": [("minimumSize { width: 7%d; height: 3 }", "minimumSize", "height=3,width=7%d", False), ("alignment: Qt.AlignRight | Qt.AlignBottom", "alignment", "Qt::AlignRight|Qt::AlignBottom", True)],
             "QPushButton": [("minimumSize { width: 7%d; height: 3 }", "minimumSize", "height=3,width=7%d", False), ("focusPolicy: Qt.NoFocus", "focusPolicy", "Qt::NoFocus", True)]}
VERSIONS = ["5.15", "6", "2.0", "6.2"]


def typed_props(lay, k, j, base):
    """[(binding text, property name, expected text)] for child j of file k"""
    qt = lay["files"][k].get("qt", "plain") != "none"
    out = []
    for text, name, want, needs_qt in TYPEDPROP.get(base, []):
        if needs_qt and not qt:
            continue
        out.append((text % j if "%d" in text else text, name, want % j if "%d" in want else want))
    return out
LINKS = {"a": "lnk_a", "b": "lnk_b", "a/s": "lnk_s"}
TIMEOUTS = []       # non-terminating runs seen so far: after a handful the verdict is clear and the remaining runs are skipped


def spell(own, target, salt):
    """one of several spellings of the relative path from directory `own` to directory `target`"""
    if target == "nodir":
        return "../nodir" if salt % 2 else "nodir"
    rel = os.path.relpath(target, own)
    up = "/".join([".."] * len(own.split("/")))
    variants = [rel, "./" + rel, rel + "/", "../" + os.path.basename(own) + "/" + rel, up + "/" + LINKS[target], rel]
    return variants[salt % len(variants)]


def file_text(lay, k, expect):
    f = lay["files"][k]
    salt0 = int(hashlib.sha1(json.dumps([lay["files"], k]).encode()).hexdigest(), 16)
    qt = f.get("qt", "plain")
    lines = [] if qt == "none" else ["import qmluic.QtWidgets" + (" " + VERSIONS[salt0 % len(VERSIONS)] if qt == "versioned" else "")]
    for j, d in enumerate(f["imports"]):
        salt = int(hashlib.sha1(json.dumps([lay["files"], k, j]).encode()).hexdigest(), 16)
        if d == "nodir" and salt % 3 == 2:
            # an aliased import of an existing directory is "not supported": it contributes no types, like a path that is not a directory
            lines.append('import "%s" as Aliased%d' % (os.path.relpath("b", f["dir"]), j))
        else:
            # a version after a directory import is ignored as well
            lines.append('import "%s"%s' % (spell(f["dir"], d, salt), " " + VERSIONS[(salt >> 8) % len(VERSIONS)] if (salt >> 4) % 4 == 0 else ""))
    body = []
    for j, kid in enumerate(f["kids"]):
        props = ['%s: "%s%d"' % (p, v, j) for p, v in BASEPROP.get(expect["bases"][j + 1], [])]
        props += [t for t, _, _ in typed_props(lay, k, j, expect["bases"][j + 1])]
        body.append("    %s {\n%s    }" % (kid, "".join("        %s\n" % x for x in props)))
    lines.append("%s {\n%s\n}" % (f["root"], "\n".join(body)))
    return "\n".join(lines) + "\n"


def materialise(root, lay):
    for d in ("a", "b", "a/s"):
        os.makedirs(os.path.join(root, d), exist_ok=True)
    for d, l in LINKS.items():
        os.symlink(d, os.path.join(root, l))
    texts = {}
    for k, f in enumerate(lay["files"]):
        p = os.path.join(f["dir"], f["name"] + ".qml")
        texts[p] = file_text(lay, k, lay["expect"][k])
        open(os.path.join(root, p), "w").write(texts[p])
    return texts


def parse_log(err, root):
    """discovery events of one run from the binary's own log"""
    evs = []
    real = os.path.realpath(root)

    def rel(p):
        return os.path.relpath(p, real) if p.startswith(real + "/") else p
    returned = False
    for line in ANSI.sub("", err).splitlines():
        m = re.search(r"qmluic::qmldir\s*> populating directories from \[(.*)\]", line)
        if m:
            evs.append({"ev": "init", "pending": [rel(x) for x in re.findall(r'"([^"]*)"', m.group(1))]})
            continue
        m = re.search(r'qmluic::qmldir\s*> processing directory "([^"]*)"', line)
        if m:
            evs.append({"ev": "dir", "d": rel(m.group(1))})
            continue
        m = re.search(r'qmluic::qmldir\s*> processing file "([^"]*)"', line)
        if m:
            p = rel(m.group(1))
            evs.append({"ev": "file", "d": os.path.dirname(p), "n": os.path.basename(p)[:-4]})
            continue
        if "building ui for" in line or re.match(r"^\s*processing ", line):
            returned = True
    return evs, returned


def run_cli(qmluic, root, srcs, outdir, extra=()):
    cmd = [qmluic, "generate-ui", "--foreign-types", QT5_METATYPES, "-O", outdir] + list(extra) + list(srcs)
    try:
        p = subprocess.run(cmd, cwd=root, env=dict(os.environ, QMLUIC_LOG="trace", NO_COLOR="1"), capture_output=True, text=True, timeout=30)
    except subprocess.TimeoutExpired:
        return None, "", {}
    outs = {}
    for r, _, files in os.walk(outdir):
        for f in files:
            outs[os.path.relpath(os.path.join(r, f), outdir)] = open(os.path.join(r, f), "rb").read()
    return p.returncode, p.stderr, outs


def value_text(p):
    v = list(p)[0]
    if len(v):
        return ",".join(sorted("%s=%s" % (c.tag, (c.text or "").strip()) for c in v))
    return (v.text or "").strip()


def read_form(data):
    """(custom widget list, root class, [(class, {prop: text})] of the children)"""
    ui = ET.fromstring(data)
    custom = [(c.findtext("class"), c.findtext("extends"), c.findtext("header")) for c in ui.findall("customwidgets/customwidget")]
    w = ui.find("widget")
    kids = []
    for k in w.findall("widget"):
        kids.append((k.get("class"), {p.get("name"): value_text(p) for p in k.findall("property")}))
    return custom, w.get("class"), kids


def one_layout(args):
    chk, qmluic, lay, li, quick = args
    res = {"violations": [], "traces": [], "back": [], "cases": []}
    root = tempfile.mkdtemp(prefix="c18-%d-" % li, dir=chk.work)
    outs_root = tempfile.mkdtemp(prefix="c18o-%d-" % li, dir=chk.work)
    r = random.Random(chk.seed * 1000 + li)
    try:
        texts = materialise(root, lay)
        paths = [os.path.join(f["dir"], f["name"] + ".qml") for f in lay["files"]]
        model_lay = {"dirs": lay["dirs"], "files": lay["files"]}
        n_out = [0]

        def invoke(srcs, extra=()):
            if len(TIMEOUTS) >= 6:
                return None, {}, {}
            n_out[0] += 1
            outdir = os.path.join(outs_root, "o%d" % n_out[0])
            os.makedirs(outdir)
            rc, err, outs = run_cli(qmluic, root, srcs, outdir, extra)
            ctx = {"layout": model_lay, "texts": texts, "argv": list(extra) + list(srcs), "exit": rc, "stderr": ANSI.sub("", err)[-1500:]}
            res["cases"].append({"files": lay["files"], "srcs": list(srcs), "extra": list(extra)})
            if rc is None:
                TIMEOUTS.append(1)
                res["violations"].append(("translation of %s does not terminate within 30 s" % list(srcs), ctx))
                return None, {}, ctx
            if rc not in (0, 1) or "panicked" in err:
                res["violations"].append(("translation of %s dies (exit %s): %s" % (list(srcs), rc, ANSI.sub("", err)[-200:]), ctx))
            evs, returned = parse_log(err, root)
            trace = [{"ev": "start", "lay": model_lay, "srcs": [os.path.dirname(s) for s in srcs],
                      "pending": evs[0]["pending"] if evs and evs[0]["ev"] == "init" else ["<no log>"]}]
            trace += [e for e in evs if e["ev"] != "init"]
            trace.append({"ev": "end"} if returned else {"ev": "failed"})
            res["traces"].append(trace)
            res["back"].append(ctx)
            shutil.rmtree(outdir, ignore_errors=True)
            return rc, outs, ctx
        single = {}
        for k, p in enumerate(paths):
            exp = lay["expect"][k]
            rc, outs, ctx = invoke([p])
            if rc is None:
                continue
            single[p] = (rc, outs)
            stem = lay["files"][k]["name"].lower()
            ui_name = os.path.join(lay["files"][k]["dir"], stem + ".ui")
            if (rc == 0) != exp["accepted"]:
                res["violations"].append(("%s: exit %d but the model %s the document (classes %s, bases %s)" % (p, rc, "accepts" if exp["accepted"] else "rejects", exp["classes"], exp["bases"]), ctx))
                continue
            if rc != 0:
                if outs:
                    res["violations"].append(("%s is rejected but outputs were written: %s" % (p, sorted(outs)), ctx))
                continue
            if ui_name not in outs:
                res["violations"].append(("%s accepted but %s is missing (outputs %s)" % (p, ui_name, sorted(outs)), ctx))
                continue
            try:
                custom, rootcls, kids = read_form(outs[ui_name])
            except ET.ParseError as e:
                res["violations"].append(("%s: output is not XML: %s" % (p, e), ctx))
                continue
            want = sorted((c["class"], c["extends"], c["class"].lower() + ".h") for c in exp["custom"])
            if sorted(custom) != want:
                res["violations"].append(("%s: <customwidgets> is %s, the model predicts %s" % (p, custom, want), dict(ctx, ui=outs[ui_name].decode("utf-8", "replace"))))
            if rootcls != exp["classes"][0] or [c for c, _ in kids] != exp["classes"][1:]:
                res["violations"].append(("%s: widget classes %s, expected %s" % (p, [rootcls] + [c for c, _ in kids], exp["classes"]), ctx))
            else:
                for j, (cls, props) in enumerate(kids):
                    for pn, pv in BASEPROP.get(exp["bases"][j + 1], []):
                        if props.get(pn) != "%s%d" % (pv, j):
                            res["violations"].append(("%s: instance %d of %s does not carry the base-class property %s (found %s)" % (p, j, cls, pn, props), ctx))
                    for _, pn, want_text in typed_props(lay, k, j, exp["bases"][j + 1]):
                        if props.get(pn) != want_text:
                            res["violations"].append(("%s: instance %d of %s does not carry the base-class property %s = %s (found %s)" % (p, j, cls, pn, want_text, props), ctx))
        good = [p for k, p in enumerate(paths) if lay["expect"][k]["accepted"] and single.get(p, (1,))[0] == 0]
        bad = [p for k, p in enumerate(paths) if not lay["expect"][k]["accepted"] and p in single and single[p][0] != 0]
        # the accepted files in several orders: same outputs as alone
        orders = []
        if len(good) >= 2:
            allp = list(itertools.permutations(good[:4] if quick else good[:5]))
            orders = [allp[0], allp[-1]] + r.sample(allp, min(len(allp), 2 if quick else 10))
            if len(good) > 4:
                orders.append(tuple(reversed(good)))
        for order in dict.fromkeys(orders):
            rc, outs, ctx = invoke(list(order))
            if rc is None:
                continue
            if rc != 0:
                res["violations"].append(("sources %s are accepted one by one but the joint invocation exits %d" % (list(order), rc), ctx))
                continue
            expect_outs = {}
            for p in order:
                expect_outs.update(single[p][1])
            if outs != expect_outs:
                diff = sorted(k for k in set(outs) | set(expect_outs) if outs.get(k) != expect_outs.get(k))
                res["violations"].append(("outputs of the joint invocation %s differ from the outputs of the sources translated alone: %s" % (list(order), diff), ctx))
        # a failing companion in first / last position: same status, whatever is produced is what the source produces alone
        if good and bad:
            b = bad[r.randrange(len(bad))]
            for order in ([b] + good[:2], good[:2] + [b]):
                rc, outs, ctx = invoke(order)
                if rc is None:
                    continue
                if rc == 0:
                    res["violations"].append(("invocation %s with a rejected source exits 0" % order, ctx))
                alone = {}
                for p in order:
                    alone.update(single[p][1])
                wrong = sorted(k for k in outs if outs[k] != alone.get(k))
                if wrong:
                    res["violations"].append(("invocation %s: outputs %s differ from those of the sources translated alone" % (order, wrong), ctx))
        # original case of the header
        if good:
            p = good[0]
            k = paths.index(p)
            rc, outs, ctx = invoke([p], extra=("--no-lowercase-file-name",))
            ui_name = os.path.join(lay["files"][k]["dir"], lay["files"][k]["name"] + ".ui")
            if rc == 0 and ui_name in outs:
                custom, _, _ = read_form(outs[ui_name])
                want = sorted((c["class"], c["extends"], c["class"] + ".h") for c in lay["expect"][k]["custom"])
                if sorted(custom) != want:
                    res["violations"].append(("%s --no-lowercase-file-name: <customwidgets> is %s, expected %s" % (p, custom, want), ctx))
            elif rc is not None:
                res["violations"].append(("%s --no-lowercase-file-name: exit %s, outputs %s" % (p, rc, sorted(outs)), ctx))
    finally:
        shutil.rmtree(root, ignore_errors=True)
        shutil.rmtree(outs_root, ignore_errors=True)
    return res


def validate(chk, traces, back):
    start, rounds = 0, 0
    offsets, pos = [], 1
    for t in traces:
        offsets.append(pos)
        pos += len(t)
    while start < len(traces):
        rounds += 1
        if rounds > 12:
            log("C18: %d runs after the 12th rejected one were not validated" % (len(traces) - start))
            return
        path = os.path.join(chk.work, "dir-trace-%d.ndjson" % start)
        write_ndjson(path, [e for t in traces[start:] for e in t])
        res = tlc("TraceQmlDir", env={"TRACE": path}, workers=1, timeout=1800, dfs=True, coverage=False)
        chk.add_tlc(res)
        rej = res.printed("REJECTED")
        if res.ok and not rej and not res.violations:
            chk.cov["traces_validated_against_impl"] += len(traces) - start
            return
        if rej:
            at = rej[0]["at"]
        elif res.violations:
            at = int(res.violations[0][1].get("l", "1")) - 1
        else:
            raise ToolError("TraceQmlDir failed without a verdict: %s" % res.out[-2000:])
        base = offsets[start] - 1
        k = start
        while k + 1 < len(traces) and offsets[k + 1] - base <= at:
            k += 1
        why = ("the logged step is not a step of the discovery machine: %s" % json.dumps({x: y for x, y in rej[0]["event"].items() if x != "lay"})) if rej \
            else ("invariant %s violated" % res.violations[0][0])
        chk.violation("discovery of run %s deviates from QmlDir.tla: %s" % (back[k]["argv"], why), dict(back[k], trace=traces[k], why=why))
        chk.cov["traces_validated_against_impl"] += k - start
        start = k + 1


def run(chk):
    qmluic = build_cli()
    quick = chk.tier == "quick"
    m = tlc("MCQmlDir", env={"DEEP": "0" if quick else "1"}, workers=8, timeout=3000, heap="8g", coverage=False)
    tlc_must_pass(m, "MCQmlDir (discovery terminates and visits exactly the reachable directories)")
    chk.add_tlc(m)
    chk.cov["model_check_discovery"] = {"distinct_states": m.distinct}
    g = tlc("GenQmlDir", env={"LIMIT": 60 if quick else 600}, workers=1, seed=chk.seed, timeout=1800, coverage=False)
    tlc_must_pass(g, "GenQmlDir")
    lays = g.printed("LAYOUT")
    if len(lays) < 20:
        raise ToolError("GenQmlDir produced %d layouts" % len(lays))
    for l in lays:
        l["dirs"] = sorted(l["dirs"])
    with ThreadPoolExecutor(12) as ex:
        results = list(ex.map(one_layout, [(chk, qmluic, lay, i, quick) for i, lay in enumerate(lays)]))
    traces, back = [], []
    n_acc = 0
    for lay, res in zip(lays, results):
        for c in res["cases"]:
            chk.count(c, nontrivial=len(lay["files"]) >= 2)
        for summary, ctx in res["violations"]:
            chk.violation(summary, ctx)
        traces += res["traces"]
        back += res["back"]
        n_acc += sum(1 for e in lay["expect"] if e["accepted"])
    validate(chk, traces, back)
    chk.cov["layouts"] = len(lays)
    chk.cov["sources_accepted_by_model"] = n_acc
    chk.cov["sources_rejected_by_model"] = sum(len(l["files"]) for l in lays) - n_acc
    chk.cov["programs"] = len(traces)
    chk.sample({"layout": lays[0]["files"], "expect": lays[0]["expect"]})
    chk.cov["trusted_base"] = ["the binary's own trace log (QMLUIC_LOG=trace) as the record of discovery steps", "xml.etree", "TLC"]
    chk.assumptions += ["component and Qt class names are disjoint; components have widget roots (QWidget, QLabel, QPushButton or other components)"]
