"""C12 -- layout items land in the documented cells; per-row/column settings follow.

G leg: GenLayout.tla enumerates layouts (both flows, counts 1..3 and absent, form and box layouts; children with optional
explicit row/column incl. negative and too large, stretch and minimum-size attachments incl. conflicts) and Layout.tla gives
the expected cell of every child, the attribute arrays and whether a diagnostic is due.  The real translator's <layout> and
<item> attributes are read back with expat and compared.  Known deviation F2 (rowMinimumHeight recorded at the child's
column; pinned by a snapshot test) is matched semantically: observed = Layout.tla under rmhAt = "column" and different from
rmhAt = "row".
"""
import json
import random

from vlib import build_harness, log, ToolError, translate, tlc, tlc_must_pass
from vlib import trees as T

RULE = ("case = layout (kind, flow, count, child sequence with attachments); one child and (for the 2-column / 2-row grids) two children "
        "exhaustive over 13 positions x 9 setting combinations in the thorough tier, seeded samples otherwise and for 3..4 children; "
        "non-trivial = >= 2 children and >= 1 explicit position or per-index setting; distinct by JSON")
NONE = -99
CLS = {"grid": "QGridLayout", "form": "QFormLayout", "vbox": "QVBoxLayout", "hbox": "QHBoxLayout"}


def spans_of(l, i):
    """span / alignment attachments of child i: copied to its <item>, no part in the flow (Layout.tla has no variable for them) -- chosen by a hash of the layout"""
    if l["kind"] not in ("grid", "form") or l.get("_nospans"):
        return {}
    import hashlib
    h = int(hashlib.sha1(json.dumps([l["kind"], l["flow"], str(l["count"]), l["kids"], i], sort_keys=True).encode()).hexdigest(), 16)
    return [{}, {}, {"columnSpan": 2}, {"rowSpan": 2}, {"columnSpan": 3, "rowSpan": 2}, {"columnSpan": 2, "alignment": "Qt.AlignRight"}, {"rowSpan": 3}, {"columnSpan": 1}][h % 8]


def render(l):
    q = "import qmluic.QtWidgets\nQWidget {\n  %s {\n" % CLS[l["kind"]]
    if l["kind"] == "grid":
        if l["flow"] == "ttb":
            q += "    flow: QGridLayout.TopToBottom\n"
            if l["count"]:
                q += "    rows: %s\n" % l["count"]
        elif l["count"]:
            q += "    columns: %s\n" % l["count"]
    for i, k in enumerate(l["kids"]):
        q += "    QLabel { id: k%d" % i
        for key, name in (("row", "row"), ("col", "column"), ("rs", "rowStretch"), ("cs", "columnStretch"), ("rmh", "rowMinimumHeight"), ("cmw", "columnMinimumWidth")):
            if k[key] != NONE:
                q += "; QLayout.%s: %d" % (name, k[key])
        for name, v in spans_of(l, i).items():
            q += "; QLayout.%s: %s" % (name, v)
        q += " }\n"
    return q + "  }\n}\n"


def observe(ui):
    lay = ui["root"]["kids"][0]
    a = lay["attrs"]
    cells = [(int(k["item"]["row"]) if "row" in k["item"] else None, int(k["item"]["column"]) if "column" in k["item"] else None) for k in lay["kids"]]
    return {"cells": cells, "stretch": a.get("stretch", ""), "rowstretch": a.get("rowstretch", ""), "columnstretch": a.get("columnstretch", ""),
            "rowminimumheight": a.get("rowminimumheight", ""), "columnminimumwidth": a.get("columnminimumwidth", "")}


def differences(exp, obs, grid_like):
    d = []
    if grid_like:
        want = [(c["r"], c["c"]) for c in exp["cells"]]
        if want != obs["cells"]:
            d.append("cells %s, expected %s" % (obs["cells"], want))
    elif any(c != (None, None) for c in obs["cells"]):
        d.append("box layout items carry cells %s" % obs["cells"])
    for k in ("stretch", "rowstretch", "columnstretch", "rowminimumheight", "columnminimumwidth"):
        if exp[k] != obs[k]:
            d.append("%s=\"%s\", expected \"%s\"" % (k, obs[k], exp[k]))
    return d


def run(chk):
    build_harness()
    quick = chk.tier == "quick"
    res = tlc("GenLayout", env={"LIMIT": 1200 if quick else 20000, "MAINPICK": 35 if quick else 117}, workers=8, seed=chk.seed, coverage=False, timeout=3000, heap="8g")
    tlc_must_pass(res, "GenLayout")
    chk.add_tlc(res)
    cases = res.printed("LAYOUT")
    cases.sort(key=lambda c: repr(c["layout"]))
    log("C12: %d layouts" % len(cases))
    reqs = [{"id": i, "src": render(c["layout"]), "type_name": "Doc", "modes": ["generate"]} for i, c in enumerate(cases)]
    out = translate(reqs)
    for i, c in enumerate(cases):
        l = c["layout"]
        run_ = out[i]["generate"]
        explicit = any(k[x] != NONE for k in l["kids"] for x in k)
        chk.count(l, nontrivial=len(l["kids"]) >= 2 and explicit)
        if run_.get("panic") or run_.get("timeout") or run_.get("crash"):
            continue
        has_err = run_.get("n_errors", 0) > 0
        exp, pin = c["expect"], c["pinned"]
        qml = reqs[i]["src"]
        if exp["err"] != pin["err"]:
            # the deviation moves a conflict: either verdict is explained by one of the two variants
            if has_err == pin["err"] and chk.is_known("F2"):
                chk.known_finding("F2", "rowMinimumHeight is recorded at the index of the child's column instead of its row (conflict detection follows)")
                continue
        if exp["err"]:
            if not has_err:
                chk.violation("conflicting / out-of-range layout attachment accepted without a diagnostic", {"qml": qml, "ui": run_.get("ui")})
            continue
        if has_err:
            chk.violation("admissible layout rejected: %s" % [d["msg"] for d in run_["diags"]][:3], {"qml": qml, "diagnostics": run_["diags"]})
            continue
        obs = observe(T.parse_ui(run_["ui"]))
        grid_like = l["kind"] in ("grid", "form")
        d = differences(exp, obs, grid_like)
        for j, kid in enumerate(T.parse_ui(run_["ui"])["root"]["kids"][0]["kids"]):
            sp = spans_of(l, j)
            for name, attr in (("columnSpan", "colspan"), ("rowSpan", "rowspan")):
                if str(sp.get(name, "")) != (kid["item"] or {}).get(attr, ""):
                    d.append("item %d carries %s=%r, bound %s" % (j, attr, (kid["item"] or {}).get(attr), sp.get(name)))
        if d:
            dp = differences(pin, obs, grid_like)
            if not dp and chk.is_known("F2"):
                chk.known_finding("F2", "rowMinimumHeight is recorded at the index of the child's column instead of its row")
                continue
            chk.violation("layout differs: %s" % "; ".join(d[:3]), {"qml": qml, "ui": run_["ui"], "differences": d, "expected": exp, "observed": obs})
    # values far outside the range Layout.tla admits (IndexOk: 0..MaxIndex, counts 1..Unlimited): an accepted layout with ONE explicit count / row / column
    # replaced by the same value plus or minus a multiple of 2^32 (TLC's integers end at 2^31) must be diagnosed, whatever the low bits look like
    import random
    r = random.Random(chk.seed)
    acc = [c for i, c in enumerate(cases) if not c["expect"]["err"] and not out[i]["generate"].get("n_errors") and c["layout"]["kind"] in ("grid", "form")]
    wide_reqs, wide_meta = [], []
    for c in r.sample(acc, min(len(acc), 150 if quick else 1500)):
        l = c["layout"]
        spots = [("count", None)] if l["kind"] == "grid" and l["count"] else []
        spots += [(key, i) for i, k in enumerate(l["kids"]) for key in ("row", "col") if k[key] != NONE]
        if not spots:
            continue
        key, i = r.choice(spots)
        for off in (2 ** 32, 2 ** 33, -2 ** 32, 2 ** 40, 2 ** 31 + 2 ** 32) + ((-l["count"], -l["count"] - 1) if i is None else ()):      # a count of 0 / -1 too
            l2 = json.loads(json.dumps(l))
            if i is None:
                l2["count"] = l2["count"] + off
                if l2["count"] == 0:
                    l2["count"] = "0"       # (render() skips a falsy count)
            else:
                l2["kids"][i][key] = l2["kids"][i][key] + off
            wide_reqs.append({"id": len(wide_reqs), "src": render(l2), "type_name": "Doc", "modes": ["generate"]})
            wide_meta.append((key, off))
    wout = translate(wide_reqs)
    for q, (key, off) in zip(wide_reqs, wide_meta):
        run_ = wout[q["id"]]["generate"]
        chk.count({"wide": q["src"]}, nontrivial=True)
        if run_.get("panic") or run_.get("timeout") or run_.get("crash"):
            continue
        if not run_.get("n_errors"):
            chk.violation("a %s shifted by %d (far outside 0..65535) is accepted without a diagnostic" % (key, off), {"qml": q["src"], "ui": run_.get("ui")})
    chk.cov["out_of_range_variants"] = len(wide_reqs)
    chk.cov["programs"] = len(cases)
    chk.cov["traces_validated_against_impl"] = len(cases)
    chk.sample({"qml": render(cases[len(cases) // 3]["layout"]), "expected": cases[len(cases) // 3]["expect"]})
    chk.sample({"qml": render(cases[-1]["layout"]), "expected": cases[-1]["expect"]})
    chk.cov["trusted_base"] = ["expat", "TLC", "Layout.tla"]
    chk.assumptions += ["spans and alignment are copied verbatim (exercised by C09's grammar documents and the examples), not part of the placement model"]
