"""C07 -- any document yields output or diagnostics, never a crash or hang.

Spec: Totality.tla, the outcome automaton of one translation (parsed -> built -> serialised -> rendered | exit), judges every
recorded run of the real code: a panic, time-out, crash, silent failure, unserialisable form, unrenderable report, range
outside the text or inside a character, or an exit status other than 0/1 is a rejected trace.
Inputs: (G) TLC enumerates token soup (GenSoup.tla: every sequence of <= 2 and a seeded sample of 3 tokens of a 45-token
QML/JS alphabet) placed at three positions of a host document; (V) the corpus (examples, every document embedded in the
repository's tests, the documents of the other generators) and seeded mutants of it (token deletion / duplication / swap /
replacement, truncation at every byte, sub-tree splicing, multi-byte injection, nesting up to depth 100), and multi-file
projects with cyclic component inheritance.  Each x three modes in-process (catch_unwind, watchdog), the report rendered with
the project's own reporting code; a subset through the real binary for the exit status.
"""
import glob
import json
import os
import random
import re
import shutil
import subprocess
import tempfile
from concurrent.futures import ThreadPoolExecutor

from vlib import build_harness, build_cli, log, ToolError, translate, tlc, tlc_must_pass, write_ndjson, QT5_METATYPES, REPO
from vlib import catalog as C

RULE = ("case = (document text, mode) or (document text, command-line options); documents: token soup x 3 host positions, corpus, mutants, a comment at every token boundary of statement-rich documents, nesting, cyclic projects; "
        "non-trivial = the document is not byte-identical to a corpus document; distinct by text")
HEAD = "import qmluic.QtWidgets\n"
HOSTS = [HEAD + "QWidget { QCheckBox { id: chk } QLabel { id: a; text: %s } }\n",
         HEAD + "QWidget { QCheckBox { id: chk } QPushButton { id: a; onClicked: { %s } } }\n",
         HEAD + "QWidget { QCheckBox { id: chk } QLabel { id: a; %s } }\n"]
MODES = ["generate", "reject", "omit"]
TOKEN = re.compile(r'\s+|//[^\n]*|/\*.*?\*/|"(?:[^"\\\n]|\\.)*"|[A-Za-z_]\w*|\d+(?:\.\d+)?|.', re.S)
WORDS = ["if", "else", "return", "let", "const", "switch", "case", "default", "break", "function", "as", "new", "this", "null", "true", "undefined", "id", "property",
         "signal", "on", "import", "QWidget", "QLayout", "Qt", "chk", "checked", "text", "nope", "Math", "console", "qsTr", "parent"]
MULTI = ["é", "日本", "😀", " ", " ", "ｘ"]
ANSI = re.compile(r"\x1b\[[0-9;]*m")


def corpus():
    docs = {}
    for f in sorted(glob.glob(os.path.join(REPO, "examples", "**", "*.qml"), recursive=True)):
        docs["example:" + os.path.relpath(f, REPO)] = open(f).read()
    for f in sorted(glob.glob(os.path.join(REPO, "tests", "*.rs")) + glob.glob(os.path.join(REPO, "lib", "src", "**", "*.rs"), recursive=True)):
        for n, m in enumerate(re.finditer(r'r###"(.*?)"###', open(f).read(), re.S)):
            t = m.group(1)
            if "{" in t and "error:" not in t and "<ui " not in t and "#pragma" not in t:
                docs["test:%s:%d" % (os.path.relpath(f, REPO), n)] = t if "import" in t else HEAD + t
    names = sorted(C.CATALOG)
    for n in names:
        docs["catalogue:" + n] = C.build_document([n])[0]
    docs["catalogue:all"] = C.build_document(names)[0]
    from checks.c08 import WIDE
    from checks.c14 import KINDS
    for k, v in WIDE.items():
        docs["wide:" + k] = v
    for what, q in KINDS:
        docs["kind:" + what] = HEAD + q + "\n"
    return docs


def nesting(depth):
    d = depth
    return {
        "parens": HOSTS[0] % ("(" * d + "1" + ")" * d),
        "blocks": HOSTS[1] % ("{" * d + "a.text = \"x\"" + "}" * d),
        "objects": HEAD + "QWidget { " * min(d, 60) + "}" * min(d, 60) + "\n",
        "ternary": HOSTS[0] % ("chk.checked ? " * d + '"x"' + ' : "y"' * d),
        "unary": HOSTS[0] % ("-" * 1 + " -".join([""] * d) + "1"),
        "not": HOSTS[0].replace("text:", "wordWrap:") % ("!" * d + "chk.checked"),
        "members": HOSTS[0] % ("chk" + ".parent" * d),
        "arrays": HOSTS[0].replace("text:", "text2:") % ("[" * d + "]" * d),
        "ifs": HOSTS[1] % ("if (chk.checked) " * d + "a.text = \"x\""),
        "else-ifs": HOSTS[1] % ("if (chk.checked) {} else " * d + "{}"),
        "switches": HOSTS[1] % ("switch (1) { default: " * min(d, 40) + "}" * min(d, 40)),
        "calls": HOSTS[0] % ("qsTr(" * d + '"x"' + ")" * d),
        "plus": HOSTS[0] % ('"x"' + ' + "y"' * d),
        "unclosed": HOSTS[1] % ("{" * d),
        "unopened": HOSTS[1] % ("}" * d),
        "groups": HEAD + "QWidget { " + "font." * d + "bold: true }\n",
        "lets": HOSTS[1] % ("let v%d = %d; " * d % tuple(x for k in range(d) for x in (k, k))),
    }


def mutants(r, docs, n):
    keys = sorted(docs)
    small = [k for k in keys if len(docs[k]) <= 400]
    out = []
    blocks = []
    for k in r.sample(keys, min(len(keys), 40)):
        t = docs[k]
        for m in re.finditer(r"\{[^{}]*\}", t):
            blocks.append(m.group(0))
    while len(out) < n:
        k = r.choice(keys if r.random() < 0.6 else small)
        t = docs[k]
        toks = TOKEN.findall(t)
        idx = [i for i, x in enumerate(toks) if not x.isspace()]
        if len(idx) < 3:
            continue
        op = r.choice(["del", "dup", "swap", "word", "trunc", "splice", "multi", "multi2", "delrange", "quote"])
        i = r.choice(idx)
        if op == "del":
            toks[i] = ""
        elif op == "dup":
            toks[i] = toks[i] + " " + toks[i]
        elif op == "swap":
            j = r.choice(idx)
            toks[i], toks[j] = toks[j], toks[i]
        elif op == "word":
            ids = [x for x in idx if re.match(r"[A-Za-z_]", toks[x])]
            if not ids:
                continue
            toks[r.choice(ids)] = r.choice(WORDS)
        elif op == "trunc":
            b = t.encode()
            cut = r.randrange(len(b))
            while cut > 0 and (b[cut] & 0xC0) == 0x80:
                cut -= 1
            out.append(("trunc", b[:cut].decode()))
            continue
        elif op == "splice":
            ms = list(re.finditer(r"\{[^{}]*\}", t))
            if not ms or not blocks:
                continue
            m = r.choice(ms)
            out.append(("splice", t[:m.start()] + r.choice(blocks) + t[m.end():]))
            continue
        elif op == "multi":
            toks[i] = r.choice(MULTI) + toks[i] if r.random() < 0.5 else toks[i] + r.choice(MULTI)
        elif op == "multi2":
            # multi-byte text next to an error site: an unknown name with non-ASCII neighbours
            toks[i] = r.choice(MULTI) + " nope " + r.choice(MULTI)
        elif op == "delrange":
            j = min(len(toks), i + r.randrange(1, 8))
            toks[i:j] = []
        elif op == "quote":
            toks[i] = r.choice(['"', "'", "`", "/*", "*/", "\\", "${"])
        out.append((op, "".join(toks)))
    return out


RICH = {
    "rich:handler": HEAD + """QWidget { QCheckBox { id: chk } QSpinBox { id: spin } QPushButton { id: a; onClicked: {
    switch (spin.value) { case 1: a.text = "1"; break; case 2: case 3: a.text = "23"; break; default: a.text = "d" }
    if (chk.checked) { return } else if (!chk.checked) a.text = "e";
    let v = spin.value + 1; a.text = v > 2 ? "x" : qsTr("y")
    switch (a.text) { default: break; case "x": chk.checked = true }
} } }
""",
    "rich:binding": HEAD + """QWidget { QCheckBox { id: chk } QSpinBox { id: spin } QLabel { id: a
    text: { switch (spin.value) { case 1: return "1"; case 2: return "2"; default: return "d" } }
    enabled: chk.checked && (spin.value > 1 || !chk.checked) ? true : false
    toolTip: qsTr("v %1").arg(Math.max(spin.value, 3) as int)
    font.bold: chk.checked; font { italic: true; pointSize: spin.value }
    QLayout.alignment: Qt.AlignLeft | Qt.AlignTop
} }
""",
}


# declarations without initialiser, typed and untyped, read before / after / without assignment, in bindings and handlers
DECLS = ["let s: QString; s", "let s: QString; return s", "let n: int; n", "let b: bool; return b", "let s: QString; if (chk.checked) { s = \"x\" } return s",
         "let s: QString = \"i\"; s", "let n: int = 1; n + 1", "let s; s", "let s; return 1", "const c: int = 2; c", "const c: int; c", "let p: QWidget; p", "let p: QLabel = a; p",
         "let n: int; n = 1; n", "let x: Nope; x", "let n: int = \"s\"; n", "let a: int; a", "let chk: bool; chk", "let n: int, m: int; n + m", "let n: int, m = 2; m"]


def comments_everywhere(text):
    """a comment at every token boundary: comments must never matter"""
    toks = TOKEN.findall(text)
    out = []
    for i in range(len(toks) + 1):
        if i < len(toks) and toks[i].isspace():
            continue
        for c in ("/* c */", "// c\n"):
            out.append("".join(toks[:i]) + c + "".join(toks[i:]))
    return out


def truncations(text):
    b = text.encode()
    return [b[:k].decode() for k in range(len(b)) if (b[k] & 0xC0) != 0x80]


PROJECTS = [
    ("self inheritance", {"S.qml": HEAD + 'S { windowTitle: "t"; nope: 1; onNope: {} }\n'}, "S.qml"),
    ("mutual inheritance", {"A.qml": HEAD + "B { }\n", "B.qml": HEAD + "A { }\n", "M.qml": HEAD + 'QWidget { A { windowTitle: "x"; nope: 2 } B { onNope: {} } QLabel { text: a.nope; A { id: a } } }\n'}, "M.qml"),
    ("3-cycle", {"A.qml": HEAD + "B { }\n", "B.qml": HEAD + "C { }\n", "C.qml": HEAD + "A { }\n", "M.qml": HEAD + "QWidget { QVBoxLayout { A { } B { QLayout.row: 1 } } }\n"}, "M.qml"),
    ("cycle behind a good component", {"A.qml": HEAD + "QLabel { }\n", "B.qml": HEAD + "B { }\n", "M.qml": HEAD + 'QWidget { A { text: "x" } B { text: "y" } A { enabled: b.nope } B { id: b } }\n'}, "M.qml"),
    ("cycle through directories", {"a/M.qml": HEAD + 'import "../b"\nQWidget { B { windowTitle: "x" } }\n', "b/B.qml": HEAD + 'import "../a"\nA { }\n', "a/A.qml": HEAD + 'import "../b"\nB { }\n'}, "a/M.qml"),
    ("component with syntax error", {"A.qml": HEAD + "QLabel { text: }\n", "M.qml": HEAD + 'QWidget { A { text: "x" } }\n'}, "M.qml"),
    ("component without root", {"A.qml": HEAD, "E.qml": "", "M.qml": HEAD + "QWidget { A { } E { } }\n"}, "M.qml"),
    ("document named like a Qt class", {"QLabel.qml": HEAD + 'QLabel { text: "x" }\n'}, "QLabel.qml"),
]


def boundaries(text):
    b = text.encode()
    return b, len(b)


def events(res, text):
    b = text.encode()
    n = len(b)

    def rng(s, e):
        return [s, e, 0 <= s <= n and (s == n or (b[s] & 0xC0) != 0x80), 0 <= e <= n and (e == n or (b[e] & 0xC0) != 0x80)]
    for how in ("panic", "timeout", "crash"):
        if res.get(how):
            return [{"e": "died", "how": "%s: %s" % (how, str(res.get(how))[:160])}]
    if res.get("load_error"):
        return [{"e": "died", "how": "load error: " + str(res["load_error"])}]
    evs = [{"e": "parsed", "len": res.get("src_len", n), "syntax": bool(res["syntax_error"]), "nsyn": len(res["syntax_errors"]),
            "ranges": [rng(s, e) for s, e, _ in res["syntax_errors"]]}]
    ranges = []
    for d in res["diags"]:
        ranges.append(rng(d["s"], d["e"]))
        for l in d.get("labels", []):
            ranges.append(rng(l[0], l[1]))
    evs.append({"e": "built", "form": bool(res["built"]), "nerr": res["n_errors"], "nwarn": len(res["diags"]) - res["n_errors"], "ranges": ranges})
    if res["built"]:
        evs.append({"e": "serialised", "ui": "ui" in res, "header": "ok" if "header" in res else ("error" if "header_error" in res else "none")})
    if "render_bytes" in res or "render_error" in res:
        evs.append({"e": "rendered", "ok": "render_bytes" in res})
    return evs


def cli_run(qmluic, work, k, text, opts, files=None, main="X.qml"):
    d = tempfile.mkdtemp(prefix="c07-%d-" % k, dir=work)
    try:
        for name, t in (files or {main: text}).items():
            os.makedirs(os.path.dirname(os.path.join(d, name)) or d, exist_ok=True)
            open(os.path.join(d, name), "w").write(t)
        before = {os.path.join(r_, f) for r_, _, fs in os.walk(d) for f in fs}
        try:
            p = subprocess.run([qmluic, "generate-ui", "--foreign-types", QT5_METATYPES] + opts + [main], cwd=d, capture_output=True, text=True, timeout=30, errors="replace")
        except subprocess.TimeoutExpired:
            return [{"e": "died", "how": "the command line tool did not finish within 30 s"}], ""
        after = {os.path.join(r_, f) for r_, _, fs in os.walk(d) for f in fs}
        err = ANSI.sub("", p.stderr)
        return [{"e": "exit", "code": p.returncode if p.returncode >= 0 else 0, "signal": -p.returncode if p.returncode < 0 else 0,
                 "nout": len(after - before), "nreports": len(re.findall(r"^error", err, re.M))}], err[-600:]
    finally:
        shutil.rmtree(d, ignore_errors=True)


def run(chk):
    build_harness()
    qmluic = build_cli()
    quick = chk.tier == "quick"
    r = random.Random(chk.seed)
    g = tlc("GenSoup", env={"MAXLEN": 3, "LIMIT": 1500 if quick else 40000}, workers=1, seed=chk.seed, timeout=1800, coverage=False)
    tlc_must_pass(g, "GenSoup")
    soups = g.printed("SOUP")
    if len(soups) < 2000:
        raise ToolError("GenSoup produced %d token sequences" % len(soups))
    base = corpus()
    inputs = []      # (origin, text, nontrivial)
    for k, t in base.items():
        inputs.append((k, t, False))
    for s in soups:
        for h, host in enumerate(HOSTS):
            inputs.append(("soup@%d" % h, host % " ".join(s), True))
    for what, t in nesting(100).items():
        inputs.append(("nesting:" + what, t, True))
    for what, t in nesting(17).items():
        inputs.append(("nesting17:" + what, t, True))
    for op, t in mutants(r, base, 1500 if quick else 40000):
        inputs.append(("mutant:" + op, t, True))
    for k in (r.sample([k for k in sorted(base) if len(base[k]) < 350], 2 if quick else 25)) + ["kind:separator with handler"]:
        for t in truncations(base[k]):
            inputs.append(("truncation of " + k, t, True))
    for k, t in RICH.items():
        inputs.append((k, t, True))
        for m in comments_everywhere(t):
            inputs.append(("comment in " + k, m, True))
        for m in truncations(t)[::1 if not quick else 3]:
            inputs.append(("truncation of " + k, m, True))
    for k in (["kind:root handler", "wide:warnings"] if quick else ["kind:root handler", "wide:warnings", "wide:dynamic", "wide:const", "wide:errors"]):
        for m in comments_everywhere(base[k]):
            inputs.append(("comment in " + k, m, True))
    for k, dcl in enumerate(DECLS):
        for h in (0, 1):
            inputs.append(("declaration %d@%d" % (k, h), (HOSTS[0] % ("{ %s }" % dcl)) if h == 0 else (HOSTS[1] % dcl), True))
        inputs.append(("declaration %d@int" % k, HOSTS[0].replace("text:", "indent:") % ("{ %s }" % dcl), True))
    # function values where a value is expected and values where a function is usual: every property position x every function shape
    FUNCS = ["function(on: bool) { return chk.checked }", "(n: int) => n", "function(n: int) { return n + 1 }", "function() { return \"x\" }", "() => chk.checked", "(s: QString) => s",
             "function(a: int, b: int) { return a + b }", "function(x: Nope) { return 1 }", "function(on: bool) { }", "(n: int) => { return chk.checked ? n : 0 }", "function f(n: int) { return n }",
             "async function(n: int) { return n }", "function*(n: int) { return n }", "(n) => n", "function(n: int = 1) { return n }", "(...n) => 1"]
    for f in FUNCS:
        for pos in ("QLabel { text: %s }", "QLabel { enabled: %s }", "QLabel { indent: %s }", "QLabel { font.pointSize: %s; font.bold: chk.checked }", "QLabel { font { bold: %s; italic: chk.checked } }",
                    "QVBoxLayout { spacing: %s }", "QGridLayout { QLabel { QLayout.row: %s } }", "QLabel { buddy: %s }", "QComboBox { model: %s }", "QLabel { geometry { x: %s; y: chk.checked ? 1 : 2 } }",
                    "QTableView { horizontalHeader.visible: %s }", "QPushButton { onClicked: %s }", "QCheckBox { onToggled: %s }", "QLabel { id: %s }"):
            inputs.append(("function value", HEAD + "QWidget { QCheckBox { id: chk } %s }\n" % (pos % f), True))
    # integer constants at the edges of the 64-bit range under every operator (folded at translation time): diagnosed or folded, never a crash
    EDGE = ["(-9223372036854775807 - 1)", "9223372036854775807", "~0x7fffffffffffffff", "-1", "(0 - 1)", "0", "1", "2", "63", "64", "-64", "4294967296"]
    for op in ("+", "-", "*", "/", "%", "<<", ">>", "&", "|", "^", "<", "=="):
        for a in EDGE:
            for b in EDGE:
                inputs.append(("integer edge", HEAD + "QWidget { QCheckBox { id: chk } QSpinBox { value: %s %s %s; onValueChanged: { let code = %s %s %s; } } }\n" % (a, op, b, a, op, b), True))
    for a in EDGE:
        inputs.append(("integer edge", HEAD + "QWidget { QCheckBox { id: chk } QSpinBox { value: -%s; minimum: ~%s; maximum: +%s; singleStep: (%s) as int } }\n" % (a, a, a, a), True))
    # zero / negative / huge layout counts and indices; object names outside ASCII on objects that need support code
    for cnt in ("0", "-1", "65536", "65537", "4294967296", "1.5", "\"2\"", "true", "chk.checked ? 1 : 2"):
        for flow in ("columns: %s", "flow: QGridLayout.TopToBottom; rows: %s", "rows: %s", "flow: QGridLayout.TopToBottom; columns: %s"):
            inputs.append(("layout count", HEAD + "QWidget { QCheckBox { id: chk } QGridLayout { %s; QLabel { } QLabel { QLayout.row: 1 } QLabel { } } }\n" % (flow % cnt), True))
    for ix in ("0", "-1", "65535", "65536", "2147483648", "-2147483649", "1.0", "null"):
        for m in ("row", "column", "rowSpan", "columnSpan", "rowStretch", "columnStretch", "rowMinimumHeight", "columnMinimumWidth"):
            inputs.append(("layout index", HEAD + "QWidget { QGridLayout { QLabel { QLayout.%s: %s } QLabel { } } QFormLayout { QLabel { QLayout.%s: %s } } QVBoxLayout { QLabel { QLayout.%s: %s } } }\n" % (m, ix, m, ix, m, ix), True))
    for name in ("überschrift", "消去", "éa", "Ωmega", "_x", "x_", "a1", "ß", "ı", "ǆ", "a\u0301b", "x٣"):
        inputs.append(("non-ascii id binding", HEAD + "QWidget { QCheckBox { id: chk } QLabel { id: %s; enabled: chk.checked; onLinkActivated: { chk.checked = true } } QLabel { text: %s.text } }\n" % (name, name), True))
        inputs.append(("non-ascii id buddy", HEAD + "QWidget { QLineEdit { id: %s } QLabel { buddy: %s; windowTitle: %s.text } }\n" % (name, name, name), True))
    inputs += [("edge:self action", HEAD + "QMenu { actions: [menuAction()] }\n", True), ("edge:this action", HEAD + "QWidget { QMenu { actions: [this.menuAction()] } }\n", True),
               ("edge:this buddy", HEAD + "QWidget { QLabel { buddy: this } }\n", True)]
    inputs += [("edge:empty", "", True), ("edge:nul", "\x00", True), ("edge:bom", "﻿" + base["kind:nothing dynamic"], True), ("edge:only import", HEAD, True),
               ("edge:crlf", base["kind:root handler"].replace("\n", "\r\n"), True), ("edge:long line", HOSTS[0] % ('"' + "x" * 100000 + '"'), True),
               ("edge:many objects", HEAD + "QWidget { " + "QLabel { } " * 3000 + "}\n", True), ("edge:tabs", HOSTS[0] % "\t\"x\"\t", True)]
    seen, reqs = set(), []
    for origin, t, nt in inputs:
        if t in seen:
            continue
        seen.add(t)
        reqs.append({"id": len(reqs), "src": t, "type_name": "Doc", "modes": MODES, "render": True, "origin": origin, "nt": nt})
    for what, files, main in PROJECTS:
        reqs.append({"id": len(reqs), "files": files, "path": main, "type_name": "Doc", "modes": MODES, "render": True, "origin": "project:" + what, "nt": True, "src": files[main]})
    log("C07: %d documents (%d soup sequences, corpus %d)" % (len(reqs), len(soups), len(base)))
    out = translate([{k: v for k, v in q.items() if k not in ("origin", "nt") and not (k == "src" and "files" in q)} for q in reqs], metatypes=[QT5_METATYPES], deadline=10)
    recs, back = [], []
    for q in reqs:
        for mode in MODES:
            res = out[q["id"]][mode]
            recs.append({"id": len(recs) + 1, "mode": mode, "evs": events(res, q["src"])})
            back.append({"origin": q["origin"], "mode": mode, "qml": q["src"], "files": q.get("files"), "via": "library",
                         "result": {k: v for k, v in res.items() if k in ("panic", "timeout", "crash", "n_errors", "syntax_error", "built", "render_error", "ui_error", "header_error")}})
            chk.count({"src": q["src"], "files": q.get("files"), "mode": mode}, nontrivial=q["nt"])
    # ---- the real binary: exit status
    pick = [q for q in reqs if not q["origin"].startswith("soup")]
    pick = r.sample(pick, min(len(pick), 250 if quick else 4000)) + r.sample([q for q in reqs if q["origin"].startswith("soup")], 150 if quick else 3000)
    pick += [q for q in reqs if q["origin"].startswith(("project:", "nesting", "edge"))]
    jobs = [(k, q, opts) for k, q in enumerate(pick) for opts in ([], ["--no-dynamic-binding"])]
    with ThreadPoolExecutor(12) as ex:
        results = list(ex.map(lambda j: cli_run(qmluic, chk.work, j[0], j[1]["src"], j[2], j[1].get("files"), j[1].get("path", "X.qml")), jobs))
    for (k, q, opts), (evs, err) in zip(jobs, results):
        recs.append({"id": len(recs) + 1, "mode": "reject" if opts else "generate", "evs": evs})
        back.append({"origin": q["origin"], "mode": "cli " + " ".join(opts), "qml": q["src"], "files": q.get("files"), "via": "command line", "stderr": err, "result": evs[0]})
        chk.count({"cli": q["src"], "files": q.get("files"), "opts": opts}, nontrivial=q["nt"])
    # ---- TLC judges every run
    rejected = {}
    size = 12000
    chunks = [recs[i:i + size] for i in range(0, len(recs), size)]

    def judge(c):
        n, part = c
        path = os.path.join(chk.work, "runs-%d.ndjson" % n)
        write_ndjson(path, part)
        rt = tlc("TraceTotality", env={"RECS": path}, workers=3, timeout=3000, heap="6g", extra=["-continue"], coverage=False)
        if rt.distinct != len(part):
            raise ToolError("TraceTotality judged %d of %d records: %s" % (rt.distinct, len(part), rt.out[-2000:]))
        os.unlink(path)
        return rt
    with ThreadPoolExecutor(4) as ex:
        for rt in ex.map(judge, list(enumerate(chunks))):
            chk.add_tlc(rt)
            for x in rt.printed("REJECT"):
                rejected[x["id"]] = x["why"]
    chk.cov["traces_validated_against_impl"] = len(recs)
    by_why = {}
    for rid, why in sorted(rejected.items()):
        b = back[rid - 1]
        key = (why.split(":")[0], b["origin"].split(":")[0].split("@")[0], b["via"])
        by_why.setdefault(key, []).append((rid, why, b))
    for key, items in sorted(by_why.items()):
        # one violation per (reason, input family): the smallest input is the replay
        rid, why, b = min(items, key=lambda x: len(x[2]["qml"]))
        chk.violation("%s [%s, %s, %s; %d runs like this]" % (why[:200], b["origin"], b["mode"], b["via"], len(items)), dict(b, why=why, runs_like_this=len(items), events=recs[rid - 1]["evs"]))
    chk.cov["documents"] = len(reqs)
    chk.cov["soup_sequences"] = len(soups)
    chk.cov["cli_invocations"] = len(jobs)
    chk.cov["outcomes"] = {"with_syntax_errors": sum(1 for x in recs if x["evs"][0].get("syntax")), "with_form": sum(1 for x in recs if len(x["evs"]) > 1 and x["evs"][1].get("form")),
                           "with_error_diagnostics": sum(1 for x in recs if len(x["evs"]) > 1 and x["evs"][1].get("nerr", 0) > 0),
                           "cli_exit_0": sum(1 for x in recs if x["evs"][0].get("e") == "exit" and x["evs"][0]["code"] == 0),
                           "cli_exit_1": sum(1 for x in recs if x["evs"][0].get("e") == "exit" and x["evs"][0]["code"] == 1)}
    chk.cov["programs"] = len(recs)
    chk.sample({"record": recs[5], "origin": back[5]["origin"]})
    chk.cov["trusted_base"] = ["catch_unwind + watchdog of the harness", "UTF-8 boundary computation in the driver", "TLC", "the project's reporting module + codespan for rendering"]
    chk.assumptions += ["nesting depth <= 100: recursion depth is not bounded by the implementation, stack exhaustion on adversarial depth is outside the claim",
                        "exploration is TLC-enumerated token soup plus seeded mutation; TLC is the judge of every run, not the explorer of the text space"]
