"""C15 -- generate-ui writes only where it should, atomically, and only when needed.

M leg: FsWrite.tla (one action per system call of the output protocol, crash between any two, re-runs after edits) is
model-checked exhaustively: every output path holds old-or-new content in every reachable state.
V leg: real runs of the binary under strace; the system-call log, filtered to the run's private directory tree, is validated
action by action against FsWrite.tla (TraceFsWrite.tla) together with content snapshots after every process.  Path shapes x
options decide where outputs may appear (confinement, naming, refusal of absolute / parent-escaping sources); histories check
that unchanged outputs keep inode and mtime.  Crash points: system calls of a regenerating run are turned into kills
(strace fault injection) and the outputs must hold old or new complete content.
"""
import hashlib
import json
import os
import random
import re
import shutil
import subprocess
import tempfile

from vlib import build_cli, log, ToolError, tlc, tlc_must_pass, write_ndjson, QT5_METATYPES

RULE = ("case = (source path shapes, options, history step) or kill point; shapes: plain, ./, sub-directory, d/./e, d/../, absolute, symlinked directory, "
        "mixed-case file and directory names, two sources x -O {none, out, out/deep, ., absolute} x --no-dynamic-binding x --no-lowercase-file-name; histories: "
        "generate, re-generate, output-preserving edit, output-changing edit, header-only edit, failing edit; kill points: (system call, n) of a regenerating run; "
        "non-trivial = history step >= 1 or a kill point; distinct by JSON")

HEAD = "import qmluic.QtWidgets\n"
TEXTS = {
    True: {"v1": HEAD + 'QWidget { QCheckBox { id: c } QLabel { text: c.checked ? "a" : "b" } }\n',
           "v2": HEAD + 'QWidget { windowTitle: "t"; QCheckBox { id: c } QLabel { text: c.checked ? "a" : "bb" } }\n',
           "v3": HEAD + 'QWidget { QCheckBox { id: c } QLabel { text: c.checked ? "x" : "b" } }\n',        # same .ui as v1, other header
           "v4": HEAD + 'QWidget { windowTitle: "u"; QCheckBox { id: c } QLabel { text: c.checked ? "a" : "bc" } }\n',      # both outputs differ from v2's, in one byte each, same lengths
           "bad": HEAD + 'QWidget { QCheckBox { id: c } QLabel { text: c.nothing } }\n'},
    False: {"v1": HEAD + 'QWidget { QCheckBox { id: c } QLabel { text: "a" } }\n',
            "v2": HEAD + 'QWidget { windowTitle: "t"; QCheckBox { id: c } QLabel { text: "bb" } }\n',
            "v3": HEAD + 'QWidget { QCheckBox { id: c } QLabel { text: "a"; enabled: true } }\n',
            "v4": HEAD + 'QWidget { windowTitle: "u"; QCheckBox { id: c } QLabel { text: "bc" } }\n',      # differs from v2's .ui in two bytes, same length
            "bad": HEAD + 'QWidget { QCheckBox { id: c } QLabel { text: c.checked ? "a" : "b" } }\n'},        # dynamic: rejected in this mode
}
COMMENT = "// a comment that does not change any output\n"
SYSCALLS = ("openat,open,creat,write,pwrite64,writev,fchmod,fchmodat,chmod,rename,renameat,renameat2,mkdir,mkdirat,unlink,unlinkat,rmdir,"
            "link,linkat,symlink,symlinkat,truncate,ftruncate,copy_file_range,sendfile")
LINE = re.compile(r"^(\d+) +(\w+)\((.*)\) += +(-?\d+|\?)(.*)$")
ROLES = [("ui", "h"), ("ui2", "h2")]


def sha(b):
    return hashlib.sha1(b).hexdigest()[:12]


def canon(p, cwd):
    """absolute path with the directory part resolved (symlinks, dots); the last component is kept as written"""
    p = p if os.path.isabs(p) else os.path.join(cwd, p)
    return os.path.join(os.path.realpath(os.path.dirname(p)), os.path.basename(p))


def parse_strace(path, root, cwd):
    """events of one process tree restricted to paths under root (the run's private directory)"""
    evs = []
    root = os.path.realpath(root)

    def under(p):
        return p is not None and (canon(p, cwd) + os.sep).startswith(root + os.sep)

    def istmp(p):
        return os.path.basename(p).startswith(".tmp")
    for line in open(path, errors="replace"):
        m = LINE.match(line.rstrip())
        if not m:
            continue
        call, args, ret = m.group(2), m.group(3), m.group(4)
        if ret == "?":
            continue        # the process was killed on entry to this call: it did not happen
        strs = re.findall(r'"((?:[^"\\]|\\.)*)"', args)
        fdpath = re.match(r"\d+<([^>]*)>", args)
        fdpath = fdpath.group(1) if fdpath and fdpath.group(1).startswith("/") else None       # not pipes, sockets, ...
        ok = ret != "-1"
        if call in ("openat", "open", "creat"):
            p = strs[0] if strs else None
            if not under(p):
                continue
            writing = any(f in args for f in ("O_WRONLY", "O_RDWR", "O_TRUNC", "O_CREAT", "O_APPEND")) or call == "creat"
            if not writing:
                if "O_DIRECTORY" not in args:
                    evs.append({"ev": "read", "path": canon(p, cwd)})
            elif "O_EXCL" in args and "O_CREAT" in args and istmp(p):
                if ok:
                    evs.append({"ev": "mktemp", "t": canon(p, cwd)})
            else:
                evs.append({"ev": "other", "what": "%s(%s) for writing" % (call, p)})
        elif call in ("write", "pwrite64", "writev"):
            if fdpath and under(fdpath):
                evs.append({"ev": "write", "t": canon(fdpath, cwd), "n": int(ret) if ok else 0} if istmp(fdpath) and call == "write" else
                           {"ev": "other", "what": "%s to %s" % (call, fdpath)})
        elif call == "fchmod":
            if fdpath and under(fdpath):
                evs.append({"ev": "chmod", "t": canon(fdpath, cwd)} if istmp(fdpath) else {"ev": "other", "what": "fchmod %s" % fdpath})
        elif call in ("rename", "renameat", "renameat2"):
            if len(strs) >= 2 and (under(strs[0]) or under(strs[1])):
                if ok:
                    evs.append({"ev": "rename", "t": canon(strs[0], cwd), "path": canon(strs[1], cwd)})
        elif call in ("mkdir", "mkdirat"):
            if strs and under(strs[0]):
                evs.append({"ev": "mkdir", "path": canon(strs[0], cwd), "ok": ok})
        elif call in ("unlink", "unlinkat") and strs and under(strs[0]) and istmp(strs[0]):
            if ok:
                evs.append({"ev": "unlink", "t": canon(strs[0], cwd)})
        elif any(under(s) for s in strs if s) or (fdpath and under(fdpath)):
            evs.append({"ev": "other", "what": "%s(%s)" % (call, args[:120])})
    return evs


class Sandbox:
    def __init__(self, chk, qmluic):
        self.chk, self.qmluic = chk, qmluic
        self.dir = os.path.realpath(tempfile.mkdtemp(prefix="c15-", dir=chk.work))
        self.n = 0

    def run(self, argv, inject=None, cwd=None, fsize_blocks=None):
        self.n += 1
        cwd = cwd or self.dir
        logf = os.path.join(self.chk.work, "strace-%s-%d.log" % (os.path.basename(self.dir), self.n))
        cmd = ["strace", "-f", "-qq", "-y", "-s", "256", "-o", logf, "-e", "trace=" + SYSCALLS]
        if inject:
            cmd += ["-e", "inject=%s:signal=KILL:when=%d" % inject]
        tool = [self.qmluic, "generate-ui", "--foreign-types", QT5_METATYPES] + argv
        if fsize_blocks is not None:
            # the tracee alone gets a file size limit (512-byte blocks) with SIGXFSZ ignored: write() then returns a short count and EFBIG afterwards
            tool = ["sh", "-c", 'trap "" XFSZ; ulimit -f %d; exec "$@"' % fsize_blocks, "sh"] + tool
        cmd += tool
        p = subprocess.run(cmd, cwd=cwd, env=dict(os.environ, NO_COLOR="1"), capture_output=True, text=True, timeout=120)
        evs = parse_strace(logf, self.dir, cwd)
        os.unlink(logf)
        return p.returncode, evs, p.stderr

    def files(self):
        """path -> (content hash, inode, mtime) of every regular file in the tree"""
        res = {}
        for root, dirs, files in os.walk(self.dir):
            for f in files:
                p = os.path.join(root, f)
                if not os.path.islink(p):
                    st = os.stat(p)
                    res[p] = (sha(open(p, "rb").read()), st.st_ino, st.st_mtime_ns)
        return res

    def close(self):
        shutil.rmtree(self.dir, ignore_errors=True)


def to_trace(evs, exp, ids_before, want, sizes, rc, ids_after, killed):
    """map parsed events to FsWrite events (roles instead of paths); returns (events, problems)"""
    role = {p: r for r, p in exp.items()}
    trace = [{"ev": "reset", "fs": ids_before, "want": want}]
    probs = []
    written = {}
    tmp_role = {e["t"]: role[e["path"]] for e in evs if e["ev"] == "rename" and e["path"] in role}
    out_dirs = {os.path.dirname(p) for p in exp.values()}
    dirs_ok = set()
    for d in out_dirs:
        while len(d) > 1:
            dirs_ok.add(d)
            d = os.path.dirname(d)
    for e in evs:
        if e["ev"] == "read":
            if e["path"] in role:
                trace.append({"ev": "read", "p": role[e["path"]]})
        elif e["ev"] == "mkdir":
            if e["path"] not in dirs_ok and e["ok"]:
                probs.append("directory created outside the output locations: %s" % e["path"])
            trace.append({"ev": "mkdir"})
        elif e["ev"] == "mktemp":
            if os.path.dirname(e["t"]) not in out_dirs:
                probs.append("temporary file created outside the output directories: %s" % e["t"])
            trace.append({"ev": "mktemp", "t": e["t"]})
        elif e["ev"] == "write":
            written[e["t"]] = written.get(e["t"], 0) + e["n"]
            r = tmp_role.get(e["t"])
            # without a rename (killed run) the temp's destination is unknown: complete if it matches any wanted size
            full = (written[e["t"]] == sizes.get(r)) if r else (written[e["t"]] in sizes.values())
            trace.append({"ev": "write", "t": e["t"], "complete": full})
        elif e["ev"] == "chmod":
            trace.append({"ev": "chmod", "t": e["t"]})
        elif e["ev"] == "unlink":
            trace.append({"ev": "unlink", "t": e["t"]})
        elif e["ev"] == "rename":
            if e["path"] not in role:
                probs.append("rename to a path that is not an expected output: %s -> %s" % (e["t"], e["path"]))
                trace.append({"ev": "other", "what": "rename to %s" % e["path"]})
            else:
                trace.append({"ev": "rename", "t": e["t"], "p": role[e["path"]]})
        else:
            trace.append({"ev": "other", "what": e.get("what", "")})
    trace.append({"ev": "killed"} if killed else {"ev": "exit", "code": rc})
    trace.append({"ev": "snapshot", "fs": ids_after})
    return trace, probs


def content_ids(files, exp, versions):
    """role -> "absent" | version id | "corrupt-<hash>" for every role of the model"""
    res = {}
    for pair in ROLES:
        for r in pair:
            p = exp.get(r)
            res[r] = "absent" if p is None or p not in files else versions.get((r, files[p][0]), "corrupt-" + files[p][0])
    return res


def reference(chk, qmluic, stem, text, lowercase, dynamic):
    """the files a translation of `text` as <stem>.qml produces in a pristine directory: name -> bytes"""
    d = tempfile.mkdtemp(prefix="ref-", dir=chk.work)
    try:
        open(os.path.join(d, stem + ".qml"), "w").write(text)
        argv = [stem + ".qml"] + ([] if dynamic else ["--no-dynamic-binding"]) + ([] if lowercase else ["--no-lowercase-file-name"])
        p = subprocess.run([qmluic, "generate-ui", "--foreign-types", QT5_METATYPES] + argv, cwd=d, capture_output=True, text=True)
        if p.returncode != 0:
            raise ToolError("reference translation failed: " + p.stderr[-300:])
        return {f: open(os.path.join(d, f), "rb").read() for f in os.listdir(d) if not f.endswith(".qml")}
    finally:
        shutil.rmtree(d, ignore_errors=True)


STEPS1 = [("generate", ["v1"]), ("re-generate", ["v1"]), ("edit, same outputs", ["v1c"]), ("edit, other outputs", ["v2"]), ("edit, only the header changes", ["v3"]),
          ("re-generate", ["v3"]), ("failing edit", ["bad"]), ("repair", ["v1"]), ("edit, other outputs", ["v2"]), ("edit, outputs of the same length", ["v4"]), ("back", ["v2"])]
STEPS2 = [("generate", ["v1", "v1"]), ("re-generate", ["v1", "v1"]), ("edit second", ["v1", "v2"]), ("edit first", ["v3", "v2"]), ("second fails", ["v1", "bad"]),
          ("first fails", ["bad", "v3"]), ("repair", ["v2", "v3"]), ("re-generate", ["v2", "v3"]), ("edit first, same length", ["v4", "v3"]), ("swap", ["v2", "v4"])]


def history(chk, qmluic, srcs, outdir, lowercase, dynamic, traces, back, steps=None):
    steps = steps or (STEPS1 if len(srcs) == 1 else STEPS2)
    sb = Sandbox(chk, qmluic)
    try:
        cwd = sb.dir
        if any(s.startswith("../") for s in srcs):
            cwd = os.path.join(sb.dir, "work")
            os.makedirs(cwd)
        arg_out = None if outdir is None else (os.path.join(sb.dir, "absout") if outdir == "ABSOUT" else outdir)
        arg_srcs = [os.path.join(sb.dir, "abs", "X.qml") if s == "ABS" else s for s in srcs]
        argv = arg_srcs + (["-O", arg_out] if arg_out else []) + ([] if lowercase else ["--no-lowercase-file-name"]) + ([] if dynamic else ["--no-dynamic-binding"])
        texts = dict(TEXTS[dynamic])
        texts["v1c"] = texts["v1"] + COMMENT
        refuse = arg_out is not None and any(os.path.isabs(a) or ".." in a.split("/") for a in arg_srcs)
        srcpaths, exp, info, versions = [], {}, [], {}
        if any(s.startswith("link/") for s in srcs):
            os.makedirs(os.path.join(sb.dir, "real"))
            os.symlink("real", os.path.join(sb.dir, "link"))
        if any("d/.." in s for s in srcs):
            os.makedirs(os.path.join(sb.dir, "d"), exist_ok=True)
        for k, a in enumerate(arg_srcs):
            stem = os.path.basename(a)[:-4]
            out_stem = stem.lower() if lowercase else stem
            nm = {ROLES[k][0]: out_stem + ".ui", ROLES[k][1]: "uisupport_" + out_stem + ".h"}
            os.makedirs(os.path.dirname(canon(a, cwd)), exist_ok=True)
            srcpaths.append(canon(a, cwd))
            if not refuse:
                root = cwd if arg_out is None else os.path.join(cwd, arg_out)
                dd = os.path.dirname(a) if os.path.isabs(a) else os.path.join(root, os.path.dirname(a))
                exp[ROLES[k][0]] = os.path.join(dd, nm[ROLES[k][0]])
                if dynamic:
                    exp[ROLES[k][1]] = os.path.join(dd, nm[ROLES[k][1]])
            inf = {}
            for vid in sorted({s[1][k] for s in steps} - {"bad", "v1c"}):
                got = reference(chk, qmluic, stem, texts[vid], lowercase, dynamic)
                inf[vid] = {}
                for r, n in nm.items():
                    if n in got:
                        inf[vid][r] = (versions.setdefault((r, sha(got[n])), vid), len(got[n]))      # versions with the same bytes share an id
                stray = set(got) - set(nm.values())
                if stray:
                    chk.violation("translation of %s.qml creates unexpected files %s" % (stem, sorted(stray)), {"argv": argv, "files": sorted(got)})
            inf["v1c"] = inf["v1"]
            info.append(inf)
        for n, (what, vids) in enumerate(steps):
            for k, sp in enumerate(srcpaths):
                open(sp, "w").write(texts[vids[k]])
            before = sb.files()
            rc, evs, err = sb.run(argv, cwd=cwd)
            after = sb.files()
            case = {"src": srcs, "O": outdir, "lowercase": lowercase, "dynamic": dynamic, "step": n}
            chk.count(case, nontrivial=n >= 1)
            ctx = {"argv": argv, "step": what, "versions": vids, "exit": rc, "stderr": err[-500:], "events": evs[:60], "files_after": sorted(p[len(sb.dir):] for p in after)}
            changed = [p for p in after if before.get(p) != after[p]] + [p for p in before if p not in after]
            if refuse:
                if rc == 0:
                    chk.violation("absolute / parent-escaping source accepted with --output-directory (%s -O %s)" % (srcs, outdir), ctx)
                if changed:
                    chk.violation("refused invocation created or modified files: %s" % changed, ctx)
                break
            # the output directories exist now (or never will): resolve symlinks and dots in their names
            rexp = {r: canon(p, cwd) for r, p in exp.items()}
            fails = [k for k, v in enumerate(vids) if v == "bad"]
            if (rc != 0) != bool(fails):
                chk.violation("exit status %d of %s with source versions %s: %s" % (rc, argv, vids, err[-200:]), ctx)
                break
            # confinement and naming: the only files that may appear or change are the expected outputs
            stray = [p for p in changed if p not in rexp.values()]
            if stray:
                chk.violation("files other than the expected outputs %s were created or modified: %s" % (sorted(p[len(sb.dir):] for p in rexp.values()), [p[len(sb.dir):] for p in stray]), ctx)
            if rc == 0:
                missing = [p for p in rexp.values() if p not in after]
                if missing:
                    chk.violation("expected output not created: %s" % [p[len(sb.dir):] for p in missing], ctx)
                    break
            ids_b, ids_a = content_ids(before, rexp, versions), content_ids(after, rexp, versions)
            want, sizes = {}, {}
            for k, pair in enumerate(ROLES):
                for r in pair:
                    if k >= len(srcs) or r not in rexp or vids[k] == "bad":
                        want[r] = "none"          # this run produces nothing there: whatever is there stays
                    else:
                        want[r], sizes[r] = info[k][vids[k]][r]
            for r, pth in rexp.items():
                if rc == 0 and ids_a[r] != want[r]:
                    chk.violation("output %s holds %s after a successful run, expected the translation of version %s" % (pth[len(sb.dir):], ids_a[r], want[r]), ctx)
                # untouched outputs keep inode and mtime
                if (want[r] == "none" or ids_b[r] == want[r]) and before.get(pth) != after.get(pth):
                    chk.violation("output %s rewritten although it is up to date or its source failed (sha, inode, mtime: %s -> %s)" % (pth[len(sb.dir):], before.get(pth), after.get(pth)), ctx)
            trace, probs = to_trace(evs, rexp, ids_b, want, sizes, rc, ids_a, False)
            for pr in probs:
                chk.violation(pr, ctx)
            traces.append(trace)
            back.append(dict(ctx, case=case))
    finally:
        sb.close()


def kill_points(chk, qmluic, traces, back, quick):
    """every system call of the tail of a regenerating run (and a sample of the rest) becomes a kill point"""
    argv = ["-O", "out", "X.qml"]
    texts = TEXTS[True]
    nm = {"ui": "x.ui", "h": "uisupport_x.h"}
    versions, sizes = {}, {}
    for vid in ("v1", "v2"):
        got = reference(chk, qmluic, "X", texts[vid], True, True)
        for r, n in nm.items():
            versions[(r, sha(got[n]))] = vid
            if vid == "v2":
                sizes[r] = len(got[n])

    def prepared():
        sb = Sandbox(chk, qmluic)
        open(os.path.join(sb.dir, "X.qml"), "w").write(texts["v1"])
        if subprocess.run([qmluic, "generate-ui", "--foreign-types", QT5_METATYPES] + argv, cwd=sb.dir, capture_output=True).returncode != 0:
            raise ToolError("kill_points: first generation failed")
        open(os.path.join(sb.dir, "X.qml"), "w").write(texts["v2"])
        return sb
    sb = prepared()
    p = subprocess.run(["strace", "-f", "-c", "-U", "name,calls", qmluic, "generate-ui", "--foreign-types", QT5_METATYPES] + argv, cwd=sb.dir, capture_output=True, text=True)
    sb.close()
    counts = {}
    for l in p.stderr.splitlines():
        f = l.split()
        if len(f) == 2 and f[1].isdigit() and f[0] != "total":
            counts[f[0]] = int(f[1])
    if not counts.get("openat"):
        raise ToolError("kill_points: cannot count system calls: %s" % p.stderr[-500:])
    points = [(sc, n) for sc, c in sorted(counts.items()) for n in range(1, c + 1)]
    # only the end of the run touches the outputs; the long type-loading prefix is sampled
    r = random.Random(chk.seed)
    tail = {"write": 30, "openat": 10, "close": 10, "read": 10, "newfstatat": 10, "statx": 10, "mmap": 4, "munmap": 6, "lseek": 6, "getrandom": 6}
    sel = [(sc, n) for sc, n in points if n > counts[sc] - tail.get(sc, 4)]
    rest = sorted(set(points) - set(sel))
    if quick:
        sel = [pt for pt in sel if pt[0] in ("write", "openat", "fchmod", "renameat", "rename", "close", "mkdir", "getrandom", "newfstatat", "statx", "copy_file_range")][:100]
    sel += r.sample(rest, min(len(rest), 10 if quick else 300))
    if len(points) <= (400 if quick else 5000):
        sel = points
    log("C15: %d kill points (of %d system calls in the run)" % (len(sel), len(points)))
    chk.cov["kill_points"] = {"selected": len(sel), "system_calls_in_run": len(points)}
    for sc, n in sel:
        sb = prepared()
        try:
            exp = {"ui": os.path.join(sb.dir, "out", "x.ui"), "h": os.path.join(sb.dir, "out", "uisupport_x.h")}
            before = sb.files()
            rc, evs, err = sb.run(argv, inject=(sc, n))
            after = sb.files()
            chk.count({"kill": [sc, n]}, nontrivial=True)
            ids_b, ids_a = content_ids(before, exp, versions), content_ids(after, exp, versions)
            killed = rc not in (0, 1)
            ctx = {"kill_at": [sc, n], "argv": argv, "exit": rc, "killed": killed, "files_after": sorted(p[len(sb.dir):] for p in after), "content": ids_a, "events": evs[:60]}
            for role in ("ui", "h"):
                if ids_a[role] not in ("v1", "v2"):
                    chk.violation("run killed at %s #%d leaves %s neither old nor new (%s)" % (sc, n, exp[role][len(sb.dir):], ids_a[role]), ctx)
            want = {"ui": "v2", "h": "v2", "ui2": "none", "h2": "none"}
            trace, probs = to_trace(evs, exp, ids_b, want, sizes, rc, ids_a, killed)
            for pr in probs:
                chk.violation(pr, ctx)
            traces.append(trace)
            back.append(dict(ctx, case={"kill": [sc, n]}))
        finally:
            sb.close()


def write_faults(chk, qmluic, traces, back):
    """the file system accepts only part of a write (file size limit): the output paths still hold old or new complete content"""
    argv = ["-O", "out", "X.qml"]
    # both outputs span several 512-byte blocks, so that a limit can cut either of them in the middle
    fill = "".join(' QLabel { text: "fill %d" }' % k for k in range(30))
    texts = {v: TEXTS[True][v].replace(" } }\n", " }%s }\n" % fill) for v in ("v1", "v2")}
    nm = {"ui": "x.ui", "h": "uisupport_x.h"}
    versions, sizes = {}, {}
    for vid in ("v1", "v2"):
        got = reference(chk, qmluic, "X", texts[vid], True, True)
        for r, n in nm.items():
            versions[(r, sha(got[n]))] = vid
            if vid == "v2":
                sizes[r] = len(got[n])
    if sizes["ui"] < 2048 or sizes["h"] < 1024:
        raise ToolError("write_faults: outputs too small to be cut by a block-sized limit: %s" % sizes)
    for blocks in (0, 1, 2, 3, 4, 5, 6, 8, 10, 16, 64):
        for fresh in (False, True):
            sb = Sandbox(chk, qmluic)
            try:
                open(os.path.join(sb.dir, "X.qml"), "w").write(texts["v2" if fresh else "v1"])
                if not fresh:
                    if subprocess.run([qmluic, "generate-ui", "--foreign-types", QT5_METATYPES] + argv, cwd=sb.dir, capture_output=True).returncode != 0:
                        raise ToolError("write_faults: first generation failed")
                    open(os.path.join(sb.dir, "X.qml"), "w").write(texts["v2"])
                exp = {"ui": os.path.join(sb.dir, "out", "x.ui"), "h": os.path.join(sb.dir, "out", "uisupport_x.h")}
                before = sb.files()
                rc, evs, err = sb.run(argv, fsize_blocks=blocks)
                after = sb.files()
                chk.count({"fsize_blocks": blocks, "fresh": fresh}, nontrivial=True)
                ids_b, ids_a = content_ids(before, exp, versions), content_ids(after, exp, versions)
                ctx = {"file_size_limit_bytes": blocks * 512, "fresh": fresh, "argv": argv, "exit": rc, "stderr": err[-300:], "content": ids_a, "events": evs[:60],
                       "files_after": sorted(p[len(sb.dir):] for p in after)}
                for role in ("ui", "h"):
                    if ids_a[role] not in ("v2", ids_b[role]):
                        chk.violation("a run under a file size limit of %d bytes leaves %s neither old nor new (%s)" % (blocks * 512, exp[role][len(sb.dir):], ids_a[role]), ctx)
                if rc == 0 and (ids_a["ui"], ids_a["h"]) != ("v2", "v2"):
                    chk.violation("exit 0 although an output could not be written completely (limit %d bytes)" % (blocks * 512), ctx)
                trace, probs = to_trace(evs, exp, ids_b, {"ui": "v2", "h": "v2", "ui2": "none", "h2": "none"}, sizes, rc, ids_a, rc not in (0, 1))
                for pr in probs:
                    chk.violation(pr, ctx)
                traces.append(trace)
                back.append(dict(ctx, case={"fsize_blocks": blocks, "fresh": fresh}))
            finally:
                sb.close()


def validate(chk, traces, back):
    """all runs concatenated into one trace; on a rejection the offending run is reported and validation resumes after it"""
    start = 0
    offsets, pos = [], 1
    for t in traces:
        offsets.append(pos)
        pos += len(t)
    rounds = 0
    while start < len(traces):
        rounds += 1
        if rounds > 12:
            log("C15: %d runs after the 12th rejected one were not validated" % (len(traces) - start))
            return
        flat = [e for t in traces[start:] for e in t]
        path = os.path.join(chk.work, "fs-trace-%d.ndjson" % start)
        write_ndjson(path, flat)
        res = tlc("TraceFsWrite", env={"TRACE": path}, workers=1, timeout=1800, dfs=True, coverage=False)
        chk.add_tlc(res)
        rej = res.printed("REJECTED")
        if res.ok and not rej and not res.violations:
            chk.cov["traces_validated_against_impl"] += len(traces) - start
            return
        if rej:
            at = rej[0]["at"]
        elif res.violations:
            at = int(res.violations[0][1].get("l", "1")) - 1
        else:
            raise ToolError("TraceFsWrite failed without a verdict: %s" % res.out[-2000:])
        base = offsets[start] - 1
        k = start
        while k + 1 < len(traces) and offsets[k + 1] - base <= at:
            k += 1
        why = ("step has no counterpart in the output protocol: %s" % json.dumps(rej[0]["event"])) if rej else ("invariant %s violated" % res.violations[0][0])
        chk.violation("run %s deviates from the output protocol: %s" % (json.dumps(back[k].get("case")), why), dict(back[k], trace=traces[k], why=why))
        chk.cov["traces_validated_against_impl"] += k - start
        start = k + 1


def run(chk):
    qmluic = build_cli()
    quick = chk.tier == "quick"
    r = random.Random(chk.seed)
    # ---- M leg
    m = tlc("MCFsWrite", workers=8, timeout=1800, coverage=False)
    tlc_must_pass(m, "MCFsWrite (old-or-new in every reachable state, crash anywhere)")
    chk.add_tlc(m)
    chk.cov["model_check_protocol"] = {"distinct_states": m.distinct}
    traces, back = [], []
    shapes = [(["X.qml"], None), (["./X.qml"], None), (["d/X.qml"], None), (["d/./e/X.qml"], None), (["d/../X.qml"], None), (["ABS"], None), (["link/X.qml"], None),
              (["MixedCase.qml"], None), (["Dir/MixedCase.qml"], None), (["X.qml", "d/Y.qml"], None), (["Gui_Prefs.qml"], None), (["Ui_Panel.qml", "uisupport_x/Ui_ui_.qml"], "out"),
              (["d/X.qml", "e/X.qml"], None), (["d/X.qml", "d/sub/X.qml"], "out"),      # two sources of one file name in one invocation
              (["Settings.Page.qml"], None), (["Dialog.qml", "Dialog.old.qml"], "out"), (["d.e/Main.v2.x.qml", "d.e/Main.qml"], None),      # dots inside the stem and in directories
              (["X.qml"], "out"), (["Dir/MixedCase.qml"], "Out/Gen"), (["X.qml", "d/Y.qml"], "out"), (["ABS"], "out"), (["../X.qml"], "out"), (["d/../X.qml"], "out"),
              (["./X.qml"], "out"), (["d/X.qml"], "out"), (["d/./e/X.qml"], "out/deep"), (["link/X.qml"], "out"),
              (["Dir/MixedCase.qml"], "out"), (["d/X.qml"], "ABSOUT"), (["d/X.qml"], "d"), (["X.qml"], "."), (["X.qml", "ABS"], "out"), (["Dir/A.qml", "dir/A.qml"], None)]
    if quick:
        shapes = shapes[:23] + r.sample(shapes[23:], 3)
    for si, (srcs, outdir) in enumerate(shapes):
        for lowercase in ((True, False) if any("Mixed" in s or "i_" in s or s.count(".") > 1 for s in srcs) or not quick else (True,)):
            for dynamic in ((True, False) if si % 4 == 0 or not quick else (True,)):
                history(chk, qmluic, srcs, outdir, lowercase, dynamic, traces, back)
    kill_points(chk, qmluic, traces, back, quick)
    write_faults(chk, qmluic, traces, back)
    validate(chk, traces, back)
    chk.cov["programs"] = len(traces)
    chk.sample({"trace": traces[0]})
    chk.cov["trusted_base"] = ["strace (system-call log, fault injection)", "the kernel's rename atomicity (POSIX)", "TLC", "os.stat"]
    chk.assumptions += ["one invocation at a time per output directory; power loss (un-synced data) is not modelled: the crash model is process death at a system call boundary"]
