"""C17 -- type look-ups agree with the class graph and always terminate.

M leg: TypeGraph.tla's model of the breadth-first base-class walk is model-checked on every enumerated graph: it terminates
and visits exactly the public ancestors.  G leg: GenGraph.tla enumerates all class graphs on three names (super lists of up to
two entries over {A, B, C, Missing}; self loops, 2- and 3-cycles, diamonds, dangling and private references) with seeded
declaring classes; every query (derives-from, property, method, nested enum, enum variant, common base) is replayed through the
public API of the real TypeMap under a 2 s deadline.  Soundness and completeness are judged against the property; the one known
deviation (F12: look-ups stop at the first unresolved super-class name) is matched semantically by the design model.
"""
import json
import os

from vlib import build_harness, log, ToolError, tlc, tlc_must_pass, run_batch, VH

RULE = ("case = (graph, query); graphs: all 15 625 graphs on 3 class names with super lists from 25 shapes (thorough) / seeded 1500 (quick), "
        "each with 2 seeded sets of declaring classes; queries: 9 derives-from, 3 x {property, method, nested enum, variant}, 9 common base; "
        "non-trivial = graph has >= 1 edge; distinct by JSON")


def meta_class(name, supers, declares, nonpublic="private", salt=0):
    c = {"className": name, "qualifiedClassName": name, "object": True,
         # a base that is not public is private or protected: neither is inherited from in the sense of the property
         "superClasses": [{"name": s["n"], "access": "public" if s["pub"] else nonpublic} for s in supers]}
    if declares:
        # the attributes of the declaration (DESIGNABLE, SCRIPTABLE, STORED, USER, CONSTANT, FINAL, REQUIRED) vary: a declared property is a declared property
        bit = lambda k: bool((salt >> k) & 1)
        c["properties"] = [{"name": "p", "type": "int", "read": "p", "designable": not bit(0), "scriptable": not bit(1), "stored": not bit(2), "user": bit(3),
                            "constant": bit(4), "final": bit(5), "required": bit(6)}]
        c["methods"] = [{"name": "m", "access": "public", "returnType": "void", "arguments": []}]
        c["enums"] = [{"name": "E", "isClass": False, "isFlag": False, "values": ["V", "W" + name]}]
    return c


# graphs over two modules (the second imports the first): a name is resolved in the module of the class that uses it, then in what that module imports;
# distinct classes may carry the same unqualified name.  node = "m.X" | "m2.X"; super-class lists use unqualified names, as metatypes do
TWO_MODULE = [
    {"m": {"Base": [], "A": ["Base"], "X": ["A"]}, "m2": {"A": ["X"], "Top": ["A"]}, "decl": ["m.Base", "m.A"]},
    {"m": {"Base": [], "Frame": ["Base"], "Mid": ["Frame"]}, "m2": {"Frame": ["Mid"], "Titled": ["Frame"], "Deep": ["Titled"]}, "decl": ["m.Frame"]},
    {"m": {"R": [], "A": ["R"], "B": ["A"]}, "m2": {"A": ["B"], "B": ["A"], "C": ["B"]}, "decl": ["m.R"]},
    {"m": {"R": [], "A": ["R"], "L": ["A"], "Rr": ["A"]}, "m2": {"A": ["L", "Rr"], "D": ["A"]}, "decl": ["m.R", "m2.A"]},
    {"m": {"P": [], "Q": []}, "m2": {"P": ["Q"], "Z": ["P"]}, "decl": ["m.P", "m.Q"]},
    # three modules: m2 imports m, then m1 -- a name both provide denotes the class of the LATER import, for the super-class lists of m2 as for any look-up
    {"m": {"Item": [], "Old": ["Item"]}, "m1": {"Item": [], "New": ["Item"]}, "m2": {"View": ["Item"], "Sub": ["View"]}, "decl": ["m1.Item"]},
    {"m": {"Item": [], "Old": ["Item"]}, "m1": {"Item": [], "New": ["Item"]}, "m2": {"View": ["Item"], "Sub": ["View"]}, "decl": ["m.Item"]},
    {"m": {"Base": [], "Panel": ["Base"]}, "m1": {"Panel": [], "Extra": ["Panel"]}, "m2": {"Dash": ["Panel"], "Top": ["Dash", "Base"]}, "decl": ["m.Base", "m1.Panel"]},
    {"m": {"A": [], "B": ["A"]}, "m1": {"A": [], "B": ["A"]}, "m2": {"C": ["B"], "D": ["C", "A"]}, "decl": ["m.A"]},
]


def two_module_family(chk):
    recs = []
    for n, g in enumerate(TWO_MODULE):
        supers = {}
        for mod in ("m", "m1", "m2"):
            for c, ss in g.get(mod, {}).items():
                # resolution: own module first, then (for m2) the imported modules, the later import first
                where = lambda x: mod if x in g[mod] else ("m1" if mod == "m2" and x in g.get("m1", {}) else "m")
                supers["%s.%s" % (mod, c)] = [{"n": "%s.%s" % (where(x), x), "pub": True} for x in ss]
        recs.append({"id": n, "supers": supers, "decl": g["decl"]})
    path = os.path.join(chk.work, "twomod.ndjson")
    from vlib import write_ndjson
    write_ndjson(path, recs)
    t = tlc("TypeExpect", env={"RECS": path}, workers=1, timeout=600, coverage=False)
    tlc_must_pass(t, "TypeExpect")
    chk.add_tlc(t)
    exp = {e["id"]: e for e in t.printed("TYPEEXPECT")}
    reqs = []
    hname = lambda node: ("m2:" + node[3:]) if node.startswith("m2.") else ("m1:" + node[3:]) if node.startswith("m1.") else node[2:]
    for n, g in enumerate(TWO_MODULE):
        qs, meta = [], []
        for d in exp[n]["derived"]:
            if d["b"].startswith("m.") and d["b"][2:] in g["m2"]:
                continue       # a class of the first module hidden behind a same-named class of the second cannot be named as the base from outside
            qs.append({"q": "derived", "c": hname(d["c"]), "b": hname(d["b"])})
            meta.append(("derived", d))
        for o in exp[n]["owners"]:
            qs.append({"q": "prop", "c": hname(o["c"]), "n": "p"})
            meta.append(("prop", o))
        reqs.append({"id": n, "classes": [meta_class(c, [{"n": x, "pub": True} for x in ss], "m.%s" % c in g["decl"]) for c, ss in g["m"].items()],
                     "classes2": [meta_class(c, [{"n": x, "pub": True} for x in ss], "m2.%s" % c in g["decl"]) for c, ss in g["m2"].items()], "queries": qs, "_meta": meta})
        if "m1" in g:
            reqs[-1]["classes1"] = [meta_class(c, [{"n": x, "pub": True} for x in ss], "m1.%s" % c in g["decl"]) for c, ss in g["m1"].items()]
    out = run_batch([VH, "typemap"], [{k: v for k, v in q.items() if k != "_meta"} for q in reqs], procs=1, chunk=100)
    for q in reqs:
        o = out[q["id"]]
        if o.get("timeout") or o.get("crash"):
            chk.violation("a look-up on the two-module graph %d does not terminate / dies" % q["id"], {"graph": TWO_MODULE[q["id"]], "detail": o})
            continue
        for (kind, d), a in zip(q["_meta"], o["answers"]):
            chk.count({"twomod": q["id"], "q": [kind, d.get("c"), d.get("b")]}, nontrivial=True)
            if a.get("noclass"):
                raise ToolError("two-module family: class not found: %s" % d)
            if kind == "derived" and a["derived"] != d["holds"]:
                chk.violation("%s.is_derived_from(%s) = %s, reflexive-transitive public inheritance says %s (two modules with same-named classes)" % (d["c"], d["b"], a["derived"], d["holds"]),
                              {"graph": TWO_MODULE[q["id"]], "query": d, "observed": a})
            if kind == "prop" and a.get("found", False) != bool(d["owners"]):
                chk.violation("property look-up on %s: found=%s, the property admits owners %s (two modules with same-named classes)" % (d["c"], a.get("found"), d["owners"]),
                              {"graph": TWO_MODULE[q["id"]], "query": d, "observed": a})


def run(chk):
    build_harness()
    quick = chk.tier == "quick"
    res = tlc("GenGraph", env={"LIMIT": 1500 if quick else 100000}, workers=10, seed=chk.seed, coverage=False, timeout=3000, heap="8g")
    tlc_must_pass(res, "GenGraph (termination and walk = reachability on the design model)")
    chk.add_tlc(res)
    graphs = res.printed("GRAPH")
    graphs.sort(key=lambda g: json.dumps(g, sort_keys=True))
    log("C17: %d graph configurations" % len(graphs))
    reqs = []
    for gi, g in enumerate(graphs):
        classes = [meta_class(n, g["supers"][n], n in g["decl"], "protected" if gi % 2 else "private", salt=(gi * 7 + k * 13) % 128 if gi % 4 else 0)
                   for k, n in enumerate(sorted(g["supers"]))]
        qs = []
        for d in g["derived"]:
            qs.append({"q": "derived", "c": d["c"], "b": d["b"]})
        for d in g["declq"]:
            for kind, n in (("prop", "p"), ("method", "m"), ("type", "E"), ("variant", "V")):
                qs.append({"q": kind, "c": d["c"], "n": n})
        for d in g["common"]:
            qs.append({"q": "common", "c": d["a"], "b": d["b"]})
        reqs.append({"id": gi, "classes": classes, "queries": qs, "batches": 1 + gi % 3})      # the descriptions arrive in 1, 2 or 3 loads
    two_module_family(chk)
    out = run_batch([VH, "typemap"], reqs, procs=12, chunk=100)
    for gi, g in enumerate(graphs):
        o = out[gi]
        edges = any(g["supers"][n] for n in g["supers"])
        desc = {n: [(s["n"] if s["pub"] else "private " + s["n"]) for s in g["supers"][n]] for n in sorted(g["supers"])}
        if o.get("timeout") or "crash" in o:
            chk.count({"g": g["supers"], "d": g["decl"]}, nontrivial=edges)
            at = reqs[gi]["queries"][o.get("at", 0)] if o.get("timeout") else None
            chk.violation("a look-up does not terminate (%s) on the class graph %s" % ("deadline exceeded at %s" % at if o.get("timeout") else "process died, status %s" % o.get("crash"), desc),
                          {"classes": reqs[gi]["classes"], "query": at, "detail": o})
            continue
        ans = iter(o["answers"])
        for d in g["derived"]:
            a = next(ans)
            chk.count({"g": g["supers"], "q": ["derived", d["c"], d["b"]]}, nontrivial=edges)
            if a.get("derived") == d["spec"]:
                continue
            if d["spec"] and not a.get("derived") and d["pinned"] == "#err" and chk.is_known("F12"):
                chk.known_finding("F12", "a look-up stops at the first unresolved super-class name met in the walk: an ancestor listed after it is not found")
                continue
            chk.violation("%s.is_derived_from(%s) = %s, reflexive-transitive public inheritance says %s; graph %s" % (d["c"], d["b"], a.get("derived"), d["spec"], desc),
                          {"classes": reqs[gi]["classes"], "query": ["derived", d["c"], d["b"]], "observed": a, "expected": d["spec"]})
        for d in g["declq"]:
            for kind in ("prop", "method", "type", "variant"):
                a = next(ans)
                chk.count({"g": g["supers"], "d": g["decl"], "q": [kind, d["c"]]}, nontrivial=edges)
                owners = d["owners"]
                found = bool(a.get("found"))
                owner = a.get("owner") if kind in ("prop", "method") else (a.get("enum") or "").split("::")[0] if found else None
                ok = (found and owner in owners) if owners else not found
                if kind == "variant" and found and not a.get("lists"):
                    ok = False
                if ok:
                    continue
                pinned = d["pinnedtyped"] if kind in ("prop", "method") else d["pinned"]
                if owners and not found and pinned == "#err" and chk.is_known("F12"):
                    chk.known_finding("F12", "a look-up stops at the first unresolved super-class name met in the walk: an ancestor listed after it is not found")
                    continue
                chk.violation("%s look-up on %s: %s; the property admits %s; graph %s, declared by %s" % (
                    kind, d["c"], a, ("found in one of %s" % owners) if owners else "not found", desc, g["decl"]),
                    {"classes": reqs[gi]["classes"], "query": [kind, d["c"]], "observed": a, "acceptable_owners": owners})
        for d in g["common"]:
            a = next(ans)
            chk.count({"g": g["supers"], "q": ["common", d["a"], d["b"]]}, nontrivial=edges)
            if a.get("found") and a.get("base") not in d["bases"]:
                chk.violation("common_base_class(%s, %s) = %s is not an ancestor-or-self of both (%s); graph %s" % (d["a"], d["b"], a.get("base"), d["bases"], desc),
                              {"classes": reqs[gi]["classes"], "query": ["common", d["a"], d["b"]], "observed": a})
            elif not a.get("found") and d["bases"] and d["pinned"] not in ("#err", "#none"):
                chk.violation("common_base_class(%s, %s) finds nothing although %s are common bases and no unresolved name is in the way; graph %s" % (d["a"], d["b"], d["bases"], desc),
                              {"classes": reqs[gi]["classes"], "query": ["common", d["a"], d["b"]], "observed": a})
    chk.cov["programs"] = len(graphs)
    chk.cov["traces_validated_against_impl"] = len(graphs)
    chk.cov["exhaustive"] = not quick
    chk.sample({"graph": graphs[len(graphs) // 2]["supers"], "declared_by": graphs[len(graphs) // 2]["decl"], "derived": graphs[len(graphs) // 2]["derived"][:3]})
    chk.cov["trusted_base"] = ["TLC", "TypeGraph.tla", "2 s wall-clock deadline for 'terminates'"]
