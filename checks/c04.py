"""C04 -- every binding is embedded, generated, or diagnosed; errors write nothing.

M leg: Pipeline.tla (the pass design) is model-checked over all documents of up to 3 bindings of the attribute classes
(no binding falls between the passes).  G leg: documents built from a catalogue of 42 concrete bindings (all singles, all
pairs, seeded triples); Pipeline.tla assigns each binding its place from its attributes; the real translator's artefacts
decide where it actually is (.ui element / update or callback function in the header / error inside the binding's span).
Error half: faulted documents go through the real binary: exit status, diagnostics, and -- by stat and hash -- that neither
output is created nor modified.
"""
import hashlib
import itertools
import os
import random
import shutil
import subprocess
import tempfile

from vlib import build_harness, build_cli, log, ToolError, translate, tlc, tlc_must_pass, QT5_METATYPES
from vlib import catalog as C

RULE = ("case = document (set of catalogue bindings on a fixed object skeleton); all 42 singles, all unordered pairs, seeded triples; "
        "error half: seeded faulted documents through the CLI on an empty directory and over previous outputs; "
        "non-trivial = >= 2 bindings of different ownership, or a planted fault; distinct by entry names")


def judge(exp, obs):
    if exp == "ui":
        return obs["ui"] and not obs["header"]
    if exp == "header":
        return obs["header"] and not obs["ui"]
    if exp == "both":
        return obs["ui"] and obs["header"]
    if exp == "diag":
        return obs["diag"]      # what the in-process header object contains is irrelevant: with an error nothing is written (CLI half)
    return not obs["ui"] and not obs["header"]


def snapshot(d):
    res = {}
    for root, _, files in os.walk(d):
        for f in files:
            p = os.path.join(root, f)
            st = os.stat(p)
            res[os.path.relpath(p, d)] = (st.st_ino, st.st_mtime_ns, st.st_size, hashlib.sha1(open(p, "rb").read()).hexdigest())
    return res


def cli_error_half(chk, qmluic, names, r):
    qml, hosts, spans = C.build_document(names)
    if r.random() < 0.5:
        # a warning next to the error must not turn the failure into a success
        qml = qml.replace("import qmluic.QtWidgets\n", "import qmluic.QtWidgets 6.2\n", 1)
    good = [n for n in names if n not in C.FAULTY and C.CATALOG[n]["attrs"]["typed"] and C.CATALOG[n]["attrs"]["known"]]
    d = tempfile.mkdtemp(prefix="c04-", dir=chk.work)
    env = dict(os.environ, NO_COLOR="1")
    cmd = [qmluic, "generate-ui", "--foreign-types", QT5_METATYPES, "Doc.qml"]
    try:
        # (a) empty directory
        open(os.path.join(d, "Doc.qml"), "w").write(qml)
        before = snapshot(d)
        p = subprocess.run(cmd, cwd=d, env=env, capture_output=True, text=True, timeout=60)
        after = snapshot(d)
        if p.returncode == 0:
            chk.violation("document with a faulty binding exits 0 (%s)" % names, {"qml": qml, "stderr": p.stderr[-800:]})
            return
        if p.returncode != 1:
            return      # crash: C07
        if "error" not in p.stderr:
            chk.violation("non-zero exit without an error diagnostic", {"qml": qml, "stderr": p.stderr[-800:]})
        if after != before:
            chk.violation("outputs created although the document has an error: %s" % sorted(set(after) - set(before)), {"qml": qml, "files": sorted(after)})
        # (b) over the outputs of a previous good run
        gq, _, _ = C.build_document([n for n in good if n not in ("objmember_dyn", "attached_dyn", "attached_unconsumed", "attached_unconsumed_grid",
                                                                   "readonly_const", "readonly_dyn", "pseudo_dyn")] or ["const_text"])
        open(os.path.join(d, "Doc.qml"), "w").write(gq)
        p0 = subprocess.run(cmd, cwd=d, env=env, capture_output=True, text=True, timeout=60)
        if p0.returncode != 0:
            return
        before = snapshot(d)
        open(os.path.join(d, "Doc.qml"), "w").write(qml)
        p = subprocess.run(cmd, cwd=d, env=env, capture_output=True, text=True, timeout=60)
        after = snapshot(d)
        before.pop("Doc.qml"), after.pop("Doc.qml")
        if p.returncode == 1 and after != before:
            changed = [f for f in after if before.get(f) != after[f]] + [f for f in before if f not in after]
            chk.violation("existing outputs modified although the document has an error: %s" % changed, {"qml": qml, "changed": changed})
        # (c) the faulted document next to good ones in one invocation, first / in the middle / last: exit 1, an error printed, nothing written for it
        d2 = tempfile.mkdtemp(prefix="c04m-", dir=chk.work)
        try:
            open(os.path.join(d2, "Bad.qml"), "w").write(qml)
            open(os.path.join(d2, "Good1.qml"), "w").write(gq)
            open(os.path.join(d2, "Good2.qml"), "w").write(gq)
            for order in (["Bad.qml", "Good1.qml"], ["Good1.qml", "Bad.qml", "Good2.qml"], ["Good1.qml", "Good2.qml", "Bad.qml"]):
                for f in os.listdir(d2):
                    if not f.endswith(".qml"):
                        os.unlink(os.path.join(d2, f))
                pm = subprocess.run(cmd[:-1] + order, cwd=d2, env=env, capture_output=True, text=True, timeout=60)
                left = sorted(f for f in os.listdir(d2) if not f.endswith(".qml"))
                if pm.returncode == 0:
                    chk.violation("invocation %s with a faulted document exits 0" % order, {"qml": qml, "argv": order, "stderr": pm.stderr[-800:], "files": left})
                elif pm.returncode == 1:
                    if "error" not in pm.stderr:
                        chk.violation("invocation %s exits 1 without an error diagnostic" % order, {"qml": qml, "argv": order, "stderr": pm.stderr[-800:]})
                    if any(f in ("bad.ui", "uisupport_bad.h") for f in left):
                        chk.violation("invocation %s writes outputs for the faulted document: %s" % (order, left), {"qml": qml, "argv": order, "files": left})
        finally:
            shutil.rmtree(d2, ignore_errors=True)
    finally:
        shutil.rmtree(d, ignore_errors=True)


POOL_TEXT = [  # the 14 declaration shapes of GenBindMap.tla, in the same order
    'palette.window: "red"', 'palette.active.window: "red"', 'palette { window: "red" }', 'palette { active.window: "red" }', 'palette.active { window: "red" }',
    'palette { active { window: "red" } }', 'palette.active { base: "blue" }', 'palette.active.base: "blue"', 'palette.active: "red"',
    'palette { window: "red"; window: "green" }', 'palette.disabled { }', 'text: "t"', 'palette { active: "red" }',
    'palette { base: "tan"; active { base: "blue" } active.text: "navy" }']
LEAF_ON_GROUP = {9, 13}      # `active` bound to a value: a type error even where it is not a duplicate


def binding_map_leg(chk):
    """G: every sequence of 1..3 declaration shapes (BindMap.tla): duplicate <=> 'duplicated binding' diagnosed; otherwise the bindings the
    translator holds for the object (observation hook) are exactly the values of the model's map -- nothing lost, nothing invented"""
    g = tlc("GenBindMap", workers=2, timeout=900, coverage=False)
    tlc_must_pass(g, "GenBindMap (NothingLost, WellShaped on every declaration sequence)")
    chk.add_tlc(g)
    cases = g.printed("BIND")
    if len(cases) < 2900:
        raise ToolError("GenBindMap produced %d sequences" % len(cases))
    reqs = []
    for n, c in enumerate(cases):
        body = "\n".join("    " + POOL_TEXT[j - 1] for j in c["decls"])
        reqs.append({"id": n, "src": "import qmluic.QtWidgets\nQWidget {\n  QLabel {\n    id: lab\n%s\n  }\n}\n" % body, "type_name": "Doc", "modes": ["generate"], "ir": True})
    res = translate(reqs, metatypes=[QT5_METATYPES])
    for q, c in zip(reqs, cases):
        run_ = res[q["id"]]["generate"]
        chk.count({"bindmap": c["decls"]}, nontrivial=len(c["decls"]) >= 2)
        if run_.get("panic") or run_.get("timeout") or run_.get("crash"):
            continue
        msgs = [d["msg"] for d in run_.get("diags", [])]
        dup = any("duplicated binding" in m for m in msgs)
        if dup != c["dup"]:
            chk.violation("binding map: the model %s a duplicate, the translator %s (%s)" % ("finds" if c["dup"] else "does not find", "reports one" if dup else "reports %s" % (msgs[:2] or "nothing"),
                          "; ".join(POOL_TEXT[j - 1] for j in c["decls"])), {"qml": q["src"], "diags": run_.get("diags"), "model": c})
            continue
        if c["dup"] or any(j in LEAF_ON_GROUP for j in c["decls"]):
            if not run_.get("has_error"):
                chk.violation("binding map: a document with a duplicated or ill-placed binding is accepted", {"qml": q["src"], "model": c})
            continue
        if run_.get("has_error"):
            chk.violation("binding map: a document without duplicates is rejected: %s" % msgs[:2], {"qml": q["src"], "diags": run_.get("diags"), "model": c})
            continue
        held = sorted(tuple(o["path"]) for o in run_.get("ir", []) if o["obj"] == "lab" and o["kind"] == "binding")
        want = sorted(tuple(p) for p in c["leaves"])
        if held != want:
            chk.violation("binding map: the translator holds %s for the object, the declarations bind %s" % (held, want), {"qml": q["src"], "model": c, "held": held})
    chk.cov["binding_map_sequences"] = len(cases)


ABLATION = [
    # (container open, child class, binding) -- attached members in every kind of container, bindings on pseudo objects; values differ from every default
    *[(cont, "QLabel", "QLayout.%s: %s" % (m, v)) for cont in ("QVBoxLayout {", "QHBoxLayout {", "QGridLayout {", "QFormLayout {", "QGridLayout { columns: 2", "QGridLayout { flow: QGridLayout.TopToBottom; rows: 2")
      for m, v in (("row", 2), ("column", 1), ("rowSpan", 2), ("columnSpan", 2), ("alignment", "Qt.AlignRight"), ("rowStretch", 3), ("columnStretch", 4),
                   ("rowMinimumHeight", 17), ("columnMinimumWidth", 19))],
    *[("QTabWidget {", "QWidget", b) for b in ('QTabWidget.title: "T"', 'QTabWidget.toolTip: "tip"', 'QTabWidget.whatsThis: "w"', "QLayout.row: 1")],
    *[("QWidget {", "QLabel", b) for b in ('QTabWidget.title: "T"', "QLayout.row: 1", "QLayout.alignment: Qt.AlignRight", "QLayout.columnStretch: 2")],
    *[("QVBoxLayout {", "QSpacerItem", b) for b in ("orientation: Qt.Horizontal", "sizeHint.width: 33", "sizeHint.height: 44", "orientation: chk.checked ? Qt.Horizontal : Qt.Vertical",
                                                     "sizeHint.width: spin.value", "QLayout.rowStretch: 2", "QLayout.alignment: Qt.AlignRight")],
    *[("QGridLayout {", "QSpacerItem", b) for b in ("QLayout.row: 1", "QLayout.column: 2", "QLayout.columnStretch: 3", "sizeHint.height: spin.value")],
    *[("QWidget {", "QAction", b) for b in ('text: "t"', "checkable: true", "enabled: chk.checked", 'toolTip: edit.text', "separator: true", "separator: chk.checked", 'shortcut: "Ctrl+K"')],
    *[("QVBoxLayout {", "QVBoxLayout", b) for b in ("spacing: 7", "spacing: spin.value", "contentsMargins.left: 3", "contentsMargins.left: spin.value", "QLayout.rowStretch: 2", "sizeConstraint: QLayout.SetFixedSize")],
    *[("QFormLayout {", "QHBoxLayout", b) for b in ("QLayout.row: 1", "QLayout.column: 1", "QLayout.columnSpan: 2", "QLayout.rowStretch: 2", "spacing: 9")],
    *[("QMenu {", "QMenu", b) for b in ('title: "sub"', "title: edit.text", "enabled: chk.checked", "QLayout.row: 1")],
    *[("QComboBox {", None, b) for b in ('model: ["a", "b"]', 'model: chk.checked ? ["a"] : ["b"]', "currentIndex: 1")],
    # the bound object is read by a dynamic binding elsewhere in the document (4th member: the observer)
    *[(cont, "QAction", b, obs) for cont in ("QWidget {", "QMenu {", "QToolBar {")
      for b in ("separator: true", 'text: "t"', "checkable: true", "separator: chk.checked")
      for obs in ("QCheckBox { id: obs; checked: x.visible }", "QLabel { id: obs; enabled: x.enabled; text: x.text }")],
    *[("QVBoxLayout {", "QLabel", b, "QLabel { id: obs; text: x.windowTitle }") for b in ('windowTitle: "w"', "enabled: false", "QLayout.alignment: Qt.AlignRight")],
    *[("QTableView {", None, b) for b in ("horizontalHeader.visible: false", "horizontalHeader.defaultSectionSize: 41", "horizontalHeader.visible: chk.checked", "verticalHeader.stretchLastSection: true")],
]


def ablation_leg(chk):
    """no binding is silently ignored: the document with the binding and the document without it differ in the .ui, in the support header or in the diagnostics
    (generate mode).  The oracle needs no knowledge of which container consumes which attached member."""
    reqs = []
    for n, case in enumerate(ABLATION):
        cont, child, binding = case[:3]
        observer = case[3] if len(case) > 3 else ""
        for with_b in (True, False):
            inner = ("%s { id: x\n        %s\n      }" % (child, binding if with_b else "")) if child else (binding if with_b else "")
            qml = ("import qmluic.QtWidgets\nQWidget {\n  id: root\n  QCheckBox { id: chk }\n  QSpinBox { id: spin }\n  QLineEdit { id: edit }\n  %s\n"
                   "  QWidget {\n    %s\n      id: host\n      %s\n    }\n  }\n}\n" % (observer, cont, inner))
            if cont in ("QComboBox {", "QTableView {", "QMenu {", "QTabWidget {", "QWidget {"):
                qml = qml.replace("  QWidget {\n    %s" % cont, "  QWidget {\n   QVBoxLayout {\n    %s" % cont).replace("    }\n  }\n}\n", "    }\n   }\n  }\n}\n")
            reqs.append({"id": "%d%s" % (n, "w" if with_b else "o"), "src": qml, "type_name": "Doc", "modes": ["generate"]})
    res = translate(reqs, metatypes=[QT5_METATYPES])
    n_diag = 0
    for n, case in enumerate(ABLATION):
        cont, child, binding = case[:3]
        w, o = res["%dw" % n]["generate"], res["%do" % n]["generate"]
        chk.count({"ablation": [cont, child, binding]}, nontrivial=True)
        if any(x.get("panic") or x.get("timeout") or x.get("crash") for x in (w, o)):
            continue
        if o.get("n_errors"):
            raise ToolError("ablation: the reference document for `%s` in `%s` is not accepted: %s" % (binding, cont, [d["msg"] for d in o["diags"]][:2]))
        same = w.get("ui") == o.get("ui") and w.get("header") == o.get("header")
        if w.get("n_errors"):
            n_diag += 1
        elif same:
            chk.violation("binding `%s` on a %s in `%s }` changes neither the .ui nor the header and is not diagnosed" % (binding, child or "the object itself", cont),
                          {"qml": reqs[2 * n]["src"], "ui": w.get("ui"), "header": w.get("header")})
    chk.cov["ablation_cases"] = {"cases": len(ABLATION), "diagnosed": n_diag}


def run(chk):
    build_harness()
    qmluic = build_cli()
    quick = chk.tier == "quick"
    r = random.Random(chk.seed)
    # ---- M leg
    m = tlc("MCPipeline", workers=8, timeout=900, coverage=False)
    chk.add_tlc(m)
    chk.cov["model_check_pipeline"] = {"distinct_states": m.distinct, "ok": m.ok, "invariant_violated": m.invariant}
    if not m.ok:
        log("C04 M leg: Pipeline.tla violates %s (design-level, reported in evidence)" % m.invariant)
    # ---- G leg
    names = sorted(C.CATALOG)
    docs = [[n] for n in names] + [list(p) for p in itertools.combinations(names, 2)]
    triples = list(itertools.combinations(names, 3))
    docs += [list(t) for t in r.sample(triples, 400 if quick else 6000)]
    if quick:
        # the pairs and triples of one grouped value (members that share a host object) interact by construction: always kept; the rest is sampled
        grouped = lambda d: len(d) > 1 and all(C.CATALOG[n]["attrs"]["group"] for n in d) and len({(C.CATALOG[n]["attrs"]["group"], C.CATALOG[n]["host"]) for n in d}) == 1
        fixed = [d for d in docs[len(names):] if grouped(d)]
        gnames = [n for n in names if C.CATALOG[n]["attrs"]["group"]]
        fixed += [list(t) for t in itertools.combinations(gnames, 3) if grouped(list(t)) and list(t) not in fixed]
        docs = docs[:len(names)] + fixed + r.sample([d for d in docs[len(names):] if not grouped(d)], 900)
    # members of one grouped value only make sense together on one host: keep as generated (build_document groups them)
    items = [("d%d" % i, d) for i, d in enumerate(docs)]
    exp = C.places(chk, items)
    built = {i: C.build_document(d) for i, d in items}
    res = translate([{"id": i, "src": built[i][0], "type_name": "Doc", "modes": ["generate"]} for i, _ in items], metatypes=[QT5_METATYPES])
    for i, d in items:
        run_ = res[i]["generate"]
        qml, hosts, spans = built[i]
        owners = {exp[i]["places"]["generate"][j] for j in range(len(d))}
        chk.count(d, nontrivial=len(owners) >= 2 or "diag" in owners)
        if run_.get("panic") or run_.get("timeout") or run_.get("crash"):
            continue
        if run_.get("syntax_error"):
            raise ToolError("catalogue document does not parse: %s" % qml)
        obs = C.observed_places(d, hosts, spans, run_)
        accepted = bool(run_.get("built")) and not run_.get("n_errors")
        if bool(run_.get("has_error")) != bool(run_.get("n_errors")):
            chk.violation("the diagnostics hold %d errors but has_error() = %s: the failure would not stop the command" % (run_.get("n_errors"), run_.get("has_error")),
                          {"qml": qml, "diagnostics": run_.get("diags")})
        if accepted != exp[i]["accepted"]["generate"]:
            # attribute the mismatch to a binding if possible, else report at document level
            pass
        for j, n in enumerate(d):
            e = exp[i]["places"]["generate"][j]
            if C.CATALOG[n].get("f9") and e == "ui" and not obs[j]["ui"] and not obs[j]["header"] and not obs[j]["diag"]:
                if chk.is_known("F9"):
                    chk.known_finding("F9", "`QAction { separator: false }` as the action's sole binding lands in neither output (false is the default: no observable effect)")
                    continue
            if not judge(e, obs[j]):
                chk.violation("binding `%s` of %s: expected place %s, observed %s%s" % (C.CATALOG[n]["text"], d, e, obs[j],
                              (" -- diagnostics: %s" % [(x["msg"], x["s"], x["e"]) for x in run_.get("diags", [])][:3]) if e == "diag" else ""),
                              {"qml": qml, "binding": C.CATALOG[n]["text"], "span": spans[j], "expected": e, "observed": obs[j], "ui": run_.get("ui"), "header": run_.get("header"),
                               "diagnostics": run_.get("diags")})
                break
        else:
            if accepted != exp[i]["accepted"]["generate"]:
                chk.violation("document %s: accepted=%s, expected %s: %s" % (d, accepted, exp[i]["accepted"]["generate"], [x["msg"] for x in run_.get("diags", [])][:3]),
                              {"qml": qml, "diagnostics": run_.get("diags")})
    chk.cov["traces_validated_against_impl"] = len(items)
    # ---- error half through the real binary
    faulted = [d for _, d in items if not exp["d%d" % docs.index(d)]["accepted"]["generate"]] if False else [d for i, d in items if not exp[i]["accepted"]["generate"]]
    for d in r.sample(faulted, min(len(faulted), 40 if quick else 400)):
        chk.count({"cli": d}, nontrivial=True)
        cli_error_half(chk, qmluic, d, r)
    chk.cov["programs"] = len(items)
    chk.sample({"document": items[len(names) + 3][1], "qml": built[items[len(names) + 3][0]][0], "expected_places": exp[items[len(names) + 3][0]]["places"]["generate"]})
    binding_map_leg(chk)
    ablation_leg(chk)
    # "takes effect" over time: after an edit that touches only dynamic bindings / handlers (the form stays byte-identical) and a second run in place,
    # the support header on disk is the one of the edited source (the leg is shared with C13)
    from checks import c13
    c13.cli_regeneration(chk)
    chk.cov["trusted_base"] = ["expat + regex detectors in vlib/catalog.py", "TLC", "Pipeline.tla", "os.stat / sha1 for the output directory"]
