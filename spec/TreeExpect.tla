------------------------------ MODULE TreeExpect ------------------------------
(* Oracle driver for object trees: for every tree of the input file (GenTree.tla shapes with ids and action   *)
(* lists assigned by the seeded driver) print whether the document is admissible and the form it denotes.     *)
EXTENDS ObjTree, Json, IOUtils
Trees == ndJsonDeserialize(IOEnv.TREES)
VARIABLE i
Init == i \in 1..Len(Trees)
Next == UNCHANGED i
T == Trees[i].tree
Emit == PrintT(<<"FORM", ToJson([id |-> Trees[i].id, accepted |-> Accepted(T),
                                 form |-> IF RootOk(T) THEN FormOf(T, FALSE, SepIds(T)) ELSE FormOf(Node("QWidget", "", <<>>), FALSE, {}),
                                 distinctrepaired |-> AllDistinct(T, TRUE), distinctpinned |-> AllDistinct(T, FALSE)])>>)
=============================================================================
