------------------------------- MODULE GenLit -------------------------------
(***************************************************************************)
(* ECMAScript literal spellings with their exact value (C03): a derivation *)
(* machine builds each spelling from a prefix, digit groups, separators,   *)
(* fraction and exponent and carries the denoted value alongside (Wide     *)
(* integers; doubles as <<mantissa digits, decimal exponent>> evaluated    *)
(* exactly by the driver); string literals are sequences of fragments and  *)
(* escape sequences with the code points they denote.                      *)
(***************************************************************************)
EXTENDS Wide, FiniteSets, Json, IOUtils
DigVal == [c \in {"0", "1", "2", "3", "4", "5", "6", "7", "8", "9"} |->
             CASE c = "0" -> 0 [] c = "1" -> 1 [] c = "2" -> 2 [] c = "3" -> 3 [] c = "4" -> 4 [] c = "5" -> 5 [] c = "6" -> 6
               [] c = "7" -> 7 [] c = "8" -> 8 [] c = "9" -> 9]
HexVal == [c \in {"a", "b", "c", "d", "e", "f", "A", "B", "C", "D", "E", "F"} |->
             CASE c \in {"a", "A"} -> 10 [] c \in {"b", "B"} -> 11 [] c \in {"c", "C"} -> 12 [] c \in {"d", "D"} -> 13
               [] c \in {"e", "E"} -> 14 [] c \in {"f", "F"} -> 15]
Val(c) == IF c \in DOMAIN DigVal THEN DigVal[c] ELSE HexVal[c]
\* a digit string is a sequence of one-character strings and "_" separators
RECURSIVE Spell(_), Value(_, _, _)
Spell(ds) == IF ds = <<>> THEN "" ELSE ds[1] \o Spell(Tail(ds))
Value(ds, radix, acc) == IF ds = <<>> THEN acc
                         ELSE IF ds[1] = "_" THEN Value(Tail(ds), radix, acc)
                         ELSE Value(Tail(ds), radix, Add(Mul(acc, OfInt(radix)), OfInt(Val(ds[1]))))
IntLit(prefix, ds, radix) == [src |-> prefix \o Spell(ds), expect |-> "i:" \o ToDec(Value(ds, radix, Zero)), prop |-> "ival"]
DecDigits == {<<"0">>, <<"7">>, <<"1", "0">>, <<"1", "2", "3">>, <<"9", "0", "0", "7">>, <<"1", "_", "0", "0", "0">>, <<"1", "_", "0", "_", "0">>,
              <<"2", "1", "4", "7", "4", "8", "3", "6", "4", "7">>, <<"4", "2", "9", "4", "9", "6", "7", "2", "9", "6">>,
              <<"9", "0", "0", "7", "1", "9", "9", "2", "5", "4", "7", "4", "0", "9", "9", "2">>}
HexDigits == {<<"0">>, <<"f", "f">>, <<"F", "F">>, <<"d", "E", "a", "D">>, <<"e">>, <<"1", "e", "3">>, <<"1", "E", "3">>, <<"f", "_", "f">>,
              <<"7", "f", "f", "f", "f", "f", "f", "f">>, <<"1", "0", "0", "0", "0", "0", "0", "0", "0">>, <<"a", "b", "c", "d", "e", "f">>}
OctDigits == {<<"0">>, <<"7">>, <<"1", "7">>, <<"7", "7", "7">>, <<"1", "_", "7">>, <<"0", "1", "0">>}
BinDigits == {<<"0">>, <<"1">>, <<"1", "0", "1">>, <<"1", "_", "0", "1">>, <<"1", "1", "1", "1", "1", "1", "1", "1">>, <<"0", "0", "1", "0">>}
LegacyOct == {<<"0">>, <<"7">>, <<"1", "7">>, <<"7", "7", "7">>, <<"0", "1", "0">>}      \* after the leading 0
LegacyDec == {<<"8">>, <<"9">>, <<"1", "8">>, <<"7", "9">>}                                 \* 08, 09, 018: decimal in sloppy mode
Ints == {IntLit("", d, 10) : d \in DecDigits}
        \cup {IntLit(p, d, 16) : p \in {"0x", "0X"}, d \in HexDigits}
        \cup {IntLit(p, d, 8) : p \in {"0o", "0O"}, d \in OctDigits}
        \cup {IntLit(p, d, 2) : p \in {"0b", "0B"}, d \in BinDigits}
        \cup {IntLit("0", d, 8) : d \in LegacyOct} \cup {IntLit("0", d, 10) : d \in LegacyDec}
\* doubles: integer part, fraction digits, exponent; value = digits * 10^(exp - #fraction), computed exactly by the driver
Exps == {<<"", 0>>, <<"e0", 0>>, <<"e1", 1>>, <<"e+2", 2>>, <<"e-1", -1>>, <<"e-3", -3>>, <<"e3", 3>>, <<"e10", 10>>}
DblLit(ip, fp, dot, ex) == [src |-> Spell(ip) \o dot \o Spell(fp) \o ex[1],
                            expect |-> "f:" \o Spell(ip) \o Spell(fp) \o ":" \o ToString(ex[2] - Len(fp)), prop |-> "dval"]
Doubles == {DblLit(ip, fp, ".", ex) : ip \in {<<"0">>, <<"1">>, <<"1", "2">>}, fp \in {<<"5">>, <<"2", "5">>, <<"0">>, <<"1", "2", "5">>, <<"7", "5">>}, ex \in Exps}
           \cup {DblLit(<<>>, fp, ".", ex) : fp \in {<<"5">>, <<"2", "5">>}, ex \in Exps}                 \* .5
           \cup {DblLit(ip, <<>>, ".", ex) : ip \in {<<"5">>, <<"1", "0">>}, ex \in {<<"", 0>>}}           \* 5.
           \cup {DblLit(ip, <<>>, "", ex) : ip \in {<<"1">>, <<"2", "5">>, <<"0">>}, ex \in Exps \ {<<"", 0>>}}   \* 1e3
\* strings: pieces <<spelling, code points>>
Frag == {<<"a", <<97>>>>, <<" ", <<32>>>>, <<"é", <<233>>>>, <<"日本", <<26085, 26412>>>>, <<"'", <<39>>>>, <<"<&>", <<60, 38, 62>>>>}
Esc == {<<"\\n", <<10>>>>, <<"\\t", <<9>>>>, <<"\\'", <<39>>>>, <<"\\\"", <<34>>>>, <<"\\\\", <<92>>>>, <<"\\x41", <<65>>>>, <<"\\x7e", <<126>>>>,
        <<"\\xe9", <<233>>>>, <<"\\u0041", <<65>>>>, <<"\\u00e9", <<233>>>>, <<"\\u65E5", <<26085>>>>, <<"\\u{41}", <<65>>>>, <<"\\u{e9}", <<233>>>>,
        <<"\\u{1F600}", <<128512>>>>, <<"\\u{00041}", <<65>>>>, <<"\\u2028", <<8232>>>>}
BadEsc == {"\\x4", "\\u12", "\\u{110000}", "\\u{}", "\\xZZ"}
\* escapes ECMAScript gives a meaning the implementation may legitimately not support: rejected, or exactly that meaning
OptEsc == {<<"\\q", <<113>>>>, <<"\\8", <<56>>>>, <<"\\1", <<1>>>>, <<"\\7", <<7>>>>, <<"\\\n", <<>>>>, <<"\\a", <<97>>>>}
RECURSIVE JoinCp(_)
JoinCp(cps) == IF cps = <<>> THEN "" ELSE IF Len(cps) = 1 THEN ToString(cps[1]) ELSE ToString(cps[1]) \o "," \o JoinCp(Tail(cps))
StrLit(ps) == [src |-> "\"" \o Spell([j \in 1..Len(ps) |-> ps[j][1]]) \o "\"",
               expect |-> "cp:" \o JoinCp(IF ps = <<>> THEN <<>> ELSE IF Len(ps) = 1 THEN ps[1][2] ELSE IF Len(ps) = 2 THEN ps[1][2] \o ps[2][2] ELSE ps[1][2] \o ps[2][2] \o ps[3][2]),
               prop |-> "text"]
Strings == {StrLit(<<p>>) : p \in Frag \cup Esc} \cup {StrLit(<<p, q>>) : p \in Esc, q \in {<<"1", <<49>>>>, <<"a", <<97>>>>, <<"\\n", <<10>>>>}}
           \cup {StrLit(<<f, p, g>>) : f \in {<<"a", <<97>>>>}, p \in Esc, g \in {<<"f", <<102>>>>, <<"0", <<48>>>>}} \cup {StrLit(<<>>)}
           \cup {[src |-> "\"a" \o b \o "z\"", expect |-> "rej", prop |-> "text"] : b \in BadEsc}
           \cup {[src |-> "\"a" \o p[1] \o "z\"", expect |-> "opt:" \o JoinCp(<<97>> \o p[2] \o <<122>>), prop |-> "text"] : p \in OptEsc}
           \cup {[src |-> "'" \o p[1] \o "'", expect |-> "cp:" \o JoinCp(p[2]), prop |-> "text"] : p \in Esc \ {<<"\\'", <<39>>>>}}   \* single-quoted form
VARIABLE lit
Init == lit \in Ints \cup Doubles \cup Strings
Next == UNCHANGED lit
Emit == PrintT(<<"PROG", ToJson(lit)>>)
=============================================================================
