------------------------------- MODULE Domain -------------------------------
(* The finite input domains shared by the oracle driver (Expect.tla) and the run-time model (Reactive.tla): *)
(* objects, property types of the verification class library, value domains per type and size class, the   *)
(* property slots a program reads and the heaps over them.                                                  *)
EXTENDS Lang

Objs == {"a", "b"}
PropType == [ival |-> "int", jval |-> "int", uval |-> "uint", dval |-> "dbl", flag |-> "bool", flagB |-> "bool",
             text |-> "str", textB |-> "str", mode |-> "Mode", opts |-> "Opts", ptr |-> "ptr", sub |-> "subptr",
             items |-> "list", konst |-> "int", quiet |-> "int", rdonly |-> "int", xval |-> "int", cptr |-> "ptr", fin |-> "int", finq |-> "int"]
Props == DOMAIN PropType

DefaultOf(ty) ==
  CASE ty = "int" -> VInt(0) [] ty = "uint" -> VUint(0) [] ty = "dbl" -> VDbl(0) [] ty = "bool" -> VBool(FALSE)
    [] ty = "str" -> VStr("") [] ty = "Mode" -> VEnum("Mode", 0) [] ty = "Opts" -> VEnum("Opts", 0)
    [] ty \in {"ptr", "subptr"} -> VPtr("null") [] ty = "list" -> VList(<<>>)

\* value domains by size class: 1 = rich, 2 = medium, 3 = two-valued
Dom(ty, cls) ==
  CASE ty = "int"  -> {VInt(n) : n \in (IF cls = 1 THEN {-7, -2, -1, 0, 1, 2, 5} ELSE IF cls = 2 THEN {-2, 0, 3} ELSE {-1, 2})}
    [] ty = "uint" -> {VUint(n) : n \in (IF cls = 1 THEN {0, 1, 3, 6} ELSE IF cls = 2 THEN {0, 1, 5} ELSE {0, 3})}
    [] ty = "dbl"  -> {VDbl(n) : n \in (IF cls = 1 THEN {-6, 0, 1, 8} ELSE IF cls = 2 THEN {-6, 0, 8} ELSE {-6, 2})}
    [] ty = "bool" -> {VBool(TRUE), VBool(FALSE)}
    [] ty = "str"  -> {VStr(s) : s \in (IF cls = 1 THEN {"", "x", "xy"} ELSE {"", "x"})}
    [] ty = "Mode" -> {VEnum("Mode", n) : n \in (IF cls = 1 THEN {0, 1, 2} ELSE {0, 2})}
    [] ty = "Opts" -> {VEnum("Opts", n) : n \in (IF cls = 1 THEN {0, 1, 3, 6} ELSE {0, 3})}
    [] ty = "ptr"  -> {VPtr(s) : s \in {"null", "a", "b"}}
    [] ty = "subptr" -> {VPtr(s) : s \in {"null", "b"}}          \* only b is a TSub
    [] ty = "list" -> {VList(l) : l \in (IF cls = 1 THEN {<<>>, <<"x">>, <<"x", "y">>} ELSE {<<>>, <<"x", "y">>})}

RECURSIVE SlotsE(_), SlotsS(_), SlotsSeq(_)
SlotsArgs(args) == UNION {SlotsE(args[i]) : i \in 1..Len(args)}
SlotsE(e) ==
  CASE e.k = "rd" -> (IF e.o.k = "obj" THEN {<<e.o.n, e.p>>} ELSE {<<o, e.p>> : o \in Objs} \cup SlotsE(e.o))
    [] e.k \in {"un", "cast"} -> SlotsE(e.a)
    [] e.k \in {"bin", "and", "or"} -> SlotsE(e.a) \cup SlotsE(e.b)
    [] e.k = "tern" -> SlotsE(e.c) \cup SlotsE(e.a) \cup SlotsE(e.b)
    [] e.k \in {"call", "arr"} -> SlotsArgs(e.args)
    [] e.k = "sub" -> SlotsE(e.a) \cup SlotsE(e.i)
    [] OTHER -> {}
SlotsSeq(ss) == UNION {SlotsS(ss[i]) : i \in 1..Len(ss)}
SlotsS(x) ==
  CASE x.k \in {"expr", "let", "const", "lett", "asg", "ret"} -> SlotsE(x.e)
    [] x.k = "asgsub" -> SlotsE(x.i) \cup SlotsE(x.e)
    [] x.k = "wprop" -> SlotsE(x.o) \cup SlotsE(x.e)
    [] x.k \in {"mcall", "letc"} -> SlotsE(x.o) \cup SlotsArgs(x.args)
    [] x.k = "log" -> SlotsArgs(x.args)
    [] x.k = "block" -> SlotsSeq(x.b)
    [] x.k = "if" -> SlotsE(x.c) \cup SlotsS(x.a) \cup (IF x.b.k = "none" THEN {} ELSE SlotsS(x.b))
    [] x.k = "switch" -> SlotsE(x.v) \cup UNION {SlotsE(x.cases[i].label) \cup SlotsSeq(x.cases[i].body) : i \in 1..Len(x.cases)}
                          \cup (IF x.def.k = "none" THEN {} ELSE SlotsSeq(x.def.body))
    [] OTHER -> {}

\* only slots of objects that exist (a TSub-typed read through 'sub' may name xval, which only b has)
Slots(p) == {s \in SlotsS(p.body) : s[1] \in Objs /\ s[2] \in Props /\ (s[2] = "xval" => s[1] = "b")}
Class(n) == IF n <= 2 THEN 1 ELSE IF n <= 4 THEN 2 ELSE 3
RECURSIVE AssignC(_, _)
AssignC(S, c) == IF S = {} THEN {[x \in {} |-> 0]}
                 ELSE LET s == CHOOSE s \in S : TRUE IN
                      {g @@ (s :> v) : g \in AssignC(S \ {s}, c), v \in Dom(PropType[s[2]], c)}
Assignments(S) == AssignC(S, Class(Cardinality(S)))
HeapOf(S, f) == [o \in Objs \cup {"t"} |-> [p \in Props |-> IF <<o, p>> \in S THEN f[<<o, p>>] ELSE DefaultOf(PropType[p])]]

=============================================================================
