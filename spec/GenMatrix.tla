----------------------------- MODULE GenMatrix -----------------------------
(* The operator x operand matrix: every binary operator on every admissible numeric type with operands  *)
(* drawn from the sign classes and boundary values, once with both operands dynamic, once left constant, *)
(* once right constant and once both constant (the folded-next-to-dynamic cases of C01): the folded      *)
(* sub-expression sits inside a binding that also reads a property, so it reaches the C++ header.        *)
EXTENDS Ast
A == Obj("a")
B == Obj("b")
Neg(n) == Un("-", IntL(n))
IConst == {Neg(7), Neg(2), Neg(1), IntL(0), IntL(1), IntL(2), IntL(3), IntL(7), IntL(31)}
IDyn == {Rd(A, "ival"), Rd(B, "ival")}
IOperand == IConst \cup IDyn
IntOps == {"+", "-", "*", "/", "%", "&", "|", "^", "<<", ">>"}
CmpOps == {"==", "!=", "<", "<=", ">", ">="}
J == Rd(B, "jval")
IntMatrix == {Bin("+", Bin(op, x, y), J) : op \in IntOps, x \in IOperand, y \in IOperand}
             \cup {Bin("+", Tern(Bin(op, x, y), IntL(1), IntL(2)), J) : op \in CmpOps, x \in IOperand, y \in IOperand}
             \cup {Bin("+", Un(op, x), J) : op \in {"-", "+", "~"}, x \in IOperand}
UConst == {IntL(0), IntL(1), IntL(3), IntL(8)}
UDyn == {Rd(A, "uval")}
UMatrix == {Bin(op, x, y) : op \in {"+", "-", "*", "/", "%", "&", "|", "^", "<<", ">>"}, x \in UDyn, y \in UConst \cup {Rd(B, "uval")}}
           \cup {Bin(op, y, x) : op \in {"+", "*", "/", "%", "&", "|", "^"}, x \in UDyn, y \in UConst}
           \cup {Call(f, <<x, y>>) : f \in {"Math.max", "Math.min"}, x \in UDyn, y \in UConst \cup {Rd(B, "uval")}}
           \cup {Call(f, <<y, x>>) : f \in {"Math.max", "Math.min"}, x \in UDyn, y \in UConst}
DConst == {Dbl(0), Dbl(1), Dbl(2), Dbl(6), Dbl(8), Un("-", Dbl(6)), Un("-", Dbl(1))}
DDyn == {Rd(A, "dval")}
W == Rd(B, "dval")
DMatrix == {Bin("+", Bin(op, x, y), W) : op \in {"+", "-", "*", "/", "%"}, x \in DConst \cup DDyn, y \in DConst \cup DDyn}
           \cup {Tern(Bin(op, x, y), W, Dbl(2)) : op \in CmpOps, x \in DConst \cup DDyn, y \in DConst \cup DDyn}
BConst == {Bool(TRUE), Bool(FALSE)}
BDyn == {Rd(A, "flag")}
K == Rd(B, "flag")
BMatrix == {Bin("^", Bin(op, x, y), K) : op \in {"&", "|", "^", "==", "!="}, x \in BConst \cup BDyn, y \in BConst \cup BDyn}
           \cup {Bin("^", And(x, y), K) : x \in BConst \cup BDyn, y \in BConst \cup BDyn}
           \cup {Bin("^", Or(x, y), K) : x \in BConst \cup BDyn, y \in BConst \cup BDyn}
SConst == {Str(""), Str("x"), Str("xy")}
SDyn == {Rd(A, "text")}
T == Rd(B, "text")
SMatrix == {Bin("+", Bin("+", x, y), T) : x \in SConst \cup SDyn, y \in SConst \cup SDyn}
           \cup {Tern(Bin(op, x, y), T, Str("n")) : op \in {"==", "!="}, x \in SConst \cup SDyn, y \in SConst \cup SDyn}
P(prop, e) == [prop |-> prop, body |-> [k |-> "expr", e |-> e]]
Matrix == {P("ival", e) : e \in Sample(IntMatrix)} \cup {P("uval", e) : e \in UMatrix} \cup {P("dval", e) : e \in Sample(DMatrix)}
          \cup {P("flag", e) : e \in BMatrix} \cup {P("text", e) : e \in SMatrix}
VARIABLE prog
Init == prog \in Matrix
Next == UNCHANGED prog
Emit == PrintT(<<"PROG", ToJson(prog)>>)
=============================================================================
