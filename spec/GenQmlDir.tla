------------------------------ MODULE GenQmlDir ------------------------------
(* Layouts for C18: crafted families (mutual imports, mutual / self / 3-cycle inheritance, components extending components *)
(* across directories, shadowed names, broken imports, unknown types) and seeded random layouts over seven file slots in    *)
(* three directories; for every file of every layout TLC prints what QmlDir.tla predicts when that file is a source.      *)
EXTENDS QmlDir, Json, IOUtils, Randomization
N == atoi(IOEnv.LIMIT)
Dirs == {"a", "b", "a/s"}
F(d, n, r, imp, kids) == [dir |-> d, name |-> n, root |-> r, imports |-> imp, kids |-> kids, qt |-> "plain"]
Fq(d, n, r, imp, kids, q) == [dir |-> d, name |-> n, root |-> r, imports |-> imp, kids |-> kids, qt |-> q]
Lay(fs) == [dirs |-> Dirs, files |-> fs]
Crafted == {
  \* the example project: child import
  Lay(<<F("a", "M", "QWidget", <<"a/s">>, <<"D", "D", "QLabel">>), F("a/s", "D", "QLabel", <<>>, <<>>)>>),
  \* pattern A B A B: every class listed once
  Lay(<<F("a", "M", "QWidget", <<>>, <<"A", "B", "A", "B">>), F("a", "A", "QLabel", <<>>, <<>>), F("a", "B", "QPushButton", <<>>, <<>>)>>),
  \* mutually importing directories
  Lay(<<F("a", "M", "QWidget", <<"b">>, <<"C">>), F("b", "C", "A", <<"a">>, <<>>), F("a", "A", "QLabel", <<"b">>, <<>>)>>),
  \* component extending a component of another directory that the document itself does not import
  Lay(<<F("a", "M", "QWidget", <<"b">>, <<"C", "C">>), F("b", "C", "D", <<"a/s">>, <<>>), F("a/s", "D", "QLabel", <<>>, <<>>)>>),
  \* mutual inheritance, used and unused
  Lay(<<F("a", "M", "QWidget", <<>>, <<"A">>), F("a", "A", "B", <<>>, <<>>), F("a", "B", "A", <<>>, <<>>), F("a", "N", "QWidget", <<>>, <<"QLabel">>)>>),
  \* mutual inheritance across mutually importing directories
  Lay(<<F("a", "M", "QWidget", <<"b">>, <<"A", "C">>), F("a", "A", "C", <<"b">>, <<>>), F("b", "C", "A", <<"a">>, <<>>)>>),
  \* self inheritance and a 3-cycle
  Lay(<<F("a", "A", "A", <<>>, <<>>), F("a", "M", "QWidget", <<>>, <<"A">>), F("b", "B", "C", <<>>, <<>>), F("b", "C", "D", <<>>, <<>>), F("b", "D", "B", <<>>, <<"B">>),
        F("b", "N", "QWidget", <<>>, <<"QLabel">>)>>),
  \* shadowing: the last import providing the name wins, also for the super class of a component
  Lay(<<F("a", "M", "QWidget", <<"b">>, <<"B", "A">>), F("a", "B", "QLabel", <<>>, <<>>), F("b", "B", "QPushButton", <<>>, <<>>), F("a", "A", "B", <<>>, <<>>),
        F("b", "N", "B", <<"a">>, <<"B">>)>>),
  Lay(<<F("a", "M", "QWidget", <<"b", "a">>, <<"B">>), F("a", "B", "QLabel", <<>>, <<>>), F("b", "B", "QPushButton", <<>>, <<>>)>>),
  \* a directory importing itself and its parent
  Lay(<<F("a/s", "D", "QLabel", <<"a/s", "a">>, <<"A">>), F("a", "A", "QPushButton", <<"a/s">>, <<>>), F("a", "M", "D", <<"a/s">>, <<"D", "A">>)>>),
  \* broken import in a component (confined) and in the document (an error); unknown types
  Lay(<<F("a", "M", "QWidget", <<>>, <<"A">>), F("a", "A", "QLabel", <<"nodir">>, <<>>), F("a", "N", "QWidget", <<"nodir">>, <<"A">>), F("a", "U", "Nope", <<>>, <<>>),
        F("a", "V", "QWidget", <<>>, <<"U">>), F("a", "W", "QWidget", <<>>, <<"Nope">>)>>),
  \* a component whose super is only visible through an import that does not exist
  Lay(<<F("a", "M", "QWidget", <<"b">>, <<"C">>), F("b", "C", "A", <<"nodir">>, <<>>), F("a", "A", "QLabel", <<>>, <<>>)>>),
  \* a component wrapping an imported component of the same name, used as the root of a further component: two distinct classes named B are ancestors
  Lay(<<F("a", "M", "QWidget", <<>>, <<"A", "B">>), F("a", "A", "B", <<>>, <<>>), F("a", "B", "B", <<"b">>, <<>>), F("b", "B", "QPushButton", <<>>, <<>>)>>),
  Lay(<<F("a", "M", "A", <<>>, <<"A">>), F("a", "A", "D", <<"a/s">>, <<>>), F("a/s", "D", "D", <<"b">>, <<>>), F("b", "D", "D", <<"a">>, <<>>), F("a", "D", "QLabel", <<>>, <<>>)>>),
  \* the Qt module imported with a version (ignored), in components and in the document
  Lay(<<Fq("a", "M", "QWidget", <<"b">>, <<"A", "C", "QLabel">>, "versioned"), Fq("a", "A", "QPushButton", <<>>, <<>>, "versioned"), Fq("b", "C", "A", <<"a">>, <<>>, "versioned")>>),
  \* files that do not import the Qt module: second-level components and documents made of components only are fine, Qt names are unknown there
  Lay(<<Fq("a", "M", "A", <<>>, <<"A", "B">>, "none"), Fq("a", "A", "B", <<>>, <<>>, "none"), F("a", "B", "QLabel", <<>>, <<>>),
        Fq("a", "N", "QWidget", <<>>, <<"A">>, "none"), Fq("a", "O", "A", <<>>, <<"QLabel">>, "none"), F("a", "P", "QWidget", <<>>, <<"A", "B">>)>>),
  Lay(<<F("a", "M", "QWidget", <<"b">>, <<"C", "A">>), Fq("b", "C", "D", <<"a/s">>, <<>>, "none"), Fq("a/s", "D", "A", <<"a">>, <<>>, "none"), Fq("a", "A", "QPushButton", <<>>, <<>>, "versioned"),
        Fq("b", "X", "QLabel", <<>>, <<>>, "none"), Fq("b", "N", "C", <<>>, <<"C", "X">>, "none"), Fq("b", "O", "C", <<>>, <<"C">>, "none")>>),
  \* root object of the document is itself a component; same class as root and child
  Lay(<<F("a", "M", "A", <<>>, <<"A", "B">>), F("a", "A", "B", <<>>, <<>>), F("a", "B", "QWidget", <<>>, <<>>)>>) }
\* ---- random layouts ---------------------------------------------------------------------------------
Pick(s) == s[RandomElement(1..Len(s))]
Roots == <<"QWidget", "QWidget", "QLabel", "QPushButton", "A", "B", "C", "D", "B", "C", "Nope">>
Kid == <<"A", "B", "C", "D", "A", "B", "C", "D", "QLabel", "QPushButton", "Nope">>
Dir == <<"a", "b", "a/s", "a", "b", "a/s", "a", "b", "a/s", "nodir">>
Imps(z) == Pick(<< <<>>, <<>>, <<Pick(Dir)>>, <<Pick(Dir)>>, <<Pick(Dir)>>, <<Pick(Dir), Pick(Dir)>>, <<Pick(Dir), Pick(Dir)>> >>)
Kids(z) == Pick(<< <<>>, <<Pick(Kid)>>, <<Pick(Kid), Pick(Kid)>>, <<Pick(Kid), Pick(Kid), Pick(Kid)>>, <<Pick(Kid), Pick(Kid), Pick(Kid), Pick(Kid)>> >>)
Qts == <<"plain", "plain", "versioned", "none">>
Comp(d, n) == Pick(<< <<Fq(d, n, Pick(Roots), Imps(1), <<>>, Pick(Qts))>>, <<Fq(d, n, Pick(Roots), Imps(1), Kids(1), Pick(Qts))>>, <<>> >>)
Random(z) == <<Fq("a", "M", Pick(<<"QWidget", "QWidget", "A", "C">>), Imps(1), Kids(1), Pick(Qts))>> \o Comp("a", "A") \o Comp("a", "B") \o Comp("b", "B") \o Comp("b", "C")
          \o Comp("a/s", "D") \o Comp("a/s", "A") \o Pick(<< <<>>, <<F("b", "N", "QWidget", Imps(1), Kids(1))>> >>)
\* friendly layouts: every name resolves somewhere, most roots are Qt classes; acceptance is decided by shadowing and cycles
Roots2 == <<"QWidget", "QLabel", "QPushButton", "QWidget", "QLabel", "QPushButton", "A", "B", "D", "C">>
Kid2 == <<"A", "B", "C", "D", "A", "B", "C", "D", "QLabel">>
Imps2(z) == Pick(<< <<"a", "b", "a/s">>, <<"a/s", "b", "a">>, <<"b", "a/s">>, <<"b", "a">>, <<"a/s", "a", "b">>, <<"a", "a/s", "b">>, <<"b", "a", "a/s", "b">> >>)
Kids2(z) == Pick(<< <<Pick(Kid2)>>, <<Pick(Kid2), Pick(Kid2)>>, <<Pick(Kid2), Pick(Kid2), Pick(Kid2)>>, <<Pick(Kid2), Pick(Kid2), Pick(Kid2), Pick(Kid2)>> >>)
\* friendly: a file goes without the Qt module only if it names no Qt class itself
Fit(f) == IF f.root \in Qt \/ \E i \in 1..Len(f.kids) : f.kids[i] \in Qt THEN [f EXCEPT !.qt = Pick(<<"plain", "versioned">>)] ELSE [f EXCEPT !.qt = Pick(<<"none", "none", "plain", "versioned">>)]
Comp2(d, n) == Pick(<< <<Fit(F(d, n, Pick(Roots2), Imps2(1), <<>>))>>, <<Fit(F(d, n, Pick(Roots2), Imps2(1), Kids2(1)))>>, <<Fit(F(d, n, Pick(Roots2), <<>>, <<>>))>> >>)
Friendly(z) == <<Fit(F("a", "M", Pick(<<"QWidget", "QWidget", "A", "C">>), Imps2(1), Kids2(1)))>> \o Comp2("a", "A") \o Comp2("a", "B") \o Comp2("b", "B") \o Comp2("b", "C")
          \o Comp2("a/s", "D") \o Pick(<< <<>>, Comp2("a/s", "A") >>) \o <<Fit(F("b", "N", Pick(<<"QWidget", "B", "C">>), Imps2(1), Kids2(1)))>>
VARIABLES n, L
Init == Start(Lay(<<>>), <<>>) /\ n \in 1..N /\ L = (IF n <= Cardinality(Crafted) THEN CHOOSE c \in Crafted : TRUE ELSE IF n % 3 = 0 THEN Lay(Random(n)) ELSE Lay(Friendly(n)))
Next == UNCHANGED <<n, L, dvars>>
\* (the crafted layouts are emitted once, from the state n = 1)
Out(lay0, tag) == PrintT(<<"LAYOUT", ToJson([tag |-> tag, dirs |-> lay0.dirs, files |-> lay0.files,
        expect |-> [i \in 1..Len(lay0.files) |->
           LET s == lay0.files[i] IN
           [accepted |-> Accepted(lay0, s), custom |-> Custom(lay0, s),
            classes |-> [j \in 1..Len(Objects(lay0, s)) |-> Objects(lay0, s)[j].n],
            bases |-> [j \in 1..Len(Objects(lay0, s)) |-> Base(lay0, Objects(lay0, s)[j], {})],
            reach |-> ReachFrom(lay0, {s.dir})]]])>>)
Emit == IF n = 1 THEN \A c \in Crafted : Out(c, "crafted") ELSE (n > Cardinality(Crafted) => Out(L, "random"))
=============================================================================
