INIT Init
NEXT Next
INVARIANT CalledDefinedOnce
INVARIANT DistinctNames
INVARIANT OwnIndex
INVARIANT GuardLargeEnough
INVARIANT ObserversOk
INVARIANT IncludesOk
INVARIANT Compiles
CHECK_DEADLOCK FALSE
