------------------------------ MODULE GenConst ------------------------------
(***************************************************************************)
(* Constant expressions with the value the documented semantics assign     *)
(* (C03): 64-bit checked integer arithmetic (Wide.tla), truncating         *)
(* division and remainder, shifts with a count in 0..63 whose result must  *)
(* fit, bitwise operations on two's complement, comparisons on every       *)
(* literal type, exact double arithmetic on quarters, string               *)
(* concatenation, bool operators.  A constant expression whose value is    *)
(* undefined (division by zero, 64-bit overflow, bad shift count) or       *)
(* which mixes types has the expectation "rej" (must be diagnosed, never   *)
(* embedded).  Each program is printed with its QML spelling.              *)
(***************************************************************************)
EXTENDS Wide, FiniteSets, Json, IOUtils, Randomization
Limit == atoi(IOEnv.LIMIT)
Sample(S) == IF Cardinality(S) <= Limit THEN S ELSE RandomSubset(Limit, S)

\* values
VI(w) == [t |-> "int", w |-> w, b |-> FALSE, q |-> 0, s |-> ""]
VB(x) == [t |-> "bool", w |-> Zero, b |-> x, q |-> 0, s |-> ""]
VD(q) == [t |-> "dbl", w |-> Zero, b |-> FALSE, q |-> q, s |-> ""]
VS(s) == [t |-> "str", w |-> Zero, b |-> FALSE, q |-> 0, s |-> s]
Rej   == [t |-> "rej", w |-> Zero, b |-> FALSE, q |-> 0, s |-> ""]
Chk(w) == IF FitsI64(w) THEN VI(w) ELSE Rej
MaxI32 == 2147483647
AbsN(n) == IF n < 0 THEN -n ELSE n
SgnN(n) == IF n < 0 THEN -1 ELSE IF n > 0 THEN 1 ELSE 0
TDiv(a, b) == SgnN(a) * SgnN(b) * (AbsN(a) \div AbsN(b))
SmallInt(w) == CmpMag(w.mag, <<100>>) <= 0        \* |w| <= 100: usable as a TLC integer
ToSmall(w) == IF w.mag = <<>> THEN 0 ELSE IF w.neg THEN -w.mag[1] ELSE w.mag[1]

\* expressions
Lit(w) == [k |-> "int", w |-> w]
DLit(q) == [k |-> "dbl", q |-> q]
BLit(x) == [k |-> "bool", b |-> x]
SLit(s) == [k |-> "str", s |-> s]
Un(op, a) == [k |-> "un", op |-> op, a |-> a]
Bin(op, a, b) == [k |-> "bin", op |-> op, a |-> a, b |-> b]

CmpRes(op, c) == CASE op = "==" -> c = 0 [] op = "!=" -> c # 0 [] op = "<" -> c < 0 [] op = "<=" -> c <= 0
                   [] op = ">" -> c > 0 [] op = ">=" -> c >= 0
CmpOps == {"==", "!=", "<", "<=", ">", ">="}
ArithOps == {"+", "-", "*", "/", "%"}
BitOps == {"&", "|", "^"}
ShiftOps == {"<<", ">>"}
IntBin(op, a, b) ==
  CASE op = "+" -> Chk(Add(a, b)) [] op = "-" -> Chk(Sub(a, b)) [] op = "*" -> Chk(Mul(a, b))
    [] op = "/" -> (IF IsZero(b) THEN Rej ELSE Chk(DivTrunc(a, b)))
    [] op = "%" -> (IF IsZero(b) \/ (a = I64Min /\ b = OfInt(-1)) THEN Rej ELSE Chk(RemTrunc(a, b)))
    [] op = "&" -> VI(BitAnd(a, b)) [] op = "|" -> VI(BitOr(a, b)) [] op = "^" -> VI(BitXor(a, b))
    [] op \in ShiftOps -> (IF b.neg \/ ~SmallInt(b) \/ ToSmall(b) >= 64 THEN Rej
                           ELSE IF op = "<<" THEN Chk(Mul(a, Pow2(ToSmall(b))))      \* bits shifted out = overflow
                           ELSE VI(DivFloor(a, Pow2(ToSmall(b)))))
    [] op \in CmpOps -> VB(CmpRes(op, Cmp(a, b)))
    [] OTHER -> Rej
DblBin(op, a, b) ==
  CASE op = "+" -> VD(a + b) [] op = "-" -> VD(a - b)
    [] op = "*" -> (IF AbsN(a * b) % 4 = 0 THEN VD(TDiv(a * b, 4)) ELSE [Rej EXCEPT !.t = "inexact"])
    [] op = "/" -> (IF b # 0 /\ (4 * AbsN(a)) % AbsN(b) = 0 THEN VD(TDiv(4 * a, b)) ELSE [Rej EXCEPT !.t = "inexact"])
    [] op = "%" -> (IF b # 0 THEN VD(a - b * TDiv(a, b)) ELSE [Rej EXCEPT !.t = "inexact"])
    [] op \in CmpOps -> VB(CmpRes(op, IF a < b THEN -1 ELSE IF a > b THEN 1 ELSE 0))
    [] OTHER -> Rej
BoolRank(x) == IF x THEN 1 ELSE 0
BoolBin(op, a, b) ==
  CASE op = "&" -> VB(a /\ b) [] op = "|" -> VB(a \/ b) [] op = "^" -> VB(a # b)
    [] op \in CmpOps -> VB(CmpRes(op, BoolRank(a) - BoolRank(b)))
    [] OTHER -> Rej
StrBin(op, a, b) == CASE op = "+" -> VS(a \o b) [] op = "==" -> VB(a = b) [] op = "!=" -> VB(a # b) [] OTHER -> [Rej EXCEPT !.t = "inexact"]
RECURSIVE CEval(_)
CEval(e) ==
  CASE e.k = "int" -> Chk(e.w)
    [] e.k = "dbl" -> VD(e.q) [] e.k = "bool" -> VB(e.b) [] e.k = "str" -> VS(e.s)
    [] e.k = "un" -> LET a == CEval(e.a) IN
         IF a.t \in {"rej", "inexact"} THEN a
         ELSE (CASE e.op = "-" -> (IF a.t = "int" THEN Chk(Neg(a.w)) ELSE IF a.t = "dbl" THEN VD(-a.q) ELSE Rej)
                [] e.op = "+" -> (IF a.t \in {"int", "dbl"} THEN a ELSE Rej)
                [] e.op = "~" -> (IF a.t = "int" THEN VI(BitNot(a.w)) ELSE Rej)
                [] e.op = "!" -> (IF a.t = "bool" THEN VB(~a.b) ELSE Rej))
    [] e.k = "bin" -> LET a == CEval(e.a)  b == CEval(e.b) IN
         IF a.t = "rej" \/ b.t = "rej" THEN Rej
         ELSE IF a.t = "inexact" \/ b.t = "inexact" THEN [Rej EXCEPT !.t = "inexact"]
         ELSE IF a.t # b.t THEN Rej
         ELSE (CASE a.t = "int" -> IntBin(e.op, a.w, b.w) [] a.t = "dbl" -> DblBin(e.op, a.q, b.q)
                [] a.t = "bool" -> BoolBin(e.op, a.b, b.b) [] a.t = "str" -> StrBin(e.op, a.s, b.s))

\* QML spelling
QStr(q) == LET n == AbsN(q) \div 4  f == AbsN(q) % 4 IN
           ToString(n) \o (CASE f = 0 -> ".0" [] f = 1 -> ".25" [] f = 2 -> ".5" [] f = 3 -> ".75")
RECURSIVE Src(_)
Src(e) == CASE e.k = "int" -> ToDec(e.w) [] e.k = "dbl" -> QStr(e.q) [] e.k = "bool" -> (IF e.b THEN "true" ELSE "false")
            [] e.k = "str" -> "\"" \o e.s \o "\""
            [] e.k = "un" -> "(" \o e.op \o "(" \o Src(e.a) \o "))"
            [] e.k = "bin" -> "((" \o Src(e.a) \o ") " \o e.op \o " (" \o Src(e.b) \o "))"
Show(v) == CASE v.t = "int" -> "i:" \o ToDec(v.w) [] v.t = "bool" -> (IF v.b THEN "b:1" ELSE "b:0")
             [] v.t = "dbl" -> "d:" \o ToString(v.q) [] v.t = "str" -> "s:" \o v.s [] OTHER -> v.t

\* operands
N(n) == IF n < 0 THEN Un("-", Lit(OfInt(-n))) ELSE Lit(OfInt(n))
MaxE == Lit(I64Max)
MinE == Bin("-", Un("-", Lit(I64Max)), Lit(OfInt(1)))
P31 == Lit(Pow2(31))
P32 == Lit(Pow2(32))
P53 == Lit(Pow2(53))
IntOperands == {MinE, N(-7), N(-2), N(-1), N(0), N(1), N(2), N(3), N(7), P31, P32, P53, MaxE, Un("-", MaxE), Lit(Pow2(62))}
ShiftCounts == {N(-1), N(0), N(1), N(2), N(31), N(32), N(62), N(63), N(64), P32, Bin("-", N(3), P32)}
TooBig == Lit(Pow2(63))            \* 9223372036854775808 does not fit a signed 64-bit literal
IntMatrix == {Bin(op, x, y) : op \in ArithOps \cup BitOps \cup CmpOps, x \in IntOperands, y \in IntOperands}
             \cup {Bin(op, x, y) : op \in ShiftOps, x \in IntOperands, y \in ShiftCounts}
             \cup {Un(op, x) : op \in {"-", "+", "~"}, x \in IntOperands} \cup {TooBig, Un("-", TooBig)}
SmallOperands == {N(-7), N(-1), N(0), N(2), N(3), MaxE, MinE, P31}
Nested == {Bin(op2, Bin(op1, x, y), z) : op1 \in {"+", "-", "*", "/", "%", "<<", ">>", "&"}, op2 \in {"+", "-", "*", "/", "%", ">>", "|", "^", "<"},
                                          x \in SmallOperands, y \in {N(-1), N(0), N(2), N(3), N(62)}, z \in {N(-1), N(2), N(7), MaxE}}
DblOperands == {DLit(0), DLit(1), DLit(2), DLit(6), DLit(8), Un("-", DLit(6)), Un("-", DLit(1)), DLit(40)}
DblMatrix == {Bin(op, x, y) : op \in ArithOps \cup CmpOps, x \in DblOperands, y \in DblOperands} \cup {Un(op, x) : op \in {"-", "+"}, x \in DblOperands}
BoolMatrix == {Bin(op, x, y) : op \in BitOps \cup CmpOps, x \in {BLit(TRUE), BLit(FALSE)}, y \in {BLit(TRUE), BLit(FALSE)}}
              \cup {Un("!", x) : x \in {BLit(TRUE), BLit(FALSE), Un("!", BLit(TRUE))}}
StrOperands == {SLit(""), SLit("a"), SLit("ab"), SLit("b c")}
StrMatrix == {Bin(op, x, y) : op \in {"+", "==", "!="}, x \in StrOperands, y \in StrOperands}
             \cup {Bin("+", Bin("+", x, y), z) : x \in StrOperands, y \in StrOperands, z \in {SLit("z")}}
Mixed == {Bin(op, x, y) : op \in {"+", "-", "*", "==", "<", "&", "<<"},
                          x \in {N(1), DLit(6), BLit(TRUE), SLit("a")}, y \in {N(2), DLit(2), BLit(FALSE), SLit("b")}}
         \cup {Un(op, x) : op \in {"-", "~", "!"}, x \in {N(1), DLit(6), BLit(TRUE), SLit("a")}}
All == IntMatrix \cup Sample(Nested) \cup DblMatrix \cup BoolMatrix \cup StrMatrix \cup Mixed
PropOf(v) == CASE v.t = "bool" -> "flag" [] v.t = "dbl" -> "dval" [] v.t = "str" -> "text" [] OTHER -> "ival"
VARIABLE e
Init == e \in All
Next == UNCHANGED e
Emit == LET v == CEval(e) IN PrintT(<<"PROG", ToJson([prop |-> PropOf(v), src |-> Src(e), expect |-> Show(v)])>>)
=============================================================================
