INIT Init
NEXT Next
INVARIANT NoTrap
INVARIANT Current
CHECK_DEADLOCK FALSE
