INIT Init
NEXT Next
INVARIANT Conforms
CHECK_DEADLOCK FALSE
