------------------------------ MODULE Reactive ------------------------------
(***************************************************************************)
(* The generated run time of one dynamic binding (uigen/binding.rs         *)
(* output): setup<B>() connects the static dependencies, update<B>()       *)
(* evaluates eval<B>() -- the REAL IR recorded through the observation     *)
(* hook, run by the abstract machine of Tir.tla, ObserveProperty           *)
(* reconnecting exactly as the emitted C++ does -- and stores the result   *)
(* in the target property.  The environment changes any property the       *)
(* source expression reads (Qt-convention setter: store, then emit the     *)
(* NOTIFY signal declared in the type information) including re-pointing   *)
(* and nulling of intermediate pointers.  TLC explores the COMPLETE        *)
(* reachable state space, i.e. change histories of unbounded length.       *)
(*                                                                         *)
(* Current: in every reachable state where the source expression is        *)
(* defined, the target equals the value Lang.tla assigns to the source.    *)
(***************************************************************************)
EXTENDS Domain, Tir, Json, IOUtils

Recs == ndJsonDeserialize(IOEnv.RECS)
VARIABLES bi, heap, obs, trap
vars == <<bi, heap, obs, trap>>
Target == "t0"
Rec == Recs[bi]
S(b) == Slots(Recs[b])
Cls(b) == Class(Cardinality(S(b)))
Ref(b, h) == Run(Recs[b].body, h, <<>>)
Defined(b, h) == Ref(b, h).ok /\ TailDet(Recs[b].body, h, <<>>)
Static(b) == {<<Recs[b].code.deps[j].obj, Recs[b].code.deps[j].sig.name>> : j \in 1..Len(Recs[b].code.deps)}
\* NOTIFY signal of a property as declared in the class library; these have none / cannot be set
\* (a read-only property WITH a NOTIFY signal -- rdonly, and fin, which is FINAL on top -- changes from inside the object)
Immutable == {"konst", "cptr", "quiet", "finq"}
NotifyOf(p) == p \o "Changed"
Listens(b, o, sig, ob) == <<o, sig>> \in Static(b) \/ \E j \in 1..Len(ob) : ob[j].on /\ ob[j].obj = o /\ ob[j].sig = sig
Update(b, h, ob) == LET r == RunTir(Recs[b].code, ob, h) IN
                    [h |-> IF r.ok THEN [h EXCEPT ![Target][Recs[b].prop] = r.val] ELSE h, obs |-> r.obs, ok |-> r.ok]
HeapT(b, f) == LET h == HeapOf(S(b), f) IN [o \in DOMAIN h \cup {Target} |-> IF o = Target THEN h["t"] ELSE h[o]]
Init == /\ bi \in 1..Len(Recs)
        /\ \E f \in Assignments(S(bi)) :
             LET h0 == HeapT(bi, f) IN
             /\ Defined(bi, h0)
             /\ LET u == Update(bi, h0, Obs0(Recs[bi].code)) IN heap = u.h /\ obs = u.obs /\ trap = ~u.ok
Change(o, p, v) ==
  /\ heap[o][p] # v
  /\ LET h2 == [heap EXCEPT ![o][p] = v] IN
     /\ Defined(bi, h2)
     /\ IF Listens(bi, o, NotifyOf(p), obs)
        THEN LET u == Update(bi, h2, obs) IN heap' = u.h /\ obs' = u.obs /\ trap' = ~u.ok
        ELSE heap' = h2 /\ UNCHANGED <<obs, trap>>
  /\ UNCHANGED bi
Next == \E s \in S(bi) : s[2] \notin Immutable /\ \E v \in Dom(PropType[s[2]], Cls(bi)) : Change(s[1], s[2], v)
NoTrap == ~trap
Current == ~trap => heap[Target][Rec.prop] = Ref(bi, heap).val
=============================================================================
