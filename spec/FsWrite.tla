------------------------------- MODULE FsWrite -------------------------------
(***************************************************************************)
(* The output protocol of `qmluic generate-ui` (src/main.rs                *)
(* generate_ui_file / with_output_file) as a state machine over a small    *)
(* file system: per output path  read-compare, (mkdir), create temp in     *)
(* the same directory, write, chmod, rename -- one action per system       *)
(* call -- with a crash possible between any two actions (C15).            *)
(*   fs[p]    content of the output path p: "absent" | a version number    *)
(*   tmp      temp files: name -> [dir, content: "empty"|"partial"|version, moded] *)
(*   want[p]  the content this run wants at p (a version number)           *)
(*   phase[p] "todo" | "compared" | "skip" | "temp" | "done" | "failed"    *)
(* A version ("v1", "v2", ...) stands for the complete text of a translation. *)
(***************************************************************************)
EXTENDS Integers, Sequences, FiniteSets, TLC
CONSTANTS Paths            \* output paths of one run, e.g. {"x.ui", "uisupport_x.h"}
VARIABLES fs, tmp, want, phase, cur, alive, old
vars == <<fs, tmp, want, phase, cur, alive, old>>
Absent == "absent"
\* ---- actions (one per system call) ---------------------------------------------------------------
\* read the old content and compare: nothing else happens to an output that is already up to date
ReadOld(p) == /\ alive /\ phase[p] = "todo"
              /\ phase' = [phase EXCEPT ![p] = IF fs[p] = want[p] THEN "skip" ELSE "compared"]
              /\ UNCHANGED <<fs, tmp, want, cur, alive, old>>
CreateTemp(p, t) == /\ alive /\ phase[p] = "compared" /\ t \notin DOMAIN tmp
                    /\ tmp' = (t :> [for |-> p, content |-> "empty", moded |-> FALSE]) @@ tmp
                    /\ phase' = [phase EXCEPT ![p] = "temp"] /\ cur' = [cur EXCEPT ![p] = t]
                    /\ UNCHANGED <<fs, want, alive, old>>
\* a write call appends: the temp is complete after the last one (the model does not know how many there are)
Write(p, complete) == /\ alive /\ phase[p] = "temp" /\ ~tmp[cur[p]].moded
                      /\ tmp[cur[p]].content \in {"empty", "partial"}
                      /\ tmp' = [tmp EXCEPT ![cur[p]].content = IF complete THEN want[p] ELSE "partial"]
                      /\ UNCHANGED <<fs, want, phase, cur, alive, old>>
\* permissions are set after the content has been written completely (the writer closure has returned)
Chmod(p) == /\ alive /\ phase[p] = "temp" /\ ~tmp[cur[p]].moded /\ tmp[cur[p]].content = want[p]
            /\ tmp' = [tmp EXCEPT ![cur[p]].moded = TRUE]
            /\ UNCHANGED <<fs, want, phase, cur, alive, old>>
\* rename is atomic: the path switches from its old complete content to whatever the temp holds
Rename(p) == /\ alive /\ phase[p] = "temp" /\ tmp[cur[p]].moded
             /\ fs' = [fs EXCEPT ![p] = tmp[cur[p]].content]
             /\ tmp' = [t \in DOMAIN tmp \ {cur[p]} |-> tmp[t]]
             /\ phase' = [phase EXCEPT ![p] = "done"]
             /\ UNCHANGED <<want, cur, alive, old>>
\* an I/O error while writing: the temp file is removed again (NamedTempFile drop), the output path is not touched
Abandon(p) == /\ alive /\ phase[p] = "temp"
              /\ tmp' = [t \in DOMAIN tmp \ {cur[p]} |-> tmp[t]]
              /\ phase' = [phase EXCEPT ![p] = "failed"] /\ cur' = [cur EXCEPT ![p] = "none"]
              /\ UNCHANGED <<fs, want, alive, old>>
Crash == alive /\ alive' = FALSE /\ UNCHANGED <<fs, tmp, want, phase, cur, old>>
\* ---- properties ------------------------------------------------------------------------------------
\* at every moment -- in particular after a crash -- each output path holds its complete old or its complete new content
OldOrNew == \A p \in Paths : fs[p] \in {old[p], want[p]}
\* an output that was already up to date is never touched: no temp, no rename
Untouched == \A p \in Paths : phase[p] = "skip" => fs[p] = old[p] /\ cur[p] = "none"      \* (temp files of an earlier, crashed run may lie around)
\* a finished run leaves the wanted content everywhere and no temp file behind
Finished == (\A p \in Paths : phase[p] \in {"skip", "done"}) => (\A p \in Paths : fs[p] = want[p]) /\ DOMAIN tmp = {}
\* only complete content is ever renamed into place
RenameComplete == \A p \in Paths : phase[p] = "done" => fs[p] = want[p]
=============================================================================
