------------------------------- MODULE Layout -------------------------------
(***************************************************************************)
(* Cell placement and per-row/column settings of form and grid layouts,    *)
(* stretch of box layouts (C12).  A layout is [kind, flow, count, kids]:   *)
(*   kind  "grid" | "form" | "vbox" | "hbox"                               *)
(*   flow  "ltr" | "ttb" (grid only; form is ltr with 2 columns)           *)
(*   count column count (ltr) / row count (ttb); 0 = not given             *)
(*   kids  sequence of [row, col, rs, cs, rmh, cmw]: explicit row/column   *)
(*         (None = absent), row/column stretch, row minimum height,        *)
(*         column minimum width (None = absent)                            *)
(* The PROPERTY fixes the indices: row-wise settings at the index of the   *)
(* child's row, column-wise ones at the index of its column.  The          *)
(* parameter rmhAt \in {"row", "column"} names the one known deviation of  *)
(* the pinned implementation (F2: rowMinimumHeight recorded at the         *)
(* child's column) so that it can be matched semantically.                 *)
(***************************************************************************)
EXTENDS Integers, Sequences, FiniteSets, TLC
None == -99
Unlimited == 65536
MaxIndex == 65535
Cols(l) == IF l.kind = "form" THEN 2 ELSE IF l.flow = "ltr" /\ l.count > 0 THEN l.count ELSE Unlimited
Rows(l) == IF l.kind = "grid" /\ l.flow = "ttb" /\ l.count > 0 THEN l.count ELSE Unlimited
Ltr(l) == l.kind = "form" \/ l.flow = "ltr"
\* an explicit index outside 0..max is diagnosed and ignored
IndexOk(v, max) == v = None \/ (v >= 0 /\ v <= max)
RowOk(l, k) == IndexOk(k.row, IF Ltr(l) THEN MaxIndex ELSE Rows(l) - 1)
ColOk(l, k) == IndexOk(k.col, IF Ltr(l) THEN Cols(l) - 1 ELSE MaxIndex)
Eff(v, ok) == IF ok THEN v ELSE None
\* cursor state [r, c]; Step gives [cell, next]
Step(l, cur, k) ==
  LET row == Eff(k.row, RowOk(l, k))
      col == Eff(k.col, ColOk(l, k))
      r == IF row # None THEN row ELSE IF col # None /\ ~Ltr(l) THEN 0 ELSE cur.r
      c == IF col # None THEN col ELSE IF row # None /\ Ltr(l) THEN 0 ELSE cur.c
      nxt == IF Ltr(l) THEN (IF c + 1 >= Cols(l) THEN [r |-> r + 1, c |-> 0] ELSE [r |-> r, c |-> c + 1])
             ELSE (IF r + 1 >= Rows(l) THEN [r |-> 0, c |-> c + 1] ELSE [r |-> r + 1, c |-> c])
  IN [cell |-> [r |-> r, c |-> c], next |-> nxt]
RECURSIVE CellsFrom(_, _, _)
CellsFrom(l, j, cur) == IF j > Len(l.kids) THEN <<>>
                        ELSE LET s == Step(l, cur, l.kids[j]) IN <<s.cell>> \o CellsFrom(l, j + 1, s.next)
Cells(l) == CellsFrom(l, 1, [r |-> 0, c |-> 0])
\* settings: array index -> set of values requested there
Requests(l, field, indexOf) == LET cs == Cells(l) IN
   [x \in {indexOf[j] : j \in {j \in 1..Len(l.kids) : l.kids[j][field] # None}} |->
       {l.kids[j][field] : j \in {j \in 1..Len(l.kids) : l.kids[j][field] # None /\ indexOf[j] = x}}]
RowIdx(l) == [j \in 1..Len(l.kids) |-> Cells(l)[j].r]
ColIdx(l) == [j \in 1..Len(l.kids) |-> Cells(l)[j].c]
PosIdx(l) == [j \in 1..Len(l.kids) |-> j - 1]
Conflict(req) == \E x \in DOMAIN req : Cardinality(req[x]) > 1
MaxOf(S) == CHOOSE m \in S : \A x \in S : x <= m
RECURSIVE Join(_, _, _, _)
Join(req, x, n, dflt) == IF x > n THEN ""
                         ELSE (IF x \in DOMAIN req THEN ToString(CHOOSE v \in req[x] : TRUE) ELSE ToString(dflt))
                              \o (IF x < n THEN "," ELSE "") \o Join(req, x + 1, n, dflt)
Attr(req, dflt) == IF DOMAIN req = {} THEN "" ELSE Join(req, 0, MaxOf(DOMAIN req), dflt)
Expected(l, rmhAt) ==
  IF l.kind \in {"vbox", "hbox"} THEN
     LET req == Requests(l, IF l.kind = "vbox" THEN "rs" ELSE "cs", PosIdx(l)) IN
     \* a box layout consumes only the stretch along its axis: any other attachment is unused and must be diagnosed (C04)
     [cells |-> <<>>,
      err |-> \E j \in 1..Len(l.kids) : LET k == l.kids[j] IN
                 k.row # None \/ k.col # None \/ k.rmh # None \/ k.cmw # None \/ (IF l.kind = "vbox" THEN k.cs # None ELSE k.rs # None),
      stretch |-> Attr(req, 1), rowstretch |-> "", columnstretch |-> "", rowminimumheight |-> "", columnminimumwidth |-> ""]
  ELSE
     LET rs == Requests(l, "rs", RowIdx(l))
         cs == Requests(l, "cs", ColIdx(l))
         rmh == Requests(l, "rmh", IF rmhAt = "row" THEN RowIdx(l) ELSE ColIdx(l))
         cmw == Requests(l, "cmw", ColIdx(l))
         grid == l.kind = "grid"
     IN [cells |-> Cells(l),
         err |-> (\E j \in 1..Len(l.kids) : ~RowOk(l, l.kids[j]) \/ ~ColOk(l, l.kids[j]))
                 \/ (grid /\ (Conflict(rs) \/ Conflict(cs) \/ Conflict(rmh) \/ Conflict(cmw)))
                 \/ (~grid /\ \E j \in 1..Len(l.kids) : l.kids[j].rs # None \/ l.kids[j].cs # None \/ l.kids[j].rmh # None \/ l.kids[j].cmw # None),
         stretch |-> "",
         rowstretch |-> IF grid THEN Attr(rs, 1) ELSE "", columnstretch |-> IF grid THEN Attr(cs, 1) ELSE "",
         rowminimumheight |-> IF grid THEN Attr(rmh, 0) ELSE "", columnminimumwidth |-> IF grid THEN Attr(cmw, 0) ELSE ""]
\* invariants of the cursor (model checking of the design)
CellsInRange(l) == \A j \in 1..Len(l.kids) : LET c == Cells(l)[j] IN c.r >= 0 /\ c.c >= 0 /\ c.c < Cols(l) + (IF Ltr(l) THEN 0 ELSE Unlimited) /\ (Ltr(l) \/ c.r < Rows(l))
=============================================================================
