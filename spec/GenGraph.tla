------------------------------ MODULE GenGraph ------------------------------
(* Enumerates all class graphs on three names whose super-class lists have up to two entries over {A, B, C,   *)
(* Missing} (public; one-entry lists also private) -- self loops, 2- and 3-cycles, diamonds, dangling names -- *)
(* with a seeded set of declaring classes; model-checks the walk (termination, visits = reachability) and      *)
(* prints, per query, what the property admits and what the pinned design model (short-circuit) answers.       *)
EXTENDS TypeGraph, Json, IOUtils, Randomization
Limit == atoi(IOEnv.LIMIT)
Names == {"A", "B", "C"}
Targets == Names \cup {"Missing"}
E(n, p) == [n |-> n, pub |-> p]
Lists == {<<>>} \cup {<<E(n, p)>> : n \in Targets, p \in BOOLEAN} \cup {<<E(n, TRUE), E(m, TRUE)>> : n \in Targets, m \in Targets}
AllGraphs == [Names -> Lists]
Graphs == IF Cardinality(AllGraphs) <= Limit THEN AllGraphs ELSE RandomSubset(Limit, AllGraphs)
VARIABLES sup, decl
Init == sup \in Graphs /\ decl \in RandomSubset(2, SUBSET Names)
Next == UNCHANGED <<sup, decl>>
G == [supers |-> sup, decl |-> decl]
WalkTerminates == \A c \in Names : Terminates(G, c)
WalkIsReach == \A c \in Names : BfsIsReach(G, c)
Emit == PrintT(<<"GRAPH", ToJson([supers |-> sup, decl |-> decl,
          derived |-> {[c |-> c, b |-> b, spec |-> DerivedSpec(G, c, b), pinned |-> DerivedPinned(G, c, b)] : c \in Names, b \in Names},
          declq |-> {[c |-> c, owners |-> DeclOwners(G, c), pinned |-> DeclPinned(G, c), pinnedtyped |-> TypedDeclPinned(G, c)] : c \in Names},
          common |-> {[a |-> a, b |-> b, bases |-> CommonBases(G, a, b), pinned |-> CommonPinned(G, a, b)] : a \in Names, b \in Names}])>>)
=============================================================================
