----------------------------- MODULE GenConstCtl -----------------------------
(* Constant binding bodies with control flow that the static evaluator can follow (tir/interpret.rs follows `br`, gives up  *)
(* at `br_cond`): empty and default-only switches, blocks, locals, re-assigned locals, early returns -- all over literals.  *)
(* Whatever is embedded must be the value Lang.tla assigns; what is not embedded must be generated (C03 / C04).              *)
EXTENDS Ast
Tails == {<<SExpr(IntL(5))>>, <<Ret(IntL(6))>>, <<Let("v", IntL(7)), SExpr(Lv("v"))>>, <<Let("v", IntL(1)), Asg("v", IntL(8)), Ret(Lv("v"))>>,
          <<Const("c", Bin("+", IntL(4), IntL(5))), SExpr(Lv("c"))>>, <<Let("v", IntL(2)), SExpr(Bin("*", Lv("v"), IntL(5)))>>}
Heads == {<<>>, <<Sw(IntL(1), <<>>, NoneS(0))>>, <<Sw(IntL(2), <<>>, Def(0, <<>>))>>, <<Sw(IntL(1), <<>>, Def(0, <<BrkS(0)>>))>>, <<Block(<<>>)>>,
          <<Block(<<Let("w", IntL(3))>>)>>, <<Sw(IntL(1), <<>>, Def(0, <<SExpr(IntL(11))>>))>>, <<Let("u", IntL(9))>>, <<SExpr(IntL(12))>>,
          <<Sw(IntL(1), <<Case(IntL(1), <<SExpr(IntL(13))>>)>>, NoneS(0))>>, <<If(Bool(TRUE), SExpr(IntL(14)), NoneS(0))>>,
          <<Sw(IntL(3), <<>>, Def(0, <<Ret(IntL(15))>>))>>}
VARIABLE prog
Init == prog \in {[prop |-> "ival", body |-> Block(h \o t)] : h \in Heads, t \in Tails}
Next == UNCHANGED prog
Emit == PrintT(<<"PROG", ToJson(prog)>>)
=============================================================================
