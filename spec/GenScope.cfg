INIT Init
NEXT Next
INVARIANT Design
INVARIANT Emit
CHECK_DEADLOCK FALSE
