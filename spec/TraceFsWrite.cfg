CONSTANT Paths = {"ui", "h", "ui2", "h2"}
INIT Init
NEXT TraceNext
INVARIANT OldOrNew
INVARIANT Untouched
INVARIANT RenameComplete
POSTCONDITION PostAccepted
CHECK_DEADLOCK FALSE
