INIT Init
NEXT Next
INVARIANT Laws
INVARIANT Known
CHECK_DEADLOCK FALSE
