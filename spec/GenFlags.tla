------------------------------- MODULE GenFlags -------------------------------
(* Constant flag expressions over the enumerators of one flags type combined with | & ^ up to depth two, with the numeric   *)
(* value each denotes.  An embedded <set>A|B|...</set> must denote that value (C03); an expression the translator cannot    *)
(* embed as a set may be left to run time or diagnosed, but must not be embedded as another value.                          *)
EXTENDS Integers, Sequences, FiniteSets, TLC, Json, IOUtils, Bitwise, Randomization
Limit == atoi(IOEnv.LIMIT)
EnumV == [OptX |-> 1, OptY |-> 2, OptZ |-> 4]
Atom(n) == [k |-> "f", n |-> n, op |-> "", a |-> <<>>, b |-> <<>>]
Node(op, x, y) == [k |-> "bin", n |-> "", op |-> op, a |-> <<x>>, b |-> <<y>>]
Ops == {"|", "&", "^"}
Atoms == {Atom(n) : n \in {"OptX", "OptY", "OptZ"}}
D1 == {Node(op, x, y) : op \in Ops, x \in Atoms, y \in Atoms}
D2(z) == {Node(op, x, y) : op \in Ops, x \in Atoms \cup D1, y \in Atoms \cup D1}
RECURSIVE Val(_)
Val(e) == IF e.k = "f" THEN EnumV[e.n]
          ELSE LET x == Val(e.a[1])  y == Val(e.b[1]) IN CASE e.op = "|" -> x | y [] e.op = "&" -> x & y [] OTHER -> x ^^ y
VARIABLE e
Init == e \in Atoms \cup D1 \cup (IF Cardinality(D2(0)) <= Limit THEN D2(0) ELSE RandomSubset(Limit, D2(0)))
Next == UNCHANGED e
Emit == PrintT(<<"FLAGS", ToJson([e |-> e, value |-> Val(e), enumerators |-> EnumV])>>)
=============================================================================
