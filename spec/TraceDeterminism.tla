-------------------------- MODULE TraceDeterminism --------------------------
(* Trace side of C08: one record per (document, options) with every run of the real translator on it --                  *)
(*   [id, runs: <<[proc, ord, ui, h, diags]>>]  proc = process number, ord = how many documents that process had          *)
(*   translated before, ui / h = hashes of the outputs ("" = none), diags = the sorted sequence of (kind, message, range). *)
(* All runs of one record must agree, whatever the process and whatever came before in it.                                *)
EXTENDS Integers, Sequences, FiniteSets, TLC, Json, IOUtils
Recs == ndJsonDeserialize(IOEnv.RECS)
VARIABLE i
Init == i \in 1..Len(Recs)
Next == UNCHANGED i
R == Recs[i].runs
Agree(f(_)) == \A a, b \in 1..Len(R) : f(R[a]) = f(R[b])
FormAgrees == Agree(LAMBDA r : r.ui)
HeaderAgrees == Agree(LAMBDA r : r.h)
DiagnosticsAgree == Agree(LAMBDA r : r.diags)
\* vacuity control: a record compares at least two runs, and in-process records span different ordinals
Compared == Len(R) >= 2
=============================================================================
