INIT Init
NEXT Next
INVARIANT TargetsExistInv
INVARIANT TerminatedInv
INVARIANT ReturnsValueInv
INVARIANT DefBeforeUseInv
CHECK_DEADLOCK FALSE
