------------------------------- MODULE Lang -------------------------------
(***************************************************************************)
(* Reference semantics of the documented qmluic QML/JS subset              *)
(* (docs/language.md, C semantics for the arithmetic, ECMAScript           *)
(* completion values for statement bodies).  Written from the              *)
(* documentation and the property statements, not from the translator.     *)
(*                                                                         *)
(* Values are uniform records [t, i, s, b, l] so that TLC never compares   *)
(* values of different TLA+ types:                                         *)
(*   int/uint : i            dbl : i = 4 * value (exact quarters)          *)
(*   bool     : b            str : s                                       *)
(*   enum     : i = numeric value, s = enum type   flags : likewise        *)
(*   ptr      : s = object name or "null"                                  *)
(*   list     : l = sequence of strings                                    *)
(*   void / undef (C/C++ undefined or outside the modelled domain)         *)
(* TLC integers are 32-bit and trap on overflow, so every arithmetic step  *)
(* is guarded; a result outside -(2^31-1)..2^31-1 is "undef" (for int this *)
(* is the overflow the property excludes; for uint it means "wraps, not    *)
(* modelled here").                                                        *)
(***************************************************************************)
EXTENDS Integers, Sequences, FiniteSets, TLC

MaxI == 2147483647
V(t, i, s, b, l) == [t |-> t, i |-> i, s |-> s, b |-> b, l |-> l]
VInt(n)   == V("int", n, "", FALSE, <<>>)
VUint(n)  == V("uint", n, "", FALSE, <<>>)
VDbl(q)   == V("dbl", q, "", FALSE, <<>>)
VBool(x)  == V("bool", 0, "", x, <<>>)
VStr(x)   == V("str", 0, x, FALSE, <<>>)
VEnum(e, n) == V("enum", n, e, FALSE, <<>>)
VPtr(n)   == V("ptr", 0, n, FALSE, <<>>)
VList(x)  == V("list", 0, "", FALSE, x)
Void      == V("void", 0, "", FALSE, <<>>)
Undef     == V("undef", 0, "", FALSE, <<>>)
IsUndef(v) == v.t = "undef"
\* a local declared with a type and no initialiser: holds no value yet; s = the declared type as spelled
Unset(ty) == V("unset", 0, ty, FALSE, <<>>)

\* numeric values of the verification class library's enumerators (mockqt/gen_mock.py numbering rule)
EnumVal == [ModeA |-> 0, ModeB |-> 1, ModeC |-> 2, OptX |-> 1, OptY |-> 2, OptZ |-> 4]
IsFlagEnum(e) == e \in {"Opt", "Opts"}

Abs(n) == IF n < 0 THEN -n ELSE n
Sgn(n) == IF n < 0 THEN -1 ELSE IF n > 0 THEN 1 ELSE 0
InRange(n) == n >= -MaxI /\ n <= MaxI
AddFits(a, b) == IF b >= 0 THEN a <= MaxI - b ELSE a >= -MaxI - b
MulFits(a, b) == a = 0 \/ b = 0 \/ Abs(a) <= MaxI \div Abs(b)
TruncDiv(a, b) == Sgn(a) * Sgn(b) * (Abs(a) \div Abs(b))
TruncRem(a, b) == a - b * TruncDiv(a, b)
RECURSIVE Pow2(_)
Pow2(n) == IF n = 0 THEN 1 ELSE 2 * Pow2(n - 1)

\* bitwise operations on two's complement integers of unbounded width
RECURSIVE AndN(_, _)
AndN(a, b) == IF a = 0 \/ b = 0 THEN 0 ELSE 2 * AndN(a \div 2, b \div 2) + (IF a % 2 = 1 /\ b % 2 = 1 THEN 1 ELSE 0)
RECURSIVE OrN(_, _)
OrN(a, b) == IF a = 0 THEN b ELSE IF b = 0 THEN a ELSE 2 * OrN(a \div 2, b \div 2) + (IF a % 2 = 1 \/ b % 2 = 1 THEN 1 ELSE 0)
BNot(a) == -a - 1
BAnd(a, b) == IF a >= 0 /\ b >= 0 THEN AndN(a, b)
              ELSE IF a < 0 /\ b >= 0 THEN b - AndN(b, BNot(a))
              ELSE IF a >= 0 /\ b < 0 THEN a - AndN(a, BNot(b))
              ELSE BNot(OrN(BNot(a), BNot(b)))
BOr(a, b) == BNot(BAnd(BNot(a), BNot(b)))
BXor(a, b) == BOr(a, b) - BAnd(a, b)

IsNum(v) == v.t \in {"int", "uint"}
\* an integer literal adapts to the other operand's integer type
NumT(a, b) == IF a.t = "uint" \/ b.t = "uint" THEN "uint" ELSE "int"
MkNum(t, n) == IF ~InRange(n) THEN Undef ELSE IF t = "uint" /\ n < 0 THEN Undef ELSE V(t, n, "", FALSE, <<>>)

ArithInt(op, t, a, b) ==
  CASE op = "+" -> IF AddFits(a, b) THEN MkNum(t, a + b) ELSE Undef
    [] op = "-" -> IF AddFits(a, -b) THEN MkNum(t, a - b) ELSE Undef
    [] op = "*" -> IF MulFits(a, b) THEN MkNum(t, a * b) ELSE Undef
    [] op = "/" -> IF b = 0 THEN Undef ELSE MkNum(t, TruncDiv(a, b))
    [] op = "%" -> IF b = 0 THEN Undef ELSE MkNum(t, TruncRem(a, b))
ArithDbl(op, a, b) ==
  CASE op = "+" -> IF AddFits(a, b) THEN VDbl(a + b) ELSE Undef
    [] op = "-" -> IF AddFits(a, -b) THEN VDbl(a - b) ELSE Undef
    [] op = "*" -> IF MulFits(a, b) /\ Abs(a * b) % 4 = 0 THEN VDbl(TruncDiv(a * b, 4)) ELSE Undef
    [] op = "/" -> IF b # 0 /\ MulFits(4, a) /\ (4 * Abs(a)) % Abs(b) = 0 THEN VDbl(TruncDiv(4 * a, b)) ELSE Undef
    [] op = "%" -> IF b # 0 THEN VDbl(TruncRem(a, b)) ELSE Undef      \* fmod: exact, sign of the dividend
    [] OTHER -> Undef
BitInt(op, t, a, b) ==
  CASE op = "&" -> MkNum(t, BAnd(a, b))
    [] op = "|" -> MkNum(t, BOr(a, b))
    [] op = "^" -> MkNum(t, BXor(a, b))
Shift(op, t, a, n) ==
  IF n < 0 \/ n >= 32 THEN Undef
  ELSE IF n = 31 THEN        \* 2^31 is not a TLC integer
         (IF op = "<<" THEN (IF a = 0 THEN MkNum(t, 0) ELSE Undef) ELSE MkNum(t, IF a < 0 THEN -1 ELSE 0))
  ELSE IF op = "<<" THEN (IF a < 0 THEN Undef ELSE IF a <= MaxI \div Pow2(n) THEN MkNum(t, a * Pow2(n)) ELSE Undef)
  ELSE MkNum(t, a \div Pow2(n))        \* arithmetic shift = floor division
CmpI(op, a, b) ==
  CASE op = "==" -> a = b [] op = "!=" -> a # b [] op = "<" -> a < b
    [] op = "<=" -> a <= b [] op = ">" -> a > b [] op = ">=" -> a >= b
BoolRank(x) == IF x THEN 1 ELSE 0

ArithOps == {"+", "-", "*", "/", "%"}
BitOps   == {"&", "|", "^"}
ShiftOps == {"<<", ">>"}
CmpOps   == {"==", "!=", "<", "<=", ">", ">="}

BinVal(op, a, b) ==
  IF IsUndef(a) \/ IsUndef(b) THEN Undef
  ELSE IF op \in ArithOps THEN
         (IF IsNum(a) /\ IsNum(b) THEN ArithInt(op, NumT(a, b), a.i, b.i)
          ELSE IF a.t = "dbl" /\ b.t = "dbl" THEN ArithDbl(op, a.i, b.i)
          ELSE IF a.t = "str" /\ b.t = "str" /\ op = "+" THEN VStr(a.s \o b.s)
          ELSE Undef)
  ELSE IF op \in BitOps THEN
         (IF IsNum(a) /\ IsNum(b) THEN BitInt(op, NumT(a, b), a.i, b.i)
          ELSE IF a.t = "bool" /\ b.t = "bool" THEN
                 VBool(CASE op = "&" -> a.b /\ b.b [] op = "|" -> a.b \/ b.b [] op = "^" -> a.b # b.b)
          ELSE IF a.t = "enum" /\ b.t = "enum" THEN
                 V("enum", (CASE op = "&" -> AndN(a.i, b.i) [] op = "|" -> OrN(a.i, b.i) [] op = "^" -> BXor(a.i, b.i)),
                   "Opts", FALSE, <<>>)
          ELSE Undef)
  ELSE IF op \in ShiftOps THEN
         (IF IsNum(a) /\ IsNum(b) THEN Shift(op, a.t, a.i, b.i) ELSE Undef)
  ELSE IF op \in CmpOps THEN
         (IF (IsNum(a) /\ IsNum(b)) \/ (a.t = "dbl" /\ b.t = "dbl") \/ (a.t = "enum" /\ b.t = "enum")
             THEN VBool(CmpI(op, a.i, b.i))
          ELSE IF a.t = "bool" /\ b.t = "bool" THEN VBool(CmpI(op, BoolRank(a.b), BoolRank(b.b)))
          ELSE IF a.t \in {"str", "ptr"} /\ b.t = a.t /\ op \in {"==", "!="} THEN VBool((a.s = b.s) = (op = "=="))
          ELSE Undef)
  ELSE Undef

UnVal(op, a) ==
  IF IsUndef(a) THEN Undef
  ELSE CASE op = "-" -> (IF a.t = "int" THEN MkNum("int", -a.i)
                         ELSE IF a.t = "uint" THEN (IF a.i = 0 THEN a ELSE Undef)
                         ELSE IF a.t = "dbl" THEN VDbl(-a.i) ELSE Undef)
         [] op = "+" -> (IF a.t \in {"int", "uint", "dbl"} THEN a ELSE Undef)
         [] op = "!" -> (IF a.t = "bool" THEN VBool(~a.b) ELSE Undef)
         [] op = "~" -> (IF a.t = "int" THEN MkNum("int", BNot(a.i)) ELSE Undef)   \* ~ on uint wraps: not modelled
         [] OTHER -> Undef

CastVal(ty, a) ==
  IF IsUndef(a) THEN Undef
  ELSE CASE ty = "int" ->
              (CASE a.t \in {"int", "uint"} -> MkNum("int", a.i)
                 [] a.t = "dbl" -> MkNum("int", TruncDiv(a.i, 4))
                 [] a.t = "bool" -> VInt(BoolRank(a.b))
                 [] a.t = "enum" -> VInt(a.i)
                 [] OTHER -> Undef)
         [] ty = "uint" ->
              (CASE a.t \in {"int", "uint"} -> MkNum("uint", a.i)
                 [] a.t = "dbl" -> MkNum("uint", TruncDiv(a.i, 4))
                 [] a.t = "bool" -> VUint(BoolRank(a.b))
                 [] a.t = "enum" -> VUint(a.i)
                 [] OTHER -> Undef)
         [] ty = "double" ->
              (CASE a.t \in {"int", "uint"} -> (IF MulFits(4, a.i) THEN VDbl(4 * a.i) ELSE Undef)
                 [] a.t = "dbl" -> a
                 [] OTHER -> Undef)
         [] ty \in {"TSource", "TSub"} -> (IF a.t = "ptr" THEN a ELSE Undef)      \* pointer up-cast: same object
         [] OTHER -> Undef

CallVal(f, args) ==
  IF \E i \in 1..Len(args) : IsUndef(args[i]) THEN Undef
  ELSE CASE f \in {"Math.max", "Math.min"} ->
              LET a == args[1]  b == args[2]
                  pickA == IF a.t = "bool" THEN (IF f = "Math.max" THEN BoolRank(a.b) >= BoolRank(b.b) ELSE BoolRank(a.b) <= BoolRank(b.b))
                           ELSE (IF f = "Math.max" THEN a.i >= b.i ELSE a.i <= b.i)
              IN IF IsNum(a) /\ IsNum(b) THEN V(NumT(a, b), IF pickA THEN a.i ELSE b.i, "", FALSE, <<>>)
                 ELSE IF a.t = b.t /\ a.t \in {"dbl", "bool"} THEN (IF pickA THEN a ELSE b)
                 ELSE Undef
         [] f = "isEmpty" -> (IF args[1].t = "str" THEN VBool(args[1].s = "")
                              ELSE IF args[1].t = "list" THEN VBool(args[1].l = <<>>) ELSE Undef)
         [] OTHER -> Undef

(***************************************************************************)
(* Expressions.  heap[obj][prop] is a value; loc is a stack of             *)
(* <<name, value>> bindings (innermost last).                              *)
(***************************************************************************)
RECURSIVE LookupAt(_, _, _)
LookupAt(loc, n, i) == IF i = 0 THEN Undef ELSE IF loc[i][1] = n THEN loc[i][2] ELSE LookupAt(loc, n, i - 1)
Lookup(loc, n) == LookupAt(loc, n, Len(loc))
RECURSIVE IndexOf(_, _, _)
IndexOf(loc, n, i) == IF i = 0 THEN 0 ELSE IF loc[i][1] = n THEN i ELSE IndexOf(loc, n, i - 1)

RECURSIVE Eval(_, _, _)
EvalSeq(es, heap, loc) == [i \in 1..Len(es) |-> Eval(es[i], heap, loc)]
Eval(e, heap, loc) ==
  CASE e.k = "int"  -> VInt(e.v)
    [] e.k = "dbl"  -> VDbl(e.q)
    [] e.k = "bool" -> VBool(e.bv)
    [] e.k = "str"  -> VStr(e.sv)
    [] e.k = "null" -> VPtr("null")
    [] e.k = "enum" -> VEnum(e.e, EnumVal[e.v])
    [] e.k = "obj"  -> VPtr(e.n)
    [] e.k = "lv"   -> LET v == Lookup(loc, e.n) IN IF v.t = "unset" THEN Undef ELSE v      \* read of a never-assigned variable
    [] e.k = "rd"   -> LET o == Eval(e.o, heap, loc) IN
                       IF IsUndef(o) \/ o.t # "ptr" \/ o.s = "null" THEN Undef ELSE heap[o.s][e.p]
    [] e.k = "un"   -> UnVal(e.op, Eval(e.a, heap, loc))
    [] e.k = "bin"  -> BinVal(e.op, Eval(e.a, heap, loc), Eval(e.b, heap, loc))
    [] e.k = "and"  -> LET a == Eval(e.a, heap, loc) IN
                       IF IsUndef(a) THEN Undef ELSE IF ~a.b THEN VBool(FALSE) ELSE Eval(e.b, heap, loc)
    [] e.k = "or"   -> LET a == Eval(e.a, heap, loc) IN
                       IF IsUndef(a) THEN Undef ELSE IF a.b THEN VBool(TRUE) ELSE Eval(e.b, heap, loc)
    [] e.k = "tern" -> LET c == Eval(e.c, heap, loc) IN
                       IF IsUndef(c) THEN Undef ELSE IF c.b THEN Eval(e.a, heap, loc) ELSE Eval(e.b, heap, loc)
    [] e.k = "cast" -> CastVal(e.ty, Eval(e.a, heap, loc))
    [] e.k = "call" -> CallVal(e.f, EvalSeq(e.args, heap, loc))
    [] e.k = "sub"  -> LET a == Eval(e.a, heap, loc)  i == Eval(e.i, heap, loc) IN
                       IF IsUndef(a) \/ IsUndef(i) \/ a.t # "list" THEN Undef
                       ELSE IF i.i < 0 \/ i.i >= Len(a.l) THEN Undef ELSE VStr(a.l[i.i + 1])
    [] e.k = "arr"  -> LET xs == EvalSeq(e.args, heap, loc) IN
                       IF \E i \in 1..Len(xs) : IsUndef(xs[i]) THEN Undef ELSE VList([i \in 1..Len(xs) |-> xs[i].s])

(***************************************************************************)
(* Statements: ECMAScript completion records.                              *)
(*   st = [heap, loc, eff]   completion = [ty, val, st, last]              *)
(*   ty \in {"normal", "break", "return", "undef"}; val = value or Empty   *)
(*   last = kind of the last statement executed on the path ("expr",       *)
(*   "decl", "none") -- used by TailDet, the class of bodies on which the  *)
(*   language documentation determines the result (DESIGN 10c).            *)
(***************************************************************************)
Empty == V("empty", 0, "", FALSE, <<>>)
Comp(ty, val, st, last) == [ty |-> ty, val |-> val, st |-> st, last |-> last]
UpdateEmpty(c, v) == IF c.val = Empty THEN [c EXCEPT !.val = v] ELSE c
InsertAt(seq, pos, x) == SubSeq(seq, 1, pos) \o <<x>> \o SubSeq(seq, pos + 1, Len(seq))   \* pos is 0-based

Eff(kind, o, n, args) == [e |-> kind, o |-> o, n |-> n, args |-> args]

\* names declared directly in a statement list, as never-assigned variables
DeclEntries(ss) == LET idx == SelectSeq([i \in 1..Len(ss) |-> i], LAMBDA i : ss[i].k \in {"let", "const", "lett", "letc"}) IN
                   [j \in 1..Len(idx) |-> <<ss[idx[j]].n, Unset(IF ss[idx[j]].k = "lett" THEN ss[idx[j]].ty ELSE "")>>]
RECURSIVE HoistUpTo(_, _)
HoistUpTo(bodies, k) == IF k <= 0 THEN <<>> ELSE HoistUpTo(bodies, k - 1) \o DeclEntries(bodies[k])
\* a value stored in a variable of declared type ty
Adapt(ty, v) == IF ty = "uint" /\ v.t = "int" THEN MkNum("uint", v.i) ELSE v
RECURSIVE ExS(_, _), ExSeq(_, _, _, _), ExClauses(_, _, _, _, _), FirstHit(_, _, _, _)
\* index of the first case whose label equals v (0 if none); labels are evaluated top-down
FirstHit(cases, i, v, st) ==
  IF i > Len(cases) THEN 0
  ELSE LET lab == Eval(cases[i].label, st.heap, st.loc)
           hit == BinVal("==", v, lab) IN
       IF IsUndef(hit) THEN -1 ELSE IF hit.b THEN i ELSE FirstHit(cases, i + 1, v, st)

ExSeq(ss, st, acc, last) ==
  IF ss = <<>> THEN Comp("normal", acc, st, last)
  ELSE LET c == ExS(Head(ss), st)
           l2 == IF c.last = "none" THEN last ELSE c.last IN
       IF c.ty # "normal" THEN [UpdateEmpty(c, acc) EXCEPT !.last = l2]
       ELSE ExSeq(Tail(ss), c.st, IF c.val = Empty THEN acc ELSE c.val, l2)

ExClauses(bodies, i, st, vv, last) ==
  IF i > Len(bodies) THEN Comp("normal", vv, st, last)
  ELSE LET c == ExSeq(bodies[i], st, Empty, "none")
           v2 == IF c.val = Empty THEN vv ELSE c.val
           l2 == IF c.last = "none" THEN last ELSE c.last IN
       IF c.ty # "normal" THEN [c EXCEPT !.val = v2, !.last = l2]
       ELSE ExClauses(bodies, i + 1, c.st, v2, l2)

ExS(x, st) ==
  CASE x.k = "expr" -> LET v == Eval(x.e, st.heap, st.loc) IN
                       IF IsUndef(v) THEN Comp("undef", Empty, st, "expr") ELSE Comp("normal", v, st, "expr")
    [] x.k \in {"let", "const"} ->
                       LET v == Eval(x.e, st.heap, st.loc) IN
                       IF IsUndef(v) THEN Comp("undef", Empty, st, "decl")
                       ELSE Comp("normal", Empty, [st EXCEPT !.loc = Append(@, <<x.n, v>>)], "decl")
    [] x.k = "lett" -> \* let n: ty [= e]: the declared type rules (an integer literal stored in a uint variable is a uint)
                       IF x.e.k = "none" THEN Comp("normal", Empty, [st EXCEPT !.loc = Append(@, <<x.n, Unset(x.ty)>>)], "decl")
                       ELSE LET v == Adapt(x.ty, Eval(x.e, st.heap, st.loc)) IN
                            IF IsUndef(v) THEN Comp("undef", Empty, st, "decl")
                            ELSE Comp("normal", Empty, [st EXCEPT !.loc = Append(@, <<x.n, v>>)], "decl")
    [] x.k = "asg"  -> LET v == Eval(x.e, st.heap, st.loc)  i == IndexOf(st.loc, x.n, Len(st.loc)) IN
                       IF IsUndef(v) \/ i = 0 THEN Comp("undef", Empty, st, "expr")
                       ELSE LET cur == st.loc[i][2]
                                w == Adapt(IF cur.t = "unset" THEN cur.s ELSE cur.t, v) IN
                            IF IsUndef(w) THEN Comp("undef", Empty, st, "expr")
                            ELSE Comp("normal", Void, [st EXCEPT !.loc[i] = <<x.n, w>>], "expr")
    [] x.k = "asgsub" -> \* element write on a local list (value semantics: the list held by the local is replaced)
                       LET v == Eval(x.e, st.heap, st.loc)  ix == Eval(x.i, st.heap, st.loc)  i == IndexOf(st.loc, x.n, Len(st.loc)) IN
                       IF IsUndef(v) \/ IsUndef(ix) \/ i = 0 THEN Comp("undef", Empty, st, "expr")
                       ELSE LET cur == st.loc[i][2] IN
                            IF cur.t # "list" \/ ix.i < 0 \/ ix.i >= Len(cur.l) THEN Comp("undef", Empty, st, "expr")
                            ELSE Comp("normal", Void, [st EXCEPT !.loc[i] = <<x.n, VList([cur.l EXCEPT ![ix.i + 1] = v.s])>>], "expr")
    [] x.k = "wprop" -> LET o == Eval(x.o, st.heap, st.loc)  v == Eval(x.e, st.heap, st.loc) IN
                       IF IsUndef(o) \/ IsUndef(v) \/ o.s = "null" THEN Comp("undef", Empty, st, "expr")
                       ELSE Comp("normal", Void,
                                 [st EXCEPT !.heap[o.s][x.p] = v, !.eff = Append(@, Eff("set", o.s, x.p, <<v>>))], "expr")
    [] x.k = "mcall" -> LET o == Eval(x.o, st.heap, st.loc)  vs == EvalSeq(x.args, st.heap, st.loc) IN
                       IF IsUndef(o) \/ o.s = "null" \/ (\E i \in 1..Len(vs) : IsUndef(vs[i])) THEN Comp("undef", Empty, st, "expr")
                       ELSE Comp("normal", Void, [st EXCEPT !.eff = Append(@, Eff("call", o.s, x.m, vs))], "expr")
    [] x.k = "letc" -> \* let n = o.m(args): an invokable that returns a value (mock rule: twice(x) = 2 * x)
                       LET o == Eval(x.o, st.heap, st.loc)  vs == EvalSeq(x.args, st.heap, st.loc) IN
                       IF IsUndef(o) \/ o.s = "null" \/ (\E i \in 1..Len(vs) : IsUndef(vs[i])) \/ ~MulFits(2, vs[1].i)
                       THEN Comp("undef", Empty, st, "decl")
                       ELSE Comp("normal", Empty, [st EXCEPT !.loc = Append(@, <<x.n, VInt(2 * vs[1].i)>>),
                                                             !.eff = Append(@, Eff("call", o.s, x.m, vs))], "decl")
    [] x.k = "log"  -> LET vs == EvalSeq(x.args, st.heap, st.loc) IN
                       IF \E i \in 1..Len(vs) : IsUndef(vs[i]) THEN Comp("undef", Empty, st, "expr")
                       ELSE Comp("normal", Void, [st EXCEPT !.eff = Append(@, Eff("log", "", x.lv, vs))], "expr")
    [] x.k = "block" -> LET n == Len(st.loc)
                            c == ExSeq(x.b, st, Empty, "none") IN
                        [c EXCEPT !.st.loc = SubSeq(c.st.loc, 1, n)]          \* block scope ends
    [] x.k = "ret"  -> LET v == Eval(x.e, st.heap, st.loc) IN
                       IF IsUndef(v) THEN Comp("undef", Empty, st, "ret") ELSE Comp("return", v, st, "ret")
    [] x.k = "retv" -> Comp("return", Void, st, "ret")
    [] x.k = "break" -> Comp("break", Empty, st, "none")
    [] x.k = "if"   -> LET cv == Eval(x.c, st.heap, st.loc) IN
                       IF IsUndef(cv) THEN Comp("undef", Empty, st, "expr")
                       ELSE LET c == IF cv.b THEN ExS(x.a, st)
                                     ELSE IF x.b.k = "none" THEN Comp("normal", Void, st, "none") ELSE ExS(x.b, st)
                            IN UpdateEmpty(c, Void)
    [] x.k = "switch" ->
         LET v == Eval(x.v, st.heap, st.loc)
             caseBodies == [i \in 1..Len(x.cases) |-> x.cases[i].body]
             bodies == IF x.def.k = "none" THEN caseBodies ELSE InsertAt(caseBodies, x.def.pos, x.def.body)
             BIdx(i) == IF x.def.k # "none" /\ i > x.def.pos THEN i + 1 ELSE i
             hit == IF IsUndef(v) THEN -1 ELSE FirstHit(x.cases, 1, v, st)
             start == IF hit > 0 THEN BIdx(hit) ELSE IF x.def.k # "none" THEN x.def.pos + 1 ELSE Len(bodies) + 1
             \* the clauses of a switch form ONE block scope: a declaration written directly in a clause is visible in the later clauses
             \* (never assigned when control enters below it) and ends with the switch
             st1 == [st EXCEPT !.loc = @ \o HoistUpTo(bodies, start - 1)]
         IN IF hit < 0 THEN Comp("undef", Empty, st, "expr")
            ELSE LET c == ExClauses(bodies, start, st1, Void, "none")
                     d == [c EXCEPT !.st.loc = SubSeq(c.st.loc, 1, Len(st.loc))] IN
                 IF d.ty = "break" THEN [d EXCEPT !.ty = "normal"] ELSE d

St0(heap, loc) == [heap |-> heap, loc |-> loc, eff |-> <<>>]
\* result of running a body: [ok, val, eff, heap]
Run(body, heap, loc) ==
  LET c == ExS(body, St0(heap, loc)) IN
  [ok |-> c.ty # "undef" /\ c.ty # "break", val |-> IF c.val = Empty THEN Void ELSE c.val, eff |-> c.st.eff,
   heap |-> c.st.heap, last |-> c.last]
\* the body's value is determined by the documentation (DESIGN 10c): no declaration executed after the last
\* value-producing expression statement
TailDet(body, heap, loc) == LET r == Run(body, heap, loc) IN ~(r.last = "decl" /\ r.val # Void)

\* compact canonical spelling of a value (strings of the modelled domain contain no '|' or ':')
RECURSIVE JoinBar(_)
JoinBar(l) == IF l = <<>> THEN "" ELSE IF Len(l) = 1 THEN l[1] ELSE l[1] \o "|" \o JoinBar(Tail(l))
Show(v) == CASE v.t = "int" -> "i:" \o ToString(v.i) [] v.t = "uint" -> "u:" \o ToString(v.i)
             [] v.t = "dbl" -> "d:" \o ToString(v.i) [] v.t = "bool" -> (IF v.b THEN "b:1" ELSE "b:0")
             [] v.t = "str" -> "s:" \o v.s [] v.t = "enum" -> "e:" \o ToString(v.i)
             [] v.t = "ptr" -> "p:" \o v.s [] v.t = "list" -> "l:" \o ToString(Len(v.l)) \o ":" \o JoinBar(v.l)
             [] v.t = "void" -> "void" [] OTHER -> "undef"
ShowEff(e) == e.e \o ":" \o e.o \o ":" \o e.n \o ":" \o JoinBar([i \in 1..Len(e.args) |-> Show(e.args[i])])

=============================================================================
