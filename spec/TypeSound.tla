------------------------------ MODULE TypeSound ------------------------------
(***************************************************************************)
(* Consistency of the two halves of the language model: whatever          *)
(* Typing.tla admits as a binding of property p evaluates, under          *)
(* Lang.tla and in every state of the program's domain, either to         *)
(* "undefined" (the evaluation is outside what the property covers:       *)
(* overflow, null dereference, a variable never assigned ...) or to a      *)
(* value of the kind of p -- never to a value of another kind, to void,    *)
(* or out of a break.  Checked by TLC alone, over the programs of every    *)
(* generator, before either half is used as an oracle against the code.    *)
(***************************************************************************)
EXTENDS Domain, Json, IOUtils
T == INSTANCE Typing
Progs == ndJsonDeserialize(IOEnv.PROGS)
KindOf(ty) == CASE ty \in {"int", "uint", "dbl", "bool", "str"} -> ty
                [] ty = "list:str" -> "list"
                [] T!IsEnum(ty) -> "enum"
                [] T!IsPtr(ty) -> "ptr"
                [] OTHER -> "none"
\* an integer literal stored in an unsigned property is an unsigned value
Fits(v, ty) == v.t = KindOf(ty) \/ (ty = "uint" /\ v.t = "int" /\ v.i >= 0)
\* Typing.tla types the explicit returns of a body, not its completion value (DESIGN 12.4): the judgment is used as an oracle on bodies
\* every path of which ends in a return, and on expression bindings
RECURSIVE AlwaysReturns(_)
AlwaysReturns(x) == CASE x.k = "ret" -> TRUE
                      [] x.k = "block" -> \E j \in 1..Len(x.b) : AlwaysReturns(x.b[j])
                      [] x.k = "if" -> x.b.k # "none" /\ AlwaysReturns(x.a) /\ AlwaysReturns(x.b)
                      [] OTHER -> FALSE
Admitted(p) == IF p.body.k = "expr" THEN T!ExprBindingOk(p.prop, p.body.e) ELSE AlwaysReturns(p.body) /\ T!BodyBindingOk(p.prop, p.body)
VARIABLE i
Init == i \in 1..Len(Progs)
Next == UNCHANGED i
Sound == LET p == Progs[i]  S == Slots(p) IN
         (Admitted(p) /\ Cardinality(S) <= 8) =>
            \A f \in Assignments(S) : LET c == ExS(p.body, St0(HeapOf(S, f), <<>>)) IN
                                       c.ty = "undef" \/ (c.ty \in {"normal", "return"} /\ c.val # Empty /\ Fits(c.val, T!PropTy[p.prop]))
\* the admitted programs are counted so that the check cannot pass vacuously
Count == PrintT(<<"SOUND", ToJson([id |-> i, admitted |-> Admitted(Progs[i])])>>)
=============================================================================
