------------------------------ MODULE MCFsWrite ------------------------------
(* Exhaustive exploration of the output protocol: two output paths, every old state (absent / stale / up to  *)
(* date), the .ui handled before the header, a crash between any two system calls, then a re-run after an     *)
(* (output-changing or output-preserving) edit of the source.                                                 *)
EXTENDS FsWrite
Versions == {"v1", "v2", "v3"}
VARIABLE runs
Order == <<"x.ui", "uisupport_x.h">>
\* the code handles the outputs strictly in order: the header is started when the .ui is finished
Started(p) == (p = Order[1] \/ phase[Order[1]] \in {"skip", "done"}) /\ \A q \in Paths : phase[q] # "failed"
StepP(p) == Started(p) /\ (ReadOld(p) \/ (\E t \in {"t1", "t2", "t3", "t4"} : CreateTemp(p, t)) \/ Write(p, TRUE) \/ Write(p, FALSE) \/ Chmod(p) \/ Rename(p) \/ Abandon(p))
\* (a failed output ends the run: the tool exits with an error)
Rerun == /\ runs < 2 /\ (~alive \/ (\A p \in Paths : phase[p] \in {"skip", "done"}) \/ (\E p \in Paths : phase[p] = "failed"))
         /\ runs' = runs + 1 /\ alive' = TRUE
         /\ \E w \in [Paths -> Versions] : want' = w
         /\ phase' = [p \in Paths |-> "todo"] /\ old' = fs
         /\ cur' = [p \in Paths |-> "none"]
         /\ UNCHANGED <<fs, tmp>>       \* temp files of a crashed run stay behind
Init == /\ fs \in [Paths -> {Absent} \cup Versions] /\ old = fs /\ want \in [Paths -> Versions]
        /\ tmp = [t \in {} |-> 0] /\ phase = [p \in Paths |-> "todo"] /\ cur = [p \in Paths |-> "none"] /\ alive = TRUE /\ runs = 1
Next == (\E p \in Paths : StepP(p) /\ UNCHANGED runs) \/ (Crash /\ UNCHANGED runs) \/ Rerun
FinishedNoLeftover == (alive /\ runs = 1) => Finished     \* leftovers only ever come from a crashed earlier run
=============================================================================
