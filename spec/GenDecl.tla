------------------------------- MODULE GenDecl -------------------------------
(* Declarations with a type annotation (docs/language.md: "type annotation or initial value is required"): every annotation x every  *)
(* kind of initialiser / later assignment, and the declared type against the type of the bound property -- the verdict of Typing.tla *)
(* for each (C05, both directions).  The declared type rules: a literal adapts to it, nothing else converts, a class name denotes a  *)
(* pointer that admits null and derived objects, an unknown name is an error.  Also: names declared in a switch clause or a block    *)
(* are gone after it.                                                                                                               *)
EXTENDS Ast, Typing
A == Obj("a")
B == Obj("b")
C1 == Rd(A, "flag")
Anns == {"int", "uint", "double", "bool", "QString", "QStringList", "TSource", "TSub", "TSource.Mode", "TSource.Opts", "Nope"}
Terms == {IntL(3), Rd(A, "ival"), Rd(A, "uval"), Dbl(6), Rd(A, "dval"), Bool(TRUE), C1, Str("x"), Rd(A, "text"), En("Mode", "ModeB"), Rd(A, "mode"),
          Rd(A, "opts"), En("Opt", "OptX"), NullE(0), A, B, Rd(A, "ptr"), Rd(A, "sub"), Arr(<<>>), Arr(<<Str("a")>>), Rd(A, "items")}
PropOfAnn(ty) == CASE ty = "int" -> "ival" [] ty = "uint" -> "uval" [] ty = "double" -> "dval" [] ty = "bool" -> "flag" [] ty = "QString" -> "text"
                   [] ty = "QStringList" -> "items" [] ty = "TSource" -> "ptr" [] ty = "TSub" -> "sub" [] ty = "TSource.Mode" -> "mode"
                   [] ty = "TSource.Opts" -> "opts" [] OTHER -> "ival"
Good(ty) == CASE ty = "int" -> IntL(1) [] ty = "uint" -> IntL(2) [] ty = "double" -> Dbl(2) [] ty = "bool" -> Bool(FALSE) [] ty = "QString" -> Str("s")
              [] ty = "QStringList" -> Arr(<<>>) [] ty = "TSource" -> B [] ty = "TSub" -> B [] ty = "TSource.Mode" -> En("Mode", "ModeA")
              [] ty = "TSource.Opts" -> Rd(A, "opts") [] OTHER -> IntL(0)
Props == {"ival", "uval", "dval", "flag", "text", "items", "ptr", "sub", "mode", "opts"}
Mk(p, body, fam) == [prop |-> p, body |-> body, fam |-> fam, ok |-> BodyBindingOk(p, body)]
Cands == {Mk(PropOfAnn(ty), Block(<<LetT("v", ty, x), Ret(Lv("v"))>>), "initialiser") : ty \in Anns, x \in Terms}
    \cup {Mk(PropOfAnn(ty), Block(<<LetU("v", ty), Asg("v", x), Ret(Lv("v"))>>), "assignment after a bare declaration") : ty \in Anns, x \in Terms}
    \cup {Mk(PropOfAnn(ty), Block(<<LetT("v", ty, Good(ty)), If(C1, Asg("v", x), NoneS(0)), Ret(Lv("v"))>>), "assignment after an initialised declaration") : ty \in Anns \ {"Nope"}, x \in Terms}
    \cup {Mk(p, Block(<<LetT("v", ty, Good(ty)), Ret(Lv("v"))>>), "declared type against the property") : ty \in Anns, p \in Props}
    \cup {Mk(p, Block(<<LetU("v", ty), If(C1, Asg("v", Good(ty)), Asg("v", Good(ty))), Ret(Lv("v"))>>), "declared type against the property") : ty \in Anns, p \in Props}
    \* scopes: a name declared in a switch clause, in a block or in an if arm is not visible after it; an outer one of the same name is
    \cup {Mk("ival", Block(<<Sw(Rd(A, "ival"), <<Case(IntL(0), <<Let("q", IntL(5))>>)>>, d), Ret(Lv("q"))>>), "name declared in a switch clause used after the switch")
            : d \in {NoneS(0), Def(1, <<Let("q", IntL(6))>>)}}
    \cup {Mk("ival", Block(<<Block(<<Let("q", IntL(5))>>), Ret(Lv("q"))>>), "name declared in a block used after the block"),
          Mk("ival", Block(<<If(C1, Block(<<Let("q", IntL(5))>>), NoneS(0)), Ret(Lv("q"))>>), "name declared in an if arm used after it"),
          Mk("ival", Block(<<Sw(Rd(A, "ival"), <<Case(IntL(0), <<Let("q", IntL(5))>>), Case(IntL(1), <<Ret(Lv("q"))>>)>>, NoneS(0)), Ret(IntL(0))>>), "name declared in a clause used in a later clause"),
          Mk("text", Block(<<Let("q", Str("o")), Sw(Rd(A, "ival"), <<Case(IntL(0), <<Let("q", IntL(5))>>)>>, NoneS(0)), Ret(Lv("q"))>>), "outer name of another type visible again after the switch"),
          Mk("ival", Block(<<Let("q", Str("o")), Sw(Rd(A, "ival"), <<Case(IntL(0), <<Let("q", IntL(5))>>)>>, NoneS(0)), Ret(Lv("q"))>>), "outer name of another type visible again after the switch")}
VARIABLE prog
Init == prog \in Cands
Next == UNCHANGED prog
Emit == PrintT(<<"PROG", ToJson(prog)>>)
=============================================================================
