------------------------------ MODULE GenSoup ------------------------------
(* Token soup for C07: every sequence of up to MAXLEN tokens of the QML / JavaScript token alphabet (LIMIT: a seeded sample of *)
(* the longest ones).  The driver places each sequence at three positions of a host document: as a binding value, as a       *)
(* statement of a signal handler, and as an object member.                                                                   *)
EXTENDS Integers, Sequences, FiniteSets, TLC, Json, IOUtils, Randomization
MaxLen == atoi(IOEnv.MAXLEN)
Limit == atoi(IOEnv.LIMIT)
Tokens == <<"a", "chk", "checked", "1", "\"s\"", "(", ")", "{", "}", "[", "]", ".", ",", ";", ":", "?", "+", "-", "!", "=", "==", "=>", "&&",
            "if", "else", "return", "let", "switch", "case", "default", "break", "function", "as", "new", "this", "\n", "/*", "//", "`", "${", "é", "property", "signal", "id", "on"
         >>
T == 1..Len(Tokens)
Seqs(n) == [1..n -> T]
Top == IF Cardinality(Seqs(MaxLen)) <= Limit THEN Seqs(MaxLen) ELSE RandomSubset(Limit, Seqs(MaxLen))
All == UNION {Seqs(n) : n \in 1..(MaxLen - 1)} \cup Top
VARIABLE s
Init == s \in All
Next == UNCHANGED s
Emit == PrintT(<<"SOUP", ToJson([k \in 1..Len(s) |-> Tokens[s[k]]])>>)
=============================================================================
