-------------------------------- MODULE Tir --------------------------------
(***************************************************************************)
(* The typed IR of qmluic (tir/core.rs) as data, its well-formedness       *)
(* predicates (C06) and an abstract machine giving each instruction the    *)
(* meaning its C++ printing has (uigen/binding.rs).  Code bodies are the   *)
(* JSON dumps of the real CodeBody values handed out by the observation    *)
(* hook (or the output of the builder model TirBuilder.tla): block and     *)
(* local indices are 0-based as in the code.                               *)
(***************************************************************************)
EXTENDS Lang

NB(c) == Len(c.blocks)
Blk(c, i) == c.blocks[i + 1]
Targets(tm) == CASE tm.k = "br" -> {tm.t} [] tm.k = "brc" -> {tm.t, tm.f} [] OTHER -> {}
AllLocals(c) == {c.locals[j].i : j \in 1..Len(c.locals)}
Params(c) == {j \in AllLocals(c) : j < c.params}

\* ---- control flow -----------------------------------------------------------------------
TargetsExist(c) == \A i \in 0..NB(c) - 1 : Targets(Blk(c, i).tm) \subseteq 0..NB(c) - 1
RECURSIVE ReachFrom(_, _)
ReachFrom(c, S) == LET T == S \cup UNION {Targets(Blk(c, i).tm) \cap (0..NB(c) - 1) : i \in S} IN
                   IF T = S THEN S ELSE ReachFrom(c, T)
Reach(c) == ReachFrom(c, {0})
\* every reachable block ends in a jump or a return: control never runs off the end or into the unreachable marker
Terminated(c) == \A i \in Reach(c) : Blk(c, i).tm.k \in {"br", "brc", "ret"}
\* a value-returning body returns a value on every reachable path
ReturnsValue(c) == \A i \in Reach(c) : Blk(c, i).tm.k = "ret" => Blk(c, i).tm.a.k # "void"

\* ---- define before use ------------------------------------------------------------------
OpsOf(rv) ==
  CASE rv.k \in {"copy", "un", "scast", "vcast"} -> <<rv.a>>
    [] rv.k = "bin" -> <<rv.a, rv.b>>
    [] rv.k \in {"builtin", "list"} -> rv.args
    [] rv.k = "mcall" -> <<rv.o>> \o rv.args
    [] rv.k = "rprop" -> <<rv.o>>
    [] rv.k = "wprop" -> <<rv.o, rv.a>>
    [] rv.k = "rsub" -> <<rv.o, rv.i>>
    [] rv.k = "wsub" -> <<rv.o, rv.i, rv.a>>
LocalsIn(ops) == {ops[j].i : j \in {j \in 1..Len(ops) : ops[j].k = "loc"}}
ReadsOf(st) == IF st.k = "observe" THEN {st.l} ELSE LocalsIn(OpsOf(st.rv))
DefsOfSt(st) == IF st.k = "assign" THEN {st.l} ELSE {}
DefsOf(b) == UNION {DefsOfSt(b.st[j]) : j \in 1..Len(b.st)}
TmReads(tm) == CASE tm.k = "brc" -> LocalsIn(<<tm.c>>) [] tm.k = "ret" -> LocalsIn(<<tm.a>>) [] OTHER -> {}
Preds(c, b) == {p \in Reach(c) : b \in Targets(Blk(c, p).tm)}
RECURSIVE Inter(_, _)
Inter(SS, top) == IF SS = {} THEN top ELSE LET s == CHOOSE s \in SS : TRUE IN s \cap Inter(SS \ {s}, top)
\* forward "definitely assigned" analysis: greatest fixpoint
StepIn(c, In) == [b \in Reach(c) |-> IF b = 0 THEN Params(c)
                                      ELSE Inter({In[p] \cup DefsOf(Blk(c, p)) : p \in Preds(c, b)}, AllLocals(c))]
RECURSIVE FixIn(_, _)
FixIn(c, In) == LET n == StepIn(c, In) IN IF n = In THEN In ELSE FixIn(c, n)
AssignedIn(c) == FixIn(c, [b \in Reach(c) |-> IF b = 0 THEN Params(c) ELSE AllLocals(c)])
RECURSIVE StmtsOk(_, _, _)
StmtsOk(sts, j, defd) == IF j > Len(sts) THEN defd
                         ELSE IF ReadsOf(sts[j]) \subseteq defd THEN StmtsOk(sts, j + 1, defd \cup DefsOfSt(sts[j])) ELSE {-1}
DefBeforeUse(c) == LET In == AssignedIn(c) IN
   \A b \in Reach(c) : LET d == StmtsOk(Blk(c, b).st, 1, In[b]) IN d # {-1} /\ TmReads(Blk(c, b).tm) \subseteq d

\* ---- observe statements (structural side-check of C02) ----------------------------------
\* every read of a non-constant property through a pointer held in a local is preceded, in its block, by an
\* observe statement on that local with the property's notify signal -- or is covered by a static dependency
\* (checked semantically by Reactive.tla; this is the cheap structural form)
ObservedBefore(sts, j, l, sig) == \E m \in 1..(j - 1) : sts[m].k = "observe" /\ sts[m].l = l /\ sts[m].sig.name = sig
                                   /\ \A q \in (m + 1)..(j - 1) : DefsOfSt(sts[q]) # {l}
WellFormed(c) == TargetsExist(c) /\ Terminated(c) /\ DefBeforeUse(c)
=============================================================================
