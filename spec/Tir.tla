-------------------------------- MODULE Tir --------------------------------
(***************************************************************************)
(* The typed IR of qmluic (tir/core.rs) as data, its well-formedness       *)
(* predicates (C06) and an abstract machine giving each instruction the    *)
(* meaning its C++ printing has (uigen/binding.rs).  Code bodies are the   *)
(* JSON dumps of the real CodeBody values handed out by the observation    *)
(* hook (or the output of the builder model TirBuilder.tla): block and     *)
(* local indices are 0-based as in the code.                               *)
(***************************************************************************)
EXTENDS Lang

NB(c) == Len(c.blocks)
Blk(c, i) == c.blocks[i + 1]
Targets(tm) == CASE tm.k = "br" -> {tm.t} [] tm.k = "brc" -> {tm.t, tm.f} [] OTHER -> {}
AllLocals(c) == {c.locals[j].i : j \in 1..Len(c.locals)}
Params(c) == {j \in AllLocals(c) : j < c.params}

\* ---- control flow -----------------------------------------------------------------------
TargetsExist(c) == \A i \in 0..NB(c) - 1 : Targets(Blk(c, i).tm) \subseteq 0..NB(c) - 1
RECURSIVE ReachFrom(_, _)
ReachFrom(c, S) == LET T == S \cup UNION {Targets(Blk(c, i).tm) \cap (0..NB(c) - 1) : i \in S} IN
                   IF T = S THEN S ELSE ReachFrom(c, T)
Reach(c) == ReachFrom(c, {0})
\* every reachable block ends in a jump or a return: control never runs off the end or into the unreachable marker
Terminated(c) == \A i \in Reach(c) : Blk(c, i).tm.k \in {"br", "brc", "ret"}
\* a value-returning body returns a value on every reachable path
ReturnsValue(c) == \A i \in Reach(c) : Blk(c, i).tm.k = "ret" => Blk(c, i).tm.a.k # "void"

\* ---- define before use ------------------------------------------------------------------
OpsOf(rv) ==
  CASE rv.k \in {"copy", "un", "scast", "vcast"} -> <<rv.a>>
    [] rv.k = "bin" -> <<rv.a, rv.b>>
    [] rv.k \in {"builtin", "list"} -> rv.args
    [] rv.k = "mcall" -> <<rv.o>> \o rv.args
    [] rv.k = "rprop" -> <<rv.o>>
    [] rv.k = "wprop" -> <<rv.o, rv.a>>
    [] rv.k = "rsub" -> <<rv.o, rv.i>>
    [] rv.k = "wsub" -> <<rv.o, rv.i, rv.a>>
LocalsIn(ops) == {ops[j].i : j \in {j \in 1..Len(ops) : ops[j].k = "loc"}}
ReadsOf(st) == IF st.k = "observe" THEN {st.l} ELSE LocalsIn(OpsOf(st.rv))
DefsOfSt(st) == IF st.k = "assign" THEN {st.l} ELSE {}
DefsOf(b) == UNION {DefsOfSt(b.st[j]) : j \in 1..Len(b.st)}
TmReads(tm) == CASE tm.k = "brc" -> LocalsIn(<<tm.c>>) [] tm.k = "ret" -> LocalsIn(<<tm.a>>) [] OTHER -> {}
Preds(c, b) == {p \in Reach(c) : b \in Targets(Blk(c, p).tm)}
RECURSIVE Inter(_, _)
Inter(SS, top) == IF SS = {} THEN top ELSE LET s == CHOOSE s \in SS : TRUE IN s \cap Inter(SS \ {s}, top)
\* forward "definitely assigned" analysis: greatest fixpoint
StepIn(c, In) == [b \in Reach(c) |-> IF b = 0 THEN Params(c)
                                      ELSE Inter({In[p] \cup DefsOf(Blk(c, p)) : p \in Preds(c, b)}, AllLocals(c))]
RECURSIVE FixIn(_, _)
FixIn(c, In) == LET n == StepIn(c, In) IN IF n = In THEN In ELSE FixIn(c, n)
AssignedIn(c) == FixIn(c, [b \in Reach(c) |-> IF b = 0 THEN Params(c) ELSE AllLocals(c)])
\* the variables the program itself declares (field user, from the source ranges of the locals): whether THOSE are assigned before they are
\* read is the program's affair (`let x: int; return x`, a clause variable read in a later clause) -- the property is about the temporaries
UserLocals(c) == IF "user" \in DOMAIN c THEN {c.user[j] : j \in 1..Len(c.user)} ELSE {}
RECURSIVE StmtsOk(_, _, _, _)
StmtsOk(sts, j, defd, U) == IF j > Len(sts) THEN defd
                            ELSE IF (ReadsOf(sts[j]) \ U) \subseteq defd THEN StmtsOk(sts, j + 1, defd \cup DefsOfSt(sts[j]), U) ELSE {-1}
DefBeforeUse(c) == LET In == AssignedIn(c)  U == UserLocals(c) IN
   \A b \in Reach(c) : LET d == StmtsOk(Blk(c, b).st, 1, In[b], U) IN d # {-1} /\ (TmReads(Blk(c, b).tm) \ U) \subseteq d

\* ---- observe statements (structural side-check of C02) ----------------------------------
\* every read of a non-constant property through a pointer held in a local is preceded, in its block, by an
\* observe statement on that local with the property's notify signal -- or is covered by a static dependency
\* (checked semantically by Reactive.tla; this is the cheap structural form)
ObservedBefore(sts, j, l, sig) == \E m \in 1..(j - 1) : sts[m].k = "observe" /\ sts[m].l = l /\ sts[m].sig.name = sig
                                   /\ \A q \in (m + 1)..(j - 1) : DefsOfSt(sts[q]) # {l}
WellFormed(c) == TargetsExist(c) /\ Terminated(c) /\ DefBeforeUse(c)

(***************************************************************************)
(* Abstract machine.  Each instruction means what its C++ printing means   *)
(* (uigen/binding.rs): operators via Lang.tla's value algebra, property    *)
(* reads from the heap, ObserveProperty as the emitted reconnect code.     *)
(* mstate = [loc : local index -> value, obs : observer states, eff]       *)
(***************************************************************************)
ConstVal(a) == CASE a.ty = "bool" -> VBool(a.v) [] a.ty = "int" -> VInt(a.v) [] a.ty = "double" -> VDbl(a.q)
                 [] a.ty \in {"cstr", "qstr"} -> VStr(a.v) [] a.ty = "null" -> VPtr("null") [] a.ty = "emptylist" -> VList(<<>>)
\* the IR names an enum with its class qualifier; Lang.tla's values carry the bare name
EnumShort(e) == CASE e = "TSource::Mode" -> "Mode" [] e = "TSource::Opt" -> "Opt" [] e = "TSource::Opts" -> "Opts" [] OTHER -> e
OpVal(a, loc) == CASE a.k = "const" -> ConstVal(a)
                   [] a.k = "enum" -> VEnum(EnumShort(a.e), EnumVal[a.v])
                   [] a.k = "loc" -> loc[a.i + 1]
                   [] a.k = "obj" -> VPtr(a.n)
                   [] a.k = "void" -> Void
CastName(ty) == CASE ty = "int" -> "int" [] ty = "uint" -> "uint" [] ty \in {"double", "qreal"} -> "double" [] OTHER -> "other"
RvalVal(rv, loc, heap) ==
  CASE rv.k = "copy" -> OpVal(rv.a, loc)
    [] rv.k = "un" -> UnVal(rv.op, OpVal(rv.a, loc))
    [] rv.k = "bin" -> BinVal(rv.op, OpVal(rv.a, loc), OpVal(rv.b, loc))
    [] rv.k = "scast" -> (IF rv.ty = "void" THEN Void ELSE CastVal(CastName(rv.ty), OpVal(rv.a, loc)))
    [] rv.k = "rprop" -> LET o == OpVal(rv.o, loc) IN
                         IF IsUndef(o) \/ o.t # "ptr" \/ o.s = "null" THEN Undef ELSE heap[o.s][rv.p.name]
    [] rv.k = "builtin" -> (IF rv.f \in {"Math.max", "Math.min"} THEN CallVal(rv.f, [j \in 1..Len(rv.args) |-> OpVal(rv.args[j], loc)]) ELSE Undef)
    [] rv.k = "mcall" -> (IF rv.m.name = "isEmpty" THEN CallVal("isEmpty", <<OpVal(rv.o, loc)>>) ELSE Undef)
    [] rv.k = "rsub" -> LET a == OpVal(rv.o, loc)  i == OpVal(rv.i, loc) IN
                        IF IsUndef(a) \/ IsUndef(i) \/ a.t # "list" THEN Undef
                        ELSE IF i.i < 0 \/ i.i >= Len(a.l) THEN Undef ELSE VStr(a.l[i.i + 1])
    [] rv.k = "list" -> LET xs == [j \in 1..Len(rv.args) |-> OpVal(rv.args[j], loc)] IN
                        IF \E j \in 1..Len(xs) : IsUndef(xs[j]) THEN Undef ELSE VList([j \in 1..Len(xs) |-> xs[j].s])
    [] OTHER -> Undef
\* the emitted observer code: if (!connection || object != sender) { disconnect; if (sender) connect; object = sender; }
Observe(o, snd, sig) == IF ~o.on \/ o.obj # snd THEN [on |-> snd # "null", obj |-> snd, sig |-> sig] ELSE o
RECURSIVE ExecStmts(_, _, _, _, _)
\* returns [loc, obs, bad]
ExecStmts(sts, j, loc, obs, heap) ==
  IF j > Len(sts) THEN [loc |-> loc, obs |-> obs, bad |-> FALSE]
  ELSE LET st == sts[j] IN
       CASE st.k = "assign" -> LET v == RvalVal(st.rv, loc, heap) IN
                               IF IsUndef(v) THEN [loc |-> loc, obs |-> obs, bad |-> TRUE]
                               ELSE ExecStmts(sts, j + 1, [loc EXCEPT ![st.l + 1] = v], obs, heap)
         [] st.k = "exec" -> \* an element write on a list held by a local changes that local (a1[1] = a2;); other executed rvalues have no effect on locals
                             IF st.rv.k = "wsub" /\ st.rv.o.k = "loc"
                             THEN LET cur == loc[st.rv.o.i + 1]  ix == OpVal(st.rv.i, loc)  v == OpVal(st.rv.a, loc) IN
                                  IF IsUndef(cur) \/ IsUndef(ix) \/ IsUndef(v) \/ cur.t # "list" THEN [loc |-> loc, obs |-> obs, bad |-> TRUE]
                                  ELSE IF ix.i < 0 \/ ix.i >= Len(cur.l) THEN [loc |-> loc, obs |-> obs, bad |-> TRUE]
                                  ELSE ExecStmts(sts, j + 1, [loc EXCEPT ![st.rv.o.i + 1] = VList([cur.l EXCEPT ![ix.i + 1] = v.s])], obs, heap)
                             ELSE ExecStmts(sts, j + 1, loc, obs, heap)
         [] st.k = "observe" -> LET snd == loc[st.l + 1] IN
                                IF snd.t # "ptr" THEN [loc |-> loc, obs |-> obs, bad |-> TRUE]
                                ELSE ExecStmts(sts, j + 1, loc, [obs EXCEPT ![st.h + 1] = Observe(@, snd.s, st.sig.name)], heap)
RECURSIVE RunFrom(_, _, _, _, _, _)
\* result [ok, val, obs]; ok = FALSE: undefined evaluation, trap (unreachable / fuel) or a jump out of the code
RunFrom(c, pc, loc, obs, heap, fuel) ==
  IF fuel = 0 \/ pc < 0 \/ pc >= NB(c) THEN [ok |-> FALSE, val |-> Undef, obs |-> obs]
  ELSE LET b == Blk(c, pc)
           r == ExecStmts(b.st, 1, loc, obs, heap) IN
       IF r.bad THEN [ok |-> FALSE, val |-> Undef, obs |-> r.obs]
       ELSE CASE b.tm.k = "ret" -> [ok |-> TRUE, val |-> OpVal(b.tm.a, r.loc), obs |-> r.obs]
              [] b.tm.k = "br" -> RunFrom(c, b.tm.t, r.loc, r.obs, heap, fuel - 1)
              [] b.tm.k = "brc" -> RunFrom(c, IF OpVal(b.tm.c, r.loc).b THEN b.tm.t ELSE b.tm.f, r.loc, r.obs, heap, fuel - 1)
              [] OTHER -> [ok |-> FALSE, val |-> Undef, obs |-> r.obs]
Loc0(c) == [j \in 1..Len(c.locals) |-> Undef]
Obs0(c) == [j \in 1..c.nobs |-> [on |-> FALSE, obj |-> "null", sig |-> ""]]
RunTir(c, obs, heap) == RunFrom(c, 0, Loc0(c), obs, heap, 4 * NB(c) + 8)

=============================================================================
