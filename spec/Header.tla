------------------------------- MODULE Header -------------------------------
(***************************************************************************)
(* Structure of the emitted support header (uigen/binding.rs) as a         *)
(* judgment over its token trace: one record per header, produced by the   *)
(* tokenizer in checks/c16.py from the REAL output, together with the      *)
(* compiler's verdict (g++ -std=c++17 against the mock Qt generated from   *)
(* the same type information).  Every clause of C16 is an invariant.       *)
(***************************************************************************)
EXTENDS Integers, Sequences, FiniteSets, TLC, Json, IOUtils
Recs == ndJsonDeserialize(IOEnv.RECS)
VARIABLE i
Init == i \in 1..Len(Recs)
Next == UNCHANGED i
H == Recs[i]
Range(s) == {s[j] : j \in 1..Len(s)}
Count(s, x) == Cardinality({j \in 1..Len(s) : s[j] = x})
NoDup(s) == \A j, k \in 1..Len(s) : j # k => s[j] # s[k]
\* every member function called through this-> is defined exactly once
CalledDefinedOnce == \A c \in Range(H.calls) : Count(H.defs, c) = 1
\* all setup/update/eval/on names are distinct
DistinctNames == NoDup(H.defs)
\* each binding has its own index: one enumerator per update function, all distinct, every use declared
OwnIndex == /\ NoDup(H.enumerators)
            /\ Range(H.enumerators) = Range(H.updates)
            /\ Len(H.enumerators) = Len(H.updates)
            /\ Range(H.indexuses) \subseteq Range(H.enumerators)
\* the re-entrancy guard has a bit for every index
GuardLargeEnough == Len(H.enumerators) > 0 => H.guard * 32 >= Len(H.enumerators)
\* observer arrays: declared iff used, distinct, large enough for every subscript
ObserversOk == /\ NoDup([j \in 1..Len(H.obsdecl) |-> H.obsdecl[j].name])
               /\ \A j \in 1..Len(H.obsuse) : \E k \in 1..Len(H.obsdecl) :
                     H.obsdecl[k].name = H.obsuse[j].name /\ \A x \in Range(H.obsuse[j].idx) : x >= 0 /\ x < H.obsdecl[k].n
               /\ \A k \in 1..Len(H.obsdecl) : H.obsdecl[k].n > 0 /\ \E j \in 1..Len(H.obsuse) : H.obsuse[j].name = H.obsdecl[k].name
               /\ \A j \in 1..Len(H.obsorphans) : FALSE          \* observed[...] used in a function that never bound `observed`
\* each standard or Qt facility used is included
Needs == [qDebug |-> "QtDebug", qInfo |-> "QtDebug", qWarning |-> "QtDebug", qCritical |-> "QtDebug",
          stdmin |-> "algorithm", stdmax |-> "algorithm", stdfmod |-> "cmath"]
IncludesOk == /\ \A u \in Range(H.uses) : Needs[u] \in Range(H.includes)
              /\ H.uiinclude = H.expecteduiinclude
\* it is a complete, valid translation unit (compiler verdict; "skip" when no declarations are available)
Compiles == H.compiled # "fail" /\ H.compilednodebug # "fail"
=============================================================================
