------------------------------ MODULE MCQmlDir ------------------------------
(* Exhaustive exploration of the discovery machine of QmlDir.tla over every import relation between three directories    *)
(* (self imports, mutual imports, 3-cycles, a path that is not a directory), every read_dir order and every order of one *)
(* or two source arguments: terminates, visits exactly the reachable directories.                                         *)
EXTENDS QmlDir, IOUtils
Deep == IOEnv.DEEP = "1"
Dirs == {"a", "b", "c"}
Targets == Dirs \cup {"nodir"}
Imp1 == {<<>>} \cup {<<x>> : x \in Targets}
Imp2 == Imp1 \cup {<<x, y>> : x \in Targets, y \in Targets}
F(d, n, imp) == [dir |-> d, name |-> n, root |-> "QWidget", imports |-> imp, kids |-> <<>>]
Layouts == {[dirs |-> Dirs, files |-> <<F("a", "A", i1), F("b", "B", i2), F("c", "C", i3), F("a", "D", i4)>>] :
              i1 \in Imp2, i2 \in (IF Deep THEN Imp2 ELSE Imp1), i3 \in Imp1, i4 \in {<<>>, <<"b">>, <<"c">>, <<"c", "b">>}}
SrcSeqs == {<<x>> : x \in Dirs} \cup {<<x, y>> : x \in Dirs, y \in Dirs}
Init == \E L \in Layouts, sd \in SrcSeqs : Start(L, sd)
Spec == Init /\ [][DNext]_dvars /\ WF_dvars(PopVisited \/ PopNew \/ (\E f \in todo : Scan(f)) \/ Insert)
Terminates == <>Done
=============================================================================
