----------------------------- MODULE TirBuilder -----------------------------
(***************************************************************************)
(* A model of the IR builder: the statement / expression walker of         *)
(* typedexpr.rs (where it marks branch points) together with the visitor   *)
(* of tir/builder.rs (position arithmetic `label.next()` on a growing      *)
(* vector of basic blocks) and CodeBody::finalize_completion_values        *)
(* (tir/core.rs, work-list that turns `br`s into `return`s).  The model    *)
(* is a transcription, action by action, of those three pieces for the     *)
(* control-flow subset of the language (leaves, !, &&, ||, ?:, ==,         *)
(* expression statements, let, return, break, blocks, if/else, switch      *)
(* with default at any position).  Block and local indices are 0-based as  *)
(* in the code; the result has the JSON shape of the real CodeBody dumps   *)
(* so that the predicates of Tir.tla apply to both.                        *)
(***************************************************************************)
EXTENDS Tir
\* ---- operands, statements, blocks ---------------------------------------------------------------
KConst == [k |-> "const", i |-> -1, n |-> ""]
KLoc(i) == [k |-> "loc", i |-> i, n |-> ""]
KObj(n) == [k |-> "obj", i |-> -1, n |-> n]
KVoid == [k |-> "void", i |-> -1, n |-> ""]
NoTm == [k |-> "none", t |-> -1, f |-> -1, c |-> KVoid, a |-> KVoid]
TBr(t) == [k |-> "br", t |-> t, f |-> -1, c |-> KVoid, a |-> KVoid]
TBrc(c, t, f) == [k |-> "brc", t |-> t, f |-> f, c |-> c, a |-> KVoid]
TRet(a) == [k |-> "ret", t |-> -1, f |-> -1, c |-> KVoid, a |-> a]
TUnreach == [k |-> "unreachable", t |-> -1, f |-> -1, c |-> KVoid, a |-> KVoid]
NoCv == [k |-> "nocv", i |-> -1, n |-> ""]
EmptyBlock == [st |-> <<>>, cv |-> NoCv, tm |-> NoTm]
Assign(l, rk, a, b) == [k |-> "assign", l |-> l, rv |-> [k |-> rk, a |-> a, b |-> b, o |-> a, args |-> <<>>]]
\* ---- builder state: [blocks, nloc, env (sequence of <<name, local>>), ok] ------------------------
BSt0 == [blocks |-> <<EmptyBlock>>, nloc |-> 0, env |-> <<>>, ok |-> TRUE]
Cur(s) == Len(s.blocks) - 1
Push(s) == [s EXCEPT !.blocks = Append(@, EmptyBlock)]                         \* a new current block
AddStAt(s, ref, st) == [s EXCEPT !.blocks[ref + 1].st = Append(@, st)]
AddSt(s, st) == AddStAt(s, Cur(s), st)
\* finalize: the terminator of a block is set exactly once (assert!(self.terminator.is_none()))
Fin(s, ref, tm) == IF s.blocks[ref + 1].tm.k # "none" THEN [s EXCEPT !.ok = FALSE] ELSE [s EXCEPT !.blocks[ref + 1].tm = tm]
SetCv(s, v) == IF s.blocks[Cur(s) + 1].tm.k # "none" THEN [s EXCEPT !.ok = FALSE] ELSE [s EXCEPT !.blocks[Cur(s) + 1].cv = v]
Alloca(s) == [s EXCEPT !.nloc = @ + 1]                                         \* the new local is s.nloc
EnvLookup(env, n) == LET hits == {j \in 1..Len(env) : env[j][1] = n} IN
                  IF hits = {} THEN -1 ELSE env[CHOOSE j \in hits : \A q \in hits : q <= j][2]
\* emit_result: alloca + Assign
EmitR(s, rk, a, b) == [s |-> AddSt(Alloca(s), Assign(s.nloc, rk, a, b)), v |-> KLoc(s.nloc)]

\* ---- expressions (walk_expr + visit_*) ------------------------------------------------------------
RECURSIVE Expr(_, _)
Expr(e, s) ==
  CASE e.k \in {"int", "bool", "str", "dbl", "null", "enum"} -> [s |-> s, v |-> KConst]
    [] e.k = "obj" -> [s |-> s, v |-> KObj(e.n)]
    [] e.k = "lv" -> LET l == EnvLookup(s.env, e.n) IN IF l < 0 THEN [s |-> [s EXCEPT !.ok = FALSE], v |-> KVoid] ELSE [s |-> s, v |-> KLoc(l)]
    [] e.k = "rd" -> LET o == Expr(e.o, s) IN EmitR(o.s, "rprop", o.v, KVoid)
    [] e.k = "un" -> LET a == Expr(e.a, s) IN IF a.v.k = "const" THEN [s |-> a.s, v |-> KConst] ELSE EmitR(a.s, "un", a.v, KVoid)
    [] e.k = "bin" -> LET a == Expr(e.a, s)
                          b == Expr(e.b, a.s) IN
                      IF a.v.k = "const" /\ b.v.k = "const" THEN [s |-> b.s, v |-> KConst] ELSE EmitR(b.s, "bin", a.v, b.v)
    [] e.k \in {"and", "or"} ->
         LET a == Expr(e.a, s)
             lref == Cur(a.s)
             b == Expr(e.b, Push(a.s))
             rref == Cur(b.s)
             s3 == Push(b.s)
             sink == s3.nloc
             s4 == Alloca(s3)
             tref == IF e.k = "and" THEN lref + 1 ELSE rref + 1
             fref == IF e.k = "and" THEN rref + 1 ELSE lref + 1
             s5 == Fin(AddStAt(s4, lref, Assign(sink, "copy", KConst, KVoid)), lref, TBrc(a.v, tref, fref))
             s6 == Fin(AddStAt(s5, rref, Assign(sink, "copy", b.v, KVoid)), rref, TBr(rref + 1))
         IN [s |-> s6, v |-> KLoc(sink)]
    [] e.k = "tern" ->
         LET c == Expr(e.c, s)
             cref == Cur(c.s)
             a == Expr(e.a, Push(c.s))
             aref == Cur(a.s)
             b == Expr(e.b, Push(a.s))
             bref == Cur(b.s)
             s3 == Push(b.s)
             sink == s3.nloc
             s4 == Fin(Alloca(s3), cref, TBrc(c.v, cref + 1, aref + 1))
             s5 == Fin(AddStAt(s4, aref, Assign(sink, "copy", a.v, KVoid)), aref, TBr(bref + 1))
             s6 == Fin(AddStAt(s5, bref, Assign(sink, "copy", b.v, KVoid)), bref, TBr(bref + 1))
         IN [s |-> s6, v |-> KLoc(sink)]
    [] OTHER -> [s |-> [s EXCEPT !.ok = FALSE], v |-> KVoid]

\* ---- statements (walk_stmt + visit_*) ---------------------------------------------------------------
\* the body list of a switch: the case bodies with the default body inserted at its position
SeqInsertAt(seq, pos, x) == SubSeq(seq, 1, pos) \o <<x>> \o SubSeq(seq, pos + 1, Len(seq))
SeqRemoveAt(seq, pos) == SubSeq(seq, 1, pos) \o SubSeq(seq, pos + 2, Len(seq))          \* pos is 0-based
RECURSIVE Stmt(_, _, _), Stmts(_, _, _, _), CaseConds(_, _, _, _, _), Bodies(_, _, _, _, _)
Stmts(ss, j, s, brk) == IF j > Len(ss) \/ ~s.ok THEN s ELSE Stmts(ss, j + 1, Stmt(ss[j], s, brk), brk)
\* conditions of the case clauses: right operand, `left == right` (folded when both are constants), branch point
CaseConds(cases, j, left, s, acc) ==
  IF j > Len(cases) THEN [s |-> s, conds |-> acc]
  ELSE LET r == Expr(cases[j].label, s)
           c == IF left.k = "const" /\ r.v.k = "const" THEN [s |-> r.s, v |-> KConst] ELSE EmitR(r.s, "bin", left, r.v)
       IN CaseConds(cases, j + 1, left, Push(c.s), Append(acc, [v |-> c.v, ref |-> Cur(c.s)]))
\* the bodies, each followed by a branch point; all share the enclosing scope
Bodies(bs, j, s, exit, acc) ==
  IF j > Len(bs) THEN [s |-> s, refs |-> acc]
  ELSE LET t == Stmts(bs[j], 1, s, exit) IN Bodies(bs, j + 1, Push(t), exit, Append(acc, Cur(t)))
Stmt(st, s, brk) ==
  IF ~s.ok THEN s ELSE
  CASE st.k = "none" -> s
    [] st.k = "expr" -> LET r == Expr(st.e, s) IN SetCv(r.s, r.v)
    [] st.k \in {"let", "const"} ->
         LET r == Expr(st.e, s)
             l == r.s.nloc
         IN AddSt([Alloca(r.s) EXCEPT !.env = Append(@, <<st.n, l>>)], Assign(l, "copy", r.v, KVoid))
    [] st.k = "lett" ->          \* initialiser first, then the variable; without initialiser no statement at all
         IF st.e.k = "none" THEN [Alloca(s) EXCEPT !.env = Append(@, <<st.n, s.nloc>>)]
         ELSE LET r == Expr(st.e, s)
                  l == r.s.nloc
              IN AddSt([Alloca(r.s) EXCEPT !.env = Append(@, <<st.n, l>>)], Assign(l, "copy", r.v, KVoid))
    [] st.k = "ret" -> LET r == Expr(st.e, s) IN Push(Fin(r.s, Cur(r.s), TRet(r.v)))
    [] st.k = "retv" -> Push(Fin(s, Cur(s), TRet(KVoid)))
    [] st.k = "break" -> IF brk < 0 THEN [s EXCEPT !.ok = FALSE] ELSE Push(Fin(s, Cur(s), TBr(brk)))
    [] st.k = "block" -> LET t == Stmts(st.b, 1, s, brk) IN [t EXCEPT !.env = s.env]          \* inner scope
    [] st.k = "if" ->
         LET c == Expr(st.c, s)
             cref == Cur(c.s)
             a == Stmt(st.a, Push(c.s), brk)
             aref == Cur(a)
             hasalt == st.b.k # "none"
             b == IF hasalt THEN Stmt(st.b, Push(a), brk) ELSE a
             bref == Cur(b)
             s3 == Push(b)
             endref == (IF hasalt THEN bref ELSE aref) + 1
             s4 == Fin(Fin(s3, cref, TBrc(c.v, cref + 1, aref + 1)), aref, TBr(endref))
         IN IF hasalt THEN Fin(s4, bref, TBr(endref)) ELSE s4
    [] st.k = "switch" ->
         LET left == Expr(st.v, s)
             cc == CaseConds(st.cases, 1, left.v, left.s, <<>>)
             casebodies == [j \in 1..Len(st.cases) |-> st.cases[j].body]
             hasdef == st.def.k # "none"
             bodylist == IF hasdef THEN SeqInsertAt(casebodies, st.def.pos, st.def.body) ELSE casebodies
             head == Cur(cc.s)
             s2 == Push(cc.s)
             exit == Cur(s2)
             bd == Bodies(bodylist, 1, Push(s2), exit, <<>>)
             bodies == bd.refs
             lastbody == IF bodies = <<>> THEN exit ELSE bodies[Len(bodies)]
             starts0 == IF bodies = <<>> THEN <<>> ELSE <<exit + 1>> \o [j \in 1..(Len(bodies) - 1) |-> bodies[j] + 1]
             defstart == IF hasdef THEN starts0[st.def.pos + 1] ELSE -1
             starts == IF hasdef THEN SeqRemoveAt(starts0, st.def.pos) ELSE starts0
         IN LET ConnectConds[j \in 0..Len(cc.conds)] ==
                  IF j = 0 THEN bd.s
                  ELSE LET nxt == IF j < Len(starts) THEN cc.conds[j].ref + 1 ELSE (IF hasdef THEN defstart ELSE lastbody + 1)
                       IN Fin(ConnectConds[j - 1], cc.conds[j].ref, TBrc(cc.conds[j].v, starts[j], nxt))
                s5 == ConnectConds[Len(cc.conds)]
                ConnectBodies[j \in 0..Len(bodies)] == IF j = 0 THEN s5 ELSE Fin(ConnectBodies[j - 1], bodies[j], TBr(bodies[j] + 1))
                s6 == ConnectBodies[Len(bodies)]
            IN IF Len(cc.conds) # Len(starts) THEN [s6 EXCEPT !.ok = FALSE]       \* the assert_eq! of visit_switch_statement
               ELSE [Fin(Fin(s6, head, TBr(exit + 1)), exit, TBr(lastbody + 1)) EXCEPT !.env = s.env]      \* the clauses are one scope that ends here
    [] OTHER -> [s EXCEPT !.ok = FALSE]

\* ---- finalize_completion_values (tir/core.rs) ------------------------------------------------------
BrTargetsOf(blocks, i) == {j \in 0..(Len(blocks) - 1) : blocks[j + 1].tm.k = "br" /\ blocks[j + 1].tm.t = i}
CondReach(blocks) == {0} \cup UNION {{blocks[j].tm.t, blocks[j].tm.f} : j \in {j \in 1..Len(blocks) : blocks[j].tm.k = "brc"}}
RECURSIVE Worklist(_, _, _, _)
\* `incoming` is computed once, before the loop (later changes of terminators do not update it), and an entry is taken once
Worklist(blocks, todo, incoming, reach) ==
  IF todo = <<>> THEN blocks
  ELSE LET i == todo[Len(todo)]
           rest == SubSeq(todo, 1, Len(todo) - 1)
           b == blocks[i + 1] IN
       IF b.cv.k # "nocv" THEN Worklist([blocks EXCEPT ![i + 1].tm = TRet(b.cv), ![i + 1].cv = NoCv], rest, incoming, reach)
       ELSE LET enteredByBr == b.st # <<>> /\ incoming[i + 1] # <<>>
                tm == IF i \in reach \/ enteredByBr THEN TRet(KVoid) ELSE TUnreach
                nb == [blocks EXCEPT ![i + 1].tm = tm] IN
            IF b.st = <<>> THEN Worklist(nb, rest \o incoming[i + 1], [incoming EXCEPT ![i + 1] = <<>>], reach)
            ELSE Worklist(nb, rest, incoming, reach)
SetToSeqAsc(S) == LET RECURSIVE F(_) F(T) == IF T = {} THEN <<>> ELSE LET x == CHOOSE x \in T : \A y \in T : x <= y IN <<x>> \o F(T \ {x}) IN F(S)
Finalize(s) ==
  LET start == Cur(s)
      b == s.blocks[start + 1] IN
  IF b.cv.k # "nocv" THEN [s EXCEPT !.blocks[start + 1].tm = TRet(b.cv), !.blocks[start + 1].cv = NoCv]
  ELSE [s EXCEPT !.blocks = Worklist(s.blocks, <<start>>, [i \in 1..Len(s.blocks) |-> SetToSeqAsc(BrTargetsOf(s.blocks, i - 1))], CondReach(s.blocks))]
\* ---- the whole builder --------------------------------------------------------------------------------
Build(body) == Finalize(Stmt(body, BSt0, -1))
\* the CodeBody shape Tir.tla's predicates expect
AsCode(s) == [blocks |-> [j \in 1..Len(s.blocks) |-> [st |-> s.blocks[j].st, tm |-> s.blocks[j].tm]],
              locals |-> [j \in 1..s.nloc |-> [i |-> j - 1]], params |-> 0, nobs |-> 0]
\* every block of a finished body has a terminator: a left-over completion value or missing terminator is a builder bug
AllFinalized(s) == \A j \in 1..Len(s.blocks) : s.blocks[j].tm.k # "none"
=============================================================================
