------------------------------ MODULE GenListLit ------------------------------
(* String-list values (C03 / C02): array literals of one to three elements, each a constant or a property read, bare, through  *)
(* locals, and with an element overwritten by subscript.  A list all of whose parts are constants is the only one that may be  *)
(* embedded in the .ui, and then exactly as Lang.tla evaluates it; any other must be left to run time with every element.      *)
EXTENDS Ast
A == Obj("a")
El == {Str("a"), Str("b"), Rd(A, "text"), Rd(A, "textB")}
K == {Str("a"), Str("c")}
Lists == {Arr(<<x>>) : x \in El} \cup {Arr(<<x, y>>) : x \in El, y \in El} \cup {Arr(<<x, y, z>>) : x \in El, y \in El, z \in El}
Bodies == {SExpr(l) : l \in Lists}
     \cup {Block(<<Let("base", x), SExpr(Arr(<<Str("a"), Lv("base")>>))>>) : x \in El}
     \cup {Block(<<Let("base", x), Ret(Arr(<<Lv("base"), y, Str("z")>>))>>) : x \in El, y \in El}
     \cup {Block(<<Let("l", Arr(<<x, y>>)), Ret(Lv("l"))>>) : x \in El, y \in El}
     \cup {Block(<<Let("l", Arr(<<Str("a"), Str("b")>>)), AsgSub("l", IntL(i), x), t>>) : i \in {0, 1}, x \in El, t \in {Ret(Lv("l")), SExpr(Lv("l"))}}
     \cup {Block(<<Let("l", Arr(<<Str("a"), y>>)), AsgSub("l", IntL(1), x), Ret(Lv("l"))>>) : x \in K, y \in El}
     \cup {Block(<<LetT("l", "QStringList", Arr(<<>>)), Asg("l", Arr(<<x, y>>)), Ret(Lv("l"))>>) : x \in K, y \in El}
VARIABLE prog
Init == prog \in {[prop |-> "items", body |-> b] : b \in Bodies}
Next == UNCHANGED prog
Emit == PrintT(<<"PROG", ToJson(prog)>>)
=============================================================================
