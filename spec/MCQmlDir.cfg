SPECIFICATION Spec
INVARIANT ModulesSound
INVARIANT DoneComplete
INVARIANT PendingBounded
INVARIANT ScanOnlyNew
PROPERTY Terminates
CHECK_DEADLOCK FALSE
