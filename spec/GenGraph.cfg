INIT Init
NEXT Next
INVARIANT WalkTerminates
INVARIANT WalkIsReach
INVARIANT Emit
CHECK_DEADLOCK FALSE
