INIT Init
NEXT Next
INVARIANT Sound
INVARIANT Count
CHECK_DEADLOCK FALSE
