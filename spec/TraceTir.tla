------------------------------ MODULE TraceTir ------------------------------
(* Record-wise validation of IR recorded from the real translator (observation hook) against the         *)
(* well-formedness predicates of Tir.tla.  One record = one finished binding or callback of an accepted  *)
(* document; every record is an initial state, each predicate an invariant (run with -continue so that   *)
(* every offending record is listed).                                                                    *)
EXTENDS Tir, Json, IOUtils
Recs == ndJsonDeserialize(IOEnv.RECS)
VARIABLE i
Init == i \in 1..Len(Recs)
Next == UNCHANGED i
TargetsExistInv == TargetsExist(Recs[i].code)
TerminatedInv == TargetsExist(Recs[i].code) => Terminated(Recs[i].code)
ReturnsValueInv == (TargetsExist(Recs[i].code) /\ Recs[i].kind = "binding") => ReturnsValue(Recs[i].code)
DefBeforeUseInv == TargetsExist(Recs[i].code) => DefBeforeUse(Recs[i].code)
=============================================================================
