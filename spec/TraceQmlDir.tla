----------------------------- MODULE TraceQmlDir -----------------------------
(* Trace validation of the directory discovery of real `qmluic generate-ui` runs (QMLUIC_LOG=trace: the initial work-list, *)
(* every directory taken from it, every file scanned) against the machine of QmlDir.tla.  Runs are concatenated; a start  *)
(* event carries the layout and the directories of the source arguments in command-line order.  Pops of already visited  *)
(* directories and the insertion of a finished directory are not logged: they are composed into the next logged step.    *)
EXTENDS QmlDir, Json, IOUtils
Events == ndJsonDeserialize(IOEnv.TRACE)
VARIABLE l
E == Events[l]
Rng(s) == {s[i] : i \in 1..Len(s)}
RECURSIVE DropVisited(_, _)
DropVisited(p, m) == IF p # <<>> /\ Last(p) \in m THEN DropVisited(Front(p), m) ELSE p
\* the state after the silent Insert (if a directory is open and completely scanned)
Closed == cur = "" \/ todo = {}
ModsC == IF cur = "" THEN modules ELSE modules \cup {cur}
Init == l = 1 /\ lay = [dirs |-> {}, files |-> <<>>] /\ srcs = <<>> /\ pending = <<>> /\ modules = {} /\ cur = "" /\ todo = {}
TStart == /\ E.pending = E.srcs                                   \* the initial work-list is the sources' directories, in order
          /\ lay' = [dirs |-> Rng(E.lay.dirs), files |-> E.lay.files] /\ srcs' = E.srcs /\ pending' = E.srcs
          /\ modules' = {} /\ cur' = "" /\ todo' = {}
\* "processing directory d": the previous directory is finished, visited entries are skipped, d is the next new one
TDir == /\ Closed
        /\ LET p == DropVisited(pending, ModsC) IN
           /\ p # <<>> /\ Last(p) = E.d
           /\ cur' = E.d /\ todo' = FilesIn(lay, E.d) /\ pending' = Front(p) /\ modules' = ModsC
        /\ UNCHANGED <<lay, srcs>>
TFile == /\ cur = E.d /\ (\E f \in todo : f.name = E.n /\ Scan(f))
\* the process left populate_directories: nothing new is pending and exactly the reachable directories are modules
TEnd == /\ Closed /\ DropVisited(pending, ModsC) = <<>>
        /\ ModsC = ReachFrom(lay, Rng(srcs))
        /\ modules' = ModsC /\ cur' = "" /\ pending' = <<>> /\ UNCHANGED <<lay, srcs, todo>>
TraceNext == /\ l <= Len(Events) /\ l' = l + 1
             /\ CASE E.ev = "start" -> TStart
                  [] E.ev = "dir" -> TDir
                  [] E.ev = "file" -> TFile
                  [] E.ev = "end" -> TEnd
                  [] OTHER -> FALSE
PostAccepted == IF TLCGet("stats").diameter = Len(Events) + 1 THEN TRUE
                ELSE PrintT(<<"REJECTED", ToJson([at |-> TLCGet("stats").diameter, event |-> Events[TLCGet("stats").diameter]])>>) /\ FALSE
=============================================================================
