--------------------------- MODULE MCDeterminism ---------------------------
(* Every iteration order of every small map under every discipline of the audit (Determinism.tla).  With NEGATIVE=order|eager the  *)
(* disciplines that the code does NOT use (emit in iteration order; merge palette defaults eagerly) are explored instead: *)
(* TLC must find a counterexample, which shows that the invariant can tell a missing sort from a present one.            *)
EXTENDS Determinism, IOUtils
Negative == IOEnv.NEGATIVE
Keyed == {[kind |-> "key", name |-> k, roles |-> {}] : k \in 1..4}
PaletteEntries == {Default(r) : r \in Roles} \cup {Group(g, rs) : g \in Groups, rs \in SUBSET Roles}
\* a map has at most one entry per key
PaletteMaps == {E \in SUBSET PaletteEntries : \A x, y \in E : x.name = y.name => x = y}
Init == IF Negative = "order" THEN \E E \in SUBSET Keyed : Start("order", E)
        ELSE IF Negative = "eager" THEN \E E \in PaletteMaps : Start("eager", E)
        ELSE (\E d \in {"sort", "set"}, E \in SUBSET Keyed : Start(d, E)) \/ (\E E \in PaletteMaps : Start("palette", E))
=============================================================================
