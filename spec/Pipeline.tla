------------------------------ MODULE Pipeline ------------------------------
(***************************************************************************)
(* Ownership of a binding across the passes of one translation             *)
(* (uigen/mod.rs build: code building, constant pass = UiForm::build,      *)
(* left-over attached bindings, then the mode switch: C++ pass / reject    *)
(* pass / nothing) and the output gate of the command line (C04, C14).     *)
(* A binding is described by the attributes that drive its ownership:      *)
(*   kind     "prop" | "member" (of a grouped value) | "objmember" (of a   *)
(*            nested object map, e.g. header.visible) | "attached" |        *)
(*            "handler" | "pseudo" (actions, model, flow, columns, ...)     *)
(*   known    the property / signal exists                                  *)
(*   typed    the expression type-checks and uses supported syntax          *)
(*   assignable  its result type is assignable to the property (checked    *)
(*            where the value is consumed: constant pass or C++ pass)      *)
(*   const    the expression is constant-evaluable                          *)
(*   consumed attached: the parent layout kind consumes it;                 *)
(*            pseudo: a consumer evaluates it                               *)
(*   writable ordinary property has a setter; readable: has a getter        *)
(*   group    members of the same grouped value share a group id (0 = none) *)
(* Place(b, doc, mode) \in {"ui", "header", "both", "diag", "none"}        *)
(***************************************************************************)
EXTENDS Integers, Sequences, FiniteSets, TLC

Modes == {"generate", "reject", "omit"}
\* pass 1: code building
Built(b) == b.known /\ b.typed
\* pass 2: the constant pass evaluates what a consumer asks for
Asked(b) == b.kind \in {"prop", "member", "objmember"} \/ (b.kind \in {"attached", "pseudo"} /\ b.consumed)
EvaluatedConst(b) == Built(b) /\ b.kind # "handler" /\ Asked(b) /\ b.const
\* a grouped value is dynamic when some member is not an evaluated constant
GroupDynamic(b, doc) == b.group # 0 /\ \E j \in 1..Len(doc) : doc[j].group = b.group /\ Built(doc[j]) /\ ~EvaluatedConst(doc[j])
Place(b, doc, mode) ==
  IF ~Built(b) THEN "diag"
  ELSE IF b.kind = "handler" THEN (CASE mode = "generate" -> "header" [] mode = "reject" -> "diag" [] OTHER -> "none")
  ELSE IF b.kind = "attached" THEN
         (IF EvaluatedConst(b) THEN "ui" ELSE "diag")                    \* left-over attached bindings are reported in every mode
  ELSE IF b.kind = "pseudo" /\ ~EvaluatedConst(b) THEN                   \* a dynamic pseudo property has no setter to generate code for
         (IF mode = "omit" THEN "none" ELSE "diag")
  ELSE IF EvaluatedConst(b) THEN
         (IF ~b.assignable THEN "diag"                                     \* the constant pass checks the value against the property type
          ELSE IF b.kind = "prop" /\ ~b.writable THEN "diag"               \* embedded values need a setter
          ELSE IF b.kind = "member" /\ GroupDynamic(b, doc) /\ mode = "generate" THEN "both"   \* constant member of a dynamic grouped value
          ELSE "ui")
  ELSE \* dynamic ordinary binding
         (CASE mode = "generate" -> (IF b.kind = "objmember" THEN "diag"          \* nested dynamic binding
                                     ELSE IF ~b.writable \/ ~b.readable \/ ~b.assignable THEN "diag" ELSE "header")
            [] mode = "reject" -> "diag"
            [] OTHER -> "none")
Diagnosed(doc, mode) == \E j \in 1..Len(doc) : Place(doc[j], doc, mode) = "diag"
Accepted(doc, mode) == ~Diagnosed(doc, mode)
InHeader(doc) == {j \in 1..Len(doc) : Place(doc[j], doc, "generate") \in {"header", "both"}}
\* the form is built by the constant pass alone
FormPart(doc) == {j \in 1..Len(doc) : EvaluatedConst(doc[j]) /\ doc[j].assignable /\ ~(doc[j].kind = "prop" /\ ~doc[j].writable)}

\* ---- properties of the design (checked by MCPipeline over the attribute space) -----------------
\* C04: in an accepted generate run every binding lives in exactly one place (or, for constant members of a dynamic group, in both)
ExactlyOnePlace(doc) == Accepted(doc, "generate") => \A j \in 1..Len(doc) : Place(doc[j], doc, "generate") \in {"ui", "header", "both"}
\* C14: reject accepts exactly the documents generate accepts with an empty header; omit errors are generate errors
RejectIffNoCode(doc) == Accepted(doc, "reject") <=> (Accepted(doc, "generate") /\ InHeader(doc) = {})
OmitErrorsSubset(doc) == \A j \in 1..Len(doc) : Place(doc[j], doc, "omit") = "diag" => Place(doc[j], doc, "generate") = "diag"
=============================================================================
