INIT Init
NEXT Next
INVARIANT NothingLostInv
INVARIANT WellShapedInv
INVARIANT Emit
CHECK_DEADLOCK FALSE
