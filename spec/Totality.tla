------------------------------ MODULE Totality ------------------------------
(***************************************************************************)
(* C07.  The outcome automaton of one translation, as a judge of recorded  *)
(* runs of the real code.  A run is the event sequence                      *)
(*   parsed(len, syntax, nsyn, ranges)                                      *)
(*   built(form, nerr, nwarn, ranges)      uigen::build returned            *)
(*   serialised(ui, header)                only if a form was built         *)
(*   rendered(ok)                          the report was rendered          *)
(* or, for the command-line tool,   exit(code, signal, nout, nreports),    *)
(* and `died(how)` wherever a panic, a watchdog time-out or a crash cut    *)
(* the run short.  A range is <<s, e, sb, eb>>: byte offsets and whether   *)
(* each lies on a character boundary of the source text.                   *)
(***************************************************************************)
EXTENDS Integers, Sequences, FiniteSets, TLC
Modes == {"generate", "reject", "omit"}
RangeOk(r, len) == 0 <= r[1] /\ r[1] <= r[2] /\ r[2] <= len /\ r[3] /\ r[4]
RangesOk(rs, len) == \A k \in 1..Len(rs) : RangeOk(rs[k], len)
\* state of the judge: [at, len, syntax, nsyn, form, nerr] ; Step returns the next state or a verdict string in `bad`
S0 == [at |-> "start", len |-> 0, syntax |-> FALSE, nsyn |-> 0, form |-> FALSE, nerr |-> 0, bad |-> ""]
Bad(s, why) == [s EXCEPT !.bad = why]
Step(s, ev, mode) ==
  CASE ev.e = "died" -> Bad(s, "the run died: " \o ev.how)
    [] ev.e = "parsed" ->
         IF s.at # "start" THEN Bad(s, "parsed twice")
         ELSE IF ev.syntax /\ ev.nsyn = 0 THEN Bad(s, "document flagged as having syntax errors but none can be reported")
         ELSE IF ~ev.syntax /\ ev.nsyn > 0 THEN Bad(s, "syntax errors reported for a document not flagged")
         ELSE IF ~RangesOk(ev.ranges, ev.len) THEN Bad(s, "syntax error range outside the text or inside a character")
         ELSE [s EXCEPT !.at = "parsed", !.len = ev.len, !.syntax = ev.syntax, !.nsyn = ev.nsyn]
    [] ev.e = "built" ->
         IF s.at # "parsed" THEN Bad(s, "built before parsed")
         ELSE IF ~ev.form /\ ev.nerr = 0 /\ ~s.syntax THEN Bad(s, "no form, no error diagnostic, no syntax error: silent failure")
         ELSE IF ~RangesOk(ev.ranges, s.len) THEN Bad(s, "diagnostic or label range outside the text or inside a character")
         ELSE [s EXCEPT !.at = "built", !.form = ev.form, !.nerr = ev.nerr]
    [] ev.e = "serialised" ->
         IF s.at # "built" \/ ~s.form THEN Bad(s, "serialised without a form")
         ELSE IF ~ev.ui THEN Bad(s, "the form cannot be serialised")
         ELSE IF ev.header = "error" THEN Bad(s, "the support header cannot be written")
         ELSE IF ev.header = "ok" /\ mode # "generate" THEN Bad(s, "support header outside generate mode")
         ELSE [s EXCEPT !.at = "serialised"]
    [] ev.e = "rendered" ->
         IF s.at \notin {"built", "serialised"} THEN Bad(s, "rendered too early")
         ELSE IF s.at = "built" /\ s.form THEN Bad(s, "a built form was never serialised")
         ELSE IF ~ev.ok THEN Bad(s, "rendering the report failed")
         ELSE [s EXCEPT !.at = "rendered"]
    [] ev.e = "exit" ->
         IF s.at # "start" THEN Bad(s, "exit inside a library run")
         ELSE IF ev.signal # 0 THEN Bad(s, "the tool was killed by a signal")
         ELSE IF ev.code \notin {0, 1} THEN Bad(s, "exit status is neither 0 nor 1")
         ELSE IF ev.code = 0 /\ ev.nout = 0 THEN Bad(s, "exit 0 without output")
         ELSE IF ev.code = 1 /\ ev.nreports = 0 THEN Bad(s, "exit 1 without any reported error")
         ELSE IF ev.code = 1 /\ ev.nout > 0 THEN Bad(s, "exit 1 but output was written")
         ELSE [s EXCEPT !.at = "exited"]
    [] OTHER -> Bad(s, "unknown event")
RECURSIVE RunFrom(_, _, _, _)
RunFrom(evs, k, s, mode) == IF s.bad # "" THEN s ELSE IF k > Len(evs) THEN s ELSE RunFrom(evs, k + 1, Step(s, evs[k], mode), mode)
Verdict(run) == LET s == RunFrom(run.evs, 1, S0, run.mode) IN
                IF s.bad # "" THEN s.bad ELSE IF s.at \in {"rendered", "exited"} THEN "" ELSE "the run stops after '" \o s.at \o "'"
=============================================================================
