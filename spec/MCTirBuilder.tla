---------------------------- MODULE MCTirBuilder ----------------------------
(* The builder model (TirBuilder.tla) on every control skeleton of GenCtl.tla: the IR it builds is well-formed in the sense *)
(* of Tir.tla (jump targets exist, every reachable block ends in a jump or return, definite assignment before use) and     *)
(* completely finalized.  The built IR is printed next to the program so that the driver can compare it, block by block,   *)
(* with what the real builder produces for the same source (model drift report).                                          *)
EXTENDS GenCtl
TB == INSTANCE TirBuilder
Built == TB!Build(prog.body)
Code == TB!AsCode(Built)
BuilderOk == Built.ok
Finalized == Built.ok => TB!AllFinalized(Built)
TargetsExistInv == Built.ok => TB!TargetsExist(Code)
TerminatedInv == Built.ok => TB!Terminated(Code)
DefBeforeUseInv == Built.ok => TB!DefBeforeUse(Code)
EmitBuilt == PrintT(<<"BUILT", ToJson([prog |-> prog, ok |-> Built.ok, blocks |-> Built.blocks, nloc |-> Built.nloc])>>)
=============================================================================
