------------------------------- MODULE GenScope -------------------------------
(* For each name family (a property name, a method name, a global name) every subset of the levels at which the driver can *)
(* define that name: the level Scope.tla resolves it to.                                                                  *)
EXTENDS Scope, Json
Families == {[fam |-> "property", levels |-> {"local", "id", "property"}], [fam |-> "method", levels |-> {"local", "id", "method"}],
             [fam |-> "global", levels |-> {"local", "id", "global"}], [fam |-> "parameter", levels |-> {"local", "id", "property"}]}
VARIABLES f, d
Init == f \in Families /\ d \in SUBSET f.levels
Next == UNCHANGED <<f, d>>
Design == IdWins /\ LocalWins /\ Total
Emit == PrintT(<<"SCOPE", ToJson([fam |-> f.fam, defined |-> d, resolves |-> Resolve(d)])>>)
=============================================================================
