------------------------------ MODULE GenLayout ------------------------------
(* Enumerates layouts: both flows, counts 1..3 and absent, form and box layouts, child sequences with optional   *)
(* explicit row / column (incl. negative and too large), stretch and minimum-size attachments (incl. conflicts); *)
(* exhaustive for one and two children, seeded sample of three and four.  Prints the expected cells, attribute   *)
(* arrays and whether a diagnostic is due -- under the property's indexing and under the F2 variant.             *)
EXTENDS Layout, Json, IOUtils, Randomization
Limit == atoi(IOEnv.LIMIT)
Sample(S) == IF Cardinality(S) <= Limit THEN S ELSE RandomSubset(Limit, S)
Pos == {<<None, None>>, <<0, None>>, <<1, None>>, <<2, None>>, <<None, 0>>, <<None, 1>>, <<None, 2>>, <<1, 1>>, <<0, 2>>, <<2, 0>>, <<-1, None>>, <<None, 70000>>, <<3, 1>>}
Sets == {<<None, None, None, None>>, <<2, None, None, None>>, <<None, 3, None, None>>, <<None, None, 20, None>>, <<None, None, None, 30>>,
         <<2, 3, None, None>>, <<None, None, 20, 30>>, <<5, None, 40, None>>, <<None, 7, None, 50>>,
         \* explicit zeros: a value like any other (recorded, extends the array, conflicts with another value)
         <<0, None, None, None>>, <<None, 0, None, None>>, <<0, 0, None, None>>, <<None, None, 0, None>>, <<None, None, None, 0>>, <<0, 3, 0, None>>}
Kid(p, s) == [row |-> p[1], col |-> p[2], rs |-> s[1], cs |-> s[2], rmh |-> s[3], cmw |-> s[4]]
Kids1 == {Kid(p, s) : p \in Pos, s \in Sets}
Plain == {Kid(p, <<None, None, None, None>>) : p \in Pos}
Flows == {[kind |-> "grid", flow |-> "ltr", count |-> n] : n \in 0..3} \cup {[kind |-> "grid", flow |-> "ttb", count |-> n] : n \in 0..3}
         \cup {[kind |-> "form", flow |-> "ltr", count |-> 0], [kind |-> "vbox", flow |-> "ltr", count |-> 0], [kind |-> "hbox", flow |-> "ltr", count |-> 0]}
L(f, ks) == [kind |-> f.kind, flow |-> f.flow, count |-> f.count, kids |-> ks]
Pick(n, S) == IF Cardinality(S) <= n THEN S ELSE RandomSubset(n, S)
Len1 == {L(f, <<a>>) : f \in Flows, a \in Kids1}
\* two children: exhaustive for the 2-column left-to-right and the 2-row top-to-bottom grid, sampled kids for the other flows
Main == {[kind |-> "grid", flow |-> "ltr", count |-> 2], [kind |-> "grid", flow |-> "ttb", count |-> 2]}
MainPick == atoi(IOEnv.MAINPICK)
Len2 == {L(f, <<a, b>>) : f \in Main, a \in Pick(MainPick, Kids1), b \in Pick(MainPick, Kids1)}
        \cup {L(f, <<a, b>>) : f \in Flows \ Main, a \in Pick(24, Kids1), b \in Pick(24, Kids1)}
K3 == {<<a, b, c>> : a \in Pick(16, Kids1), b \in Pick(6, Plain), c \in Pick(16, Kids1)}
K4 == {<<a, b, c, d>> : a \in Pick(5, Plain), b \in Pick(10, Kids1), c \in Pick(5, Plain), d \in Pick(10, Kids1)}
Len3 == {L(f, k) : f \in Flows, k \in K3}
Len4 == {L(f, k) : f \in Flows, k \in K4}
All == Len1 \cup Sample(Len2) \cup Sample(Len3) \cup Sample(Len4)
VARIABLE l
Init == l \in All
Next == UNCHANGED l
Emit == PrintT(<<"LAYOUT", ToJson([layout |-> l, expect |-> Expected(l, "row"), pinned |-> Expected(l, "column")])>>)
InRange == CellsInRange(l)
=============================================================================
