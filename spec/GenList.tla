------------------------------- MODULE GenList -------------------------------
(* Empty and non-empty list literals, list properties, object pointers, null and scalars in every pair of positions of a   *)
(* ternary, of a two-return body and of an equality, bound to a list property and to a pointer property: the verdict of    *)
(* Typing.tla for each (C05, both directions: the empty list unifies with a list from either side and with nothing else).  *)
EXTENDS Ast, Typing
A == Obj("a")
C1 == Rd(A, "flag")
EL == [k |-> "arr", args |-> <<>>]
L1 == [k |-> "arr", args |-> <<Str("a"), Str("b")>>]
Terms == {EL, L1, Rd(A, "items"), A, Rd(A, "ptr"), NullE(0), IntL(1), Str("x")}
Cands == {[prop |-> p, body |-> SExpr(Tern(C1, x, y)), ok |-> ExprBindingOk(p, Tern(C1, x, y))] : p \in {"items", "ptr"}, x \in Terms, y \in Terms}
    \cup {[prop |-> p, body |-> Block(<<If(C1, Ret(x), NoneS(0)), Ret(y)>>), ok |-> BodyBindingOk(p, Block(<<If(C1, Ret(x), NoneS(0)), Ret(y)>>))]
            : p \in {"items", "ptr"}, x \in Terms, y \in Terms}
    \cup {[prop |-> "flag", body |-> SExpr(Bin(op, x, y)), ok |-> ExprBindingOk("flag", Bin(op, x, y))] : op \in {"==", "!="}, x \in Terms, y \in Terms}
VARIABLE prog
Init == prog \in Cands
Next == UNCHANGED prog
Emit == PrintT(<<"PROG", ToJson(prog)>>)
=============================================================================
