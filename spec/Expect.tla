------------------------------ MODULE Expect ------------------------------
(***************************************************************************)
(* Oracle driver: for every program of the input file (enumerated by       *)
(* GenProg.tla or produced by the seeded random driver, same JSON format)  *)
(* enumerate the input states EnvsFor(prog) and print the value / effect   *)
(* sequence the reference semantics (Lang.tla) assigns, one JSON line per  *)
(* program.  Each program is one initial state, so TLC spreads the work    *)
(* over its workers.                                                       *)
(***************************************************************************)
EXTENDS Lang, Json, IOUtils

Progs == ndJsonDeserialize(IOEnv.PROGS)

Objs == {"a", "b"}
PropType == [ival |-> "int", jval |-> "int", uval |-> "uint", dval |-> "dbl", flag |-> "bool", flagB |-> "bool",
             text |-> "str", textB |-> "str", mode |-> "Mode", opts |-> "Opts", ptr |-> "ptr", sub |-> "subptr",
             items |-> "list", konst |-> "int", quiet |-> "int", rdonly |-> "int", xval |-> "int", cptr |-> "ptr"]
Props == DOMAIN PropType

DefaultOf(ty) ==
  CASE ty = "int" -> VInt(0) [] ty = "uint" -> VUint(0) [] ty = "dbl" -> VDbl(0) [] ty = "bool" -> VBool(FALSE)
    [] ty = "str" -> VStr("") [] ty = "Mode" -> VEnum("Mode", 0) [] ty = "Opts" -> VEnum("Opts", 0)
    [] ty \in {"ptr", "subptr"} -> VPtr("null") [] ty = "list" -> VList(<<>>)

\* value domains by size class: 1 = rich, 2 = medium, 3 = two-valued
Dom(ty, cls) ==
  CASE ty = "int"  -> {VInt(n) : n \in (IF cls = 1 THEN {-7, -2, -1, 0, 1, 2, 5} ELSE IF cls = 2 THEN {-2, 0, 3} ELSE {-1, 2})}
    [] ty = "uint" -> {VUint(n) : n \in (IF cls = 1 THEN {0, 1, 3, 6} ELSE IF cls = 2 THEN {0, 1, 5} ELSE {0, 3})}
    [] ty = "dbl"  -> {VDbl(n) : n \in (IF cls = 1 THEN {-6, 0, 1, 8} ELSE IF cls = 2 THEN {-6, 0, 8} ELSE {-6, 2})}
    [] ty = "bool" -> {VBool(TRUE), VBool(FALSE)}
    [] ty = "str"  -> {VStr(s) : s \in (IF cls = 1 THEN {"", "x", "xy"} ELSE {"", "x"})}
    [] ty = "Mode" -> {VEnum("Mode", n) : n \in (IF cls = 1 THEN {0, 1, 2} ELSE {0, 2})}
    [] ty = "Opts" -> {VEnum("Opts", n) : n \in (IF cls = 1 THEN {0, 1, 3, 6} ELSE {0, 3})}
    [] ty = "ptr"  -> {VPtr(s) : s \in {"null", "a", "b"}}
    [] ty = "subptr" -> {VPtr(s) : s \in {"null", "b"}}          \* only b is a TSub
    [] ty = "list" -> {VList(l) : l \in (IF cls = 1 THEN {<<>>, <<"x">>, <<"x", "y">>} ELSE {<<>>, <<"x", "y">>})}

RECURSIVE SlotsE(_), SlotsS(_), SlotsSeq(_)
SlotsArgs(args) == UNION {SlotsE(args[i]) : i \in 1..Len(args)}
SlotsE(e) ==
  CASE e.k = "rd" -> (IF e.o.k = "obj" THEN {<<e.o.n, e.p>>} ELSE {<<o, e.p>> : o \in Objs} \cup SlotsE(e.o))
    [] e.k \in {"un", "cast"} -> SlotsE(e.a)
    [] e.k \in {"bin", "and", "or"} -> SlotsE(e.a) \cup SlotsE(e.b)
    [] e.k = "tern" -> SlotsE(e.c) \cup SlotsE(e.a) \cup SlotsE(e.b)
    [] e.k \in {"call", "arr"} -> SlotsArgs(e.args)
    [] e.k = "sub" -> SlotsE(e.a) \cup SlotsE(e.i)
    [] OTHER -> {}
SlotsSeq(ss) == UNION {SlotsS(ss[i]) : i \in 1..Len(ss)}
SlotsS(x) ==
  CASE x.k \in {"expr", "let", "const", "asg", "ret"} -> SlotsE(x.e)
    [] x.k = "wprop" -> SlotsE(x.o) \cup SlotsE(x.e)
    [] x.k \in {"mcall", "letc"} -> SlotsE(x.o) \cup SlotsArgs(x.args)
    [] x.k = "log" -> SlotsArgs(x.args)
    [] x.k = "block" -> SlotsSeq(x.b)
    [] x.k = "if" -> SlotsE(x.c) \cup SlotsS(x.a) \cup (IF x.b.k = "none" THEN {} ELSE SlotsS(x.b))
    [] x.k = "switch" -> SlotsE(x.v) \cup UNION {SlotsE(x.cases[i].label) \cup SlotsSeq(x.cases[i].body) : i \in 1..Len(x.cases)}
                          \cup (IF x.def.k = "none" THEN {} ELSE SlotsSeq(x.def.body))
    [] OTHER -> {}

\* only slots of objects that exist (a TSub-typed read through 'sub' may name xval, which only b has)
Slots(p) == {s \in SlotsS(p.body) : s[1] \in Objs /\ s[2] \in Props}
Class(n) == IF n <= 2 THEN 1 ELSE IF n <= 4 THEN 2 ELSE 3
RECURSIVE AssignC(_, _)
AssignC(S, c) == IF S = {} THEN {[x \in {} |-> 0]}
                 ELSE LET s == CHOOSE s \in S : TRUE IN
                      {g @@ (s :> v) : g \in AssignC(S \ {s}, c), v \in Dom(PropType[s[2]], c)}
Assignments(S) == AssignC(S, Class(Cardinality(S)))
HeapOf(S, f) == [o \in Objs \cup {"t"} |-> [p \in Props |-> IF <<o, p>> \in S THEN f[<<o, p>>] ELSE DefaultOf(PropType[p])]]

\* arguments of a handler: one value per declared parameter
ParamDom(ty) == CASE ty = "int" -> {VInt(-1), VInt(0), VInt(3)} [] ty = "QString" -> {VStr(""), VStr("q")}
                  [] ty = "bool" -> {VBool(TRUE), VBool(FALSE)} [] ty = "uint" -> {VUint(0), VUint(4)}
                  [] ty = "double" -> {VDbl(2), VDbl(-6)}
RECURSIVE ArgTuplesN(_, _)
ArgTuplesN(params, n) == IF n = 0 THEN {<<>>} ELSE {Append(t, v) : t \in ArgTuplesN(params, n - 1), v \in ParamDom(params[n].ty)}
ArgTuples(params) == ArgTuplesN(params, Len(params))
LocOf(params, args) == [i \in 1..Len(params) |-> <<params[i].n, args[i]>>]

RowsOf(p) ==
  LET S == Slots(p)
      As == Assignments(S)
      params == IF "params" \in DOMAIN p THEN p.params ELSE <<>>
  IN { LET heap == HeapOf(S, f)
           loc == LocOf(params, args)
           r == Run(p.body, heap, loc)
       IN [s |-> {s[1] \o "." \o s[2] \o "=" \o Show(f[s]) : s \in S}, a |-> [j \in 1..Len(args) |-> Show(args[j])],
           ok |-> r.ok, det |-> TailDet(p.body, heap, loc), v |-> Show(r.val),
           e |-> [j \in 1..Len(r.eff) |-> ShowEff(r.eff[j])]]
       : f \in As, args \in ArgTuples(params) }

VARIABLE i
Init == i \in 1..Len(Progs)
Next == UNCHANGED i
TooBig(p) == Cardinality(Slots(p)) > 8
Emit == LET p == Progs[i] IN
        IF TooBig(p) THEN PrintT(<<"EXPECT", ToJson([id |-> p.id, skipped |-> TRUE, rows |-> {}])>>)
        ELSE PrintT(<<"EXPECT", ToJson([id |-> p.id, skipped |-> FALSE, rows |-> RowsOf(p)])>>)
=============================================================================
