------------------------------ MODULE Expect ------------------------------
(***************************************************************************)
(* Oracle driver: for every program of the input file (enumerated by       *)
(* GenProg.tla or produced by the seeded random driver, same JSON format)  *)
(* enumerate the input states EnvsFor(prog) and print the value / effect   *)
(* sequence the reference semantics (Lang.tla) assigns, one JSON line per  *)
(* program.  Each program is one initial state, so TLC spreads the work    *)
(* over its workers.                                                       *)
(***************************************************************************)
EXTENDS Domain, Json, IOUtils

Progs == ndJsonDeserialize(IOEnv.PROGS)

\* arguments of a handler: one value per declared parameter
ParamDom(ty) == CASE ty = "int" -> {VInt(-1), VInt(0), VInt(3)} [] ty = "QString" -> {VStr(""), VStr("q")}
                  [] ty = "bool" -> {VBool(TRUE), VBool(FALSE)} [] ty = "uint" -> {VUint(0), VUint(4)}
                  [] ty = "double" -> {VDbl(2), VDbl(-6)}
RECURSIVE ArgTuplesN(_, _)
ArgTuplesN(params, n) == IF n = 0 THEN {<<>>} ELSE {Append(t, v) : t \in ArgTuplesN(params, n - 1), v \in ParamDom(params[n].ty)}
ArgTuples(params) == ArgTuplesN(params, Len(params))
LocOf(params, args) == [i \in 1..Len(params) |-> <<params[i].n, args[i]>>]

RowsOf(p) ==
  LET S == Slots(p)
      As == Assignments(S)
      params == IF "params" \in DOMAIN p THEN p.params ELSE <<>>
  IN { LET heap == HeapOf(S, f)
           loc == LocOf(params, args)
           r == Run(p.body, heap, loc)
       IN [s |-> {s[1] \o "." \o s[2] \o "=" \o Show(f[s]) : s \in S}, a |-> [j \in 1..Len(args) |-> Show(args[j])],
           ok |-> r.ok, det |-> TailDet(p.body, heap, loc), v |-> Show(r.val),
           e |-> [j \in 1..Len(r.eff) |-> ShowEff(r.eff[j])]]
       : f \in As, args \in ArgTuples(params) }

VARIABLE i
Init == i \in 1..Len(Progs)
Next == UNCHANGED i
TooBig(p) == Cardinality(Slots(p)) > 8
Emit == LET p == Progs[i] IN
        IF TooBig(p) THEN PrintT(<<"EXPECT", ToJson([id |-> p.id, skipped |-> TRUE, rows |-> {}])>>)
        ELSE PrintT(<<"EXPECT", ToJson([id |-> p.id, skipped |-> FALSE, rows |-> RowsOf(p)])>>)
=============================================================================
