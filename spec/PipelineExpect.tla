--------------------------- MODULE PipelineExpect ---------------------------
(* Oracle driver: for every catalogue document of the input file print the place Pipeline.tla assigns to each   *)
(* binding in each mode and the document-level outcomes.                                                        *)
EXTENDS Pipeline, Json, IOUtils
Docs == ndJsonDeserialize(IOEnv.DOCS)
VARIABLE i
Init == i \in 1..Len(Docs)
Next == UNCHANGED i
D == Docs[i].bindings
Emit == PrintT(<<"PLACES", ToJson([id |-> Docs[i].id,
          places |-> [m \in Modes |-> [j \in 1..Len(D) |-> Place(D[j], D, m)]],
          accepted |-> [m \in Modes |-> Accepted(D, m)],
          headerempty |-> InHeader(D) = {}])>>)
=============================================================================
