CONSTANT Roles = {"window", "base"}
CONSTANT Groups = {"active", "disabled", "inactive"}
INIT Init
NEXT Next
INVARIANT OrderIndependent
CHECK_DEADLOCK FALSE
