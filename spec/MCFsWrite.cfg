CONSTANT Paths = {"x.ui", "uisupport_x.h"}
INIT Init
NEXT Next
INVARIANT OldOrNew
INVARIANT Untouched
INVARIANT RenameComplete
INVARIANT FinishedNoLeftover
CHECK_DEADLOCK FALSE
