------------------------------- MODULE MCWide -------------------------------
(* Self-check of Wide.tla: ring laws, division identity, two's complement identities and known decimal   *)
(* spellings on a grid of operands around 0, 2^31, 2^32, 2^53 and +-2^63 (model checking of the oracle).  *)
EXTENDS Wide, FiniteSets
Ops == {OfInt(0), OfInt(1), OfInt(-1), OfInt(2), OfInt(-7), OfInt(9999), OfInt(10000), OfInt(65536), Pow2(31), Neg(Pow2(31)), Pow2(32),
        Sub(Pow2(53), OfInt(1)), I64Max, I64Min, Sub(I64Max, OfInt(7)), Add(I64Min, OfInt(1)), OfInt(123456789), Neg(Pow2(40))}
VARIABLES a, b
Init == a \in Ops /\ b \in Ops
Next == UNCHANGED <<a, b>>
Laws == /\ Add(a, b) = Add(b, a)
        /\ Mul(a, b) = Mul(b, a)
        /\ Sub(Add(a, b), b) = a
        /\ Mul(a, Add(b, OfInt(1))) = Add(Mul(a, b), a)
        /\ (~IsZero(b) => Add(Mul(DivTrunc(a, b), b), RemTrunc(a, b)) = a)
        /\ (~IsZero(b) => CmpMag(RemTrunc(a, b).mag, b.mag) < 0)
        /\ (~IsZero(b) /\ ~IsZero(RemTrunc(a, b)) => RemTrunc(a, b).neg = a.neg)
        /\ BitXor(a, a) = Zero
        /\ BitAnd(a, OfInt(-1)) = a
        /\ BitOr(a, Zero) = a
        /\ BitNot(BitNot(a)) = a
        /\ BitXor(a, b) = Sub(BitOr(a, b), BitAnd(a, b))
        /\ OfBits64(Bits64(a)) = a
        /\ (Cmp(a, b) < 0 <=> Cmp(b, a) > 0)
Known == /\ ToDec(Mul(I64Max, I64Max)) = "85070591730234615847396907784232501249"
         /\ ToDec(I64Min) = "-9223372036854775808"
         /\ ToDec(Pow2(64)) = "18446744073709551616"
         /\ ToDec(DivTrunc(I64Min, OfInt(-7))) = "1317624576693539401"
         /\ ToDec(RemTrunc(I64Min, OfInt(-7))) = "-1"
         /\ ToDec(DivFloor(OfInt(-7), OfInt(2))) = "-4"
         /\ ToDec(BitAnd(OfInt(-7), OfInt(12))) = "8"
         /\ ToDec(BitNot(I64Max)) = "-9223372036854775808"
         /\ ToDec(Mul(OfInt(123456789), OfInt(123456789))) = "15241578750190521"
=============================================================================
