------------------------------- MODULE GenTree -------------------------------
(* Enumerates object trees by node count over the element kinds (widgets, the layout classes, spacers,       *)
(* actions, separator actions, menus, tab widgets), exhaustively up to SIZE nodes for admissible             *)
(* parent/child combinations, plus the inadmissible combinations (action under layout, spacer under widget, *)
(* children of action / spacer), plus id assignments chosen to look like generated names.                    *)
EXTENDS ObjTree, Json, IOUtils, Randomization
Size == atoi(IOEnv.SIZE)
Limit == atoi(IOEnv.LIMIT)
Sample(S) == IF Cardinality(S) <= Limit THEN S ELSE RandomSubset(Limit, S)
Under(kp) == CASE kp = "widget" -> {"QWidget", "QLabel", "QVBoxLayout", "QAction", "SEP", "QMenu", "QTabWidget", "MyMenu", "MyWidget", "MyRow"}
               [] kp = "layout" -> {"QWidget", "QLabel", "QHBoxLayout", "QGridLayout", "QFormLayout", "QSpacerItem", "MyWidget", "MyRow", "MyGrid"}
               [] kp = "menu" -> {"QAction", "SEP", "QMenu", "MyMenu"}
               [] kp = "tab" -> {"QWidget", "QLabel", "QGroupBox", "MyWidget"}
               [] OTHER -> {}
Leafy == {"QLabel", "QAction", "SEP", "QSpacerItem", "MyMenu", "MyWidget", "MyGrid"}
Mk(c, f) == IF c = "SEP" THEN Sep("") ELSE Node(c, "", f)
RECURSIVE Trees(_, _), Forests(_, _)
Trees(n, kp) == UNION {IF c \in Leafy THEN (IF n = 1 THEN {Mk(c, <<>>)} ELSE {})
                       ELSE {Mk(c, f) : f \in Forests(n - 1, Kind(c))} : c \in Under(kp)}
Forests(n, kp) == IF n = 0 THEN {<<>>}
                  ELSE UNION {{<<t>> \o f : t \in Trees(k, kp), f \in Forests(n - k, kp)} : k \in 1..n}
Roots(n) == {Node(c, "", f) : c \in {"QWidget"}, f \in Forests(n - 1, "widget")}
            \cup {Node("QTabWidget", "", f) : f \in Forests(n - 1, "tab")} \cup {Node("QMenu", "", f) : f \in Forests(n - 1, "menu")}
Good == UNION {Roots(n) : n \in 1..Size}
\* inadmissible combinations (must be diagnosed)
Bad == {Node("QWidget", "", <<Node("QVBoxLayout", "", <<Node("QAction", "", <<>>)>>)>>),
        Node("QWidget", "", <<Node("QSpacerItem", "", <<>>)>>),
        Node("QWidget", "", <<Node("QAction", "", <<Node("QLabel", "", <<>>)>>)>>),
        Node("QWidget", "", <<Node("QVBoxLayout", "", <<Node("QSpacerItem", "", <<Node("QLabel", "", <<>>)>>)>>)>>),
        Node("QVBoxLayout", "", <<Node("QLabel", "", <<>>)>>),
        Node("QAction", "", <<>>),
        Node("QWidget", "", <<Node("QHBoxLayout", "", <<Sep("")>>)>>),
        Node("QWidget", "", <<Node("QMenu", "", <<Node("QVBoxLayout", "", <<Node("QAction", "", <<>>)>>)>>)>>),
        \* a separator action is an action: no children (the next menu entry slipped inside its braces)
        Node("QMenu", "", <<[Sep("") EXCEPT !.kids = <<Node("QAction", "", <<>>)>>], Node("QAction", "", <<>>)>>),
        Node("QWidget", "", <<Node("QMenu", "", <<Node("QAction", "", <<>>), [Sep("") EXCEPT !.kids = <<Node("QAction", "", <<>>), Node("QMenu", "", <<>>)>>]>>)>>),
        Node("QWidget", "", <<[Sep("") EXCEPT !.kids = <<Node("QLabel", "", <<>>)>>]>>),
        Node("QWidget", "", <<Node("QSpacerItem", "", <<>>), Node("QVBoxLayout", "", <<>>)>>),
        Node("QWidget", "", <<Node("QVBoxLayout", "", <<Node("QSpacerItem", "", <<Node("QSpacerItem", "", <<>>)>>)>>)>>)}
\* shallow trees over classes whose generated-name prefixes interfere (label / label1, widget / widget2) for C10
NameClasses == {"QLabel", "Label1", "QWidget", "Widget2", "QAction"}
RECURSIVE Seqs(_)
Seqs(n) == IF n = 0 THEN {<<>>} ELSE {<<Node(c, "", <<>>)>> \o s : c \in NameClasses, s \in Seqs(n - 1)}
NameTrees == UNION {{Node("QWidget", "", s) : s \in Seqs(n)} : n \in 1..4}
             \cup {Node("QWidget", "", <<Node("QVBoxLayout", "", s)>>) : s \in UNION {Seqs(n) \cap {q \in Seqs(n) : \A j \in 1..Len(q) : q[j].cls # "QAction"} : n \in 2..3}}
\* seeded random trees of SIZE-2..SIZE nodes, built top-down (the sets above cannot be enumerated beyond 5 nodes)
RECURSIVE RTree(_, _), RForest(_, _)
RTreeOf(c, n, kp) == IF c \in Leafy THEN Mk(c, <<>>) ELSE Mk(c, RForest(n - 1, Kind(c)))
RTree(n, kp) == RTreeOf(RandomElement(IF n = 1 THEN Under(kp) ELSE Under(kp) \ Leafy), n, kp)
RForestOf(k, n, kp) == <<RTree(k, kp)>> \o RForest(n - k, kp)
RForest(n, kp) == IF n = 0 THEN <<>> ELSE RForestOf(RandomElement(1..(IF n > 3 THEN 3 ELSE n)), n, kp)
RRootOf(c, n) == Node(c, "", RForest(n - 1, Kind(c)))
RRoot(j) == RRootOf(RandomElement({"QWidget", "QTabWidget", "QMenu"}), Size - (j % 3))
RandomTrees == {RRoot(j) : j \in 1..Limit}
VARIABLE t
Init == t \in (IF IOEnv.WHICH = "names" THEN Sample(NameTrees) ELSE IF IOEnv.WHICH = "random" THEN RandomTrees ELSE Sample(Good) \cup Bad)
Next == UNCHANGED t
Emit == PrintT(<<"TREE", ToJson([tree |-> t, accepted |-> Accepted(t)])>>)
=============================================================================
