------------------------------ MODULE TraceModes ------------------------------
(* Record-wise validation of the three-mode outcome of one document against the mode relations of C14         *)
(* (Pipeline.tla states them at design level; here they are evaluated on what the real translator did).      *)
(* record: [id, gen, rej, omit] with each run = [form: hash or "", errors: set of "msg@s-e", header: BOOLEAN,  *)
(*                                            nbind, ncb]; predicted = [generate, reject, omit: BOOLEAN] or absent *)
EXTENDS Integers, Sequences, FiniteSets, TLC, Json, IOUtils
Recs == ndJsonDeserialize(IOEnv.RECS)
VARIABLE i
Init == i \in 1..Len(Recs)
Next == UNCHANGED i
R == Recs[i]
ErrSet(run) == {run.errors[j] : j \in 1..Len(run.errors)}
Acc(run) == run.errors = <<>> /\ run.form # ""
Forms == {R.gen.form, R.rej.form, R.omit.form} \ {""}
\* the .ui content is identical under the three modes whenever it is produced
FormSame == Cardinality(Forms) <= 1
\* accepted in reject mode exactly when accepted in generate mode with a header that has no bindings and no callbacks
RejectIffNoCode == Acc(R.rej) <=> (Acc(R.gen) /\ R.gen.nbind = 0 /\ R.gen.ncb = 0)
\* any error reported in omit mode is also reported in generate mode
OmitErrorsSubset == ErrSet(R.omit) \subseteq ErrSet(R.gen)
\* a support header is produced in generate mode only
HeaderOnlyInGenerate == ~R.rej.header /\ ~R.omit.header /\ (R.gen.form # "" => R.gen.header)
\* conformance with the pass model where a prediction exists
AsPredicted == R.haspred => (Acc(R.gen) = R.pred.generate /\ Acc(R.rej) = R.pred.reject /\ Acc(R.omit) = R.pred.omit)
=============================================================================
