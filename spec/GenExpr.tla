------------------------------ MODULE GenExpr ------------------------------
(* Enumerates well-typed value expressions of every type of the documented subset by node count   *)
(* (type-directed construction); one program per initial state, printed as JSON.  Sets larger than *)
(* LIMIT are sampled with TLC's seeded RandomSubset; sizes 1..3 are exhaustive.                    *)
EXTENDS Ast
A == Obj("a")
B == Obj("b")
ArithOps == {"+", "-", "*", "/", "%"}
BitOps == {"&", "|", "^"}
CmpOps == {"==", "!=", "<", "<=", ">", ">="}

\* ---- int --------------------------------------------------------------------------------
IDyn  == {Rd(A, "ival"), Rd(B, "ival")}
ILit  == {IntL(0), IntL(1), IntL(2), IntL(7)}
I1 == IDyn \cup ILit
B1 == {Rd(A, "flag"), Bool(TRUE), Bool(FALSE)}
I2 == {Un(op, x) : op \in {"-", "~", "+"}, x \in I1}
B2 == {Un("!", x) : x \in B1}
IBin(X, Y) == {Bin(op, x, y) : op \in ArithOps \cup BitOps, x \in X, y \in Y}
            \cup {Bin(op, x, y) : op \in {"<<", ">>"}, x \in X, y \in Y \cap (ILit \cup I2)}
ICmp(X, Y) == {Bin(op, x, y) : op \in CmpOps, x \in X, y \in Y}
I3 == IBin(I1, I1) \cup {Un(op, x) : op \in {"-", "~"}, x \in I2}
      \cup {Call(f, <<x, y>>) : f \in {"Math.max", "Math.min"}, x \in IDyn, y \in I1}
B3 == ICmp(I1, I1) \cup {And(x, y) : x, y \in B1} \cup {Or(x, y) : x, y \in B1}
      \cup {Bin(op, x, y) : op \in BitOps \cup {"==", "!="}, x, y \in B1} \cup {Un("!", x) : x \in B2}
I4 == {Tern(c, x, y) : c \in B1, x, y \in I1} \cup IBin(I2, I1) \cup IBin(I1, I2)
B4 == ICmp(I2, I1) \cup ICmp(I1, I2) \cup {And(x, y) : x \in B2, y \in B1} \cup {Or(x, y) : x \in B1, y \in B2}
      \cup {Tern(c, x, y) : c, x, y \in B1}
\* beyond size 4 the products are formed from seeded samples of their components (TLC's set
\* normalisation is quadratic in practice: 45 000 records take 80 s), depth comes from the random driver
Pick(n, S) == IF Cardinality(S) <= n THEN S ELSE RandomSubset(n, S)
SI1 == Pick(3, I1)
SI2 == Pick(6, I2)
SI3 == Pick(24, I3)
SI4 == Pick(24, I4)
SB3 == Pick(16, B3)
I5 == IBin(SI3, SI1) \cup IBin(SI1, SI3) \cup IBin(SI2, SI2) \cup {Tern(c, x, y) : c \in B2, x, y \in SI1}
      \cup {Tern(c, x, y) : c \in B1, x \in SI2, y \in SI1} \cup {Tern(c, x, y) : c \in B1, x \in SI1, y \in SI2}
B5 == ICmp(SI3, SI1) \cup ICmp(SI1, SI3) \cup {And(x, y) : x \in SB3, y \in B1} \cup {And(x, y) : x \in B1, y \in SB3}
      \cup {Or(x, y) : x \in SB3, y \in B1} \cup {Or(x, y) : x \in B1, y \in SB3}
I6 == {Tern(c, x, y) : c \in SB3, x, y \in SI1} \cup {Tern(c, x, y) : c \in B1, x \in SI3, y \in SI1}
      \cup {Tern(c, x, y) : c \in B1, x \in SI1, y \in SI3}
I7 == {Tern(c, x, y) : c \in SB3, x \in SI3, y \in SI1} \cup {Tern(c, x, y) : c \in B1, x \in SI4, y \in SI2}
      \cup {Bin(op, x, y) : op \in ArithOps, x \in SI4, y \in SI2} \cup {Bin(op, x, y) : op \in ArithOps, x \in SI3, y \in SI3}
B7 == {And(x, y) : x \in SB3, y \in SB3} \cup {Or(x, y) : x \in SB3, y \in SB3} \cup {Tern(c, x, y) : c \in SB3, x \in B1, y \in SB3}

\* ---- other types ------------------------------------------------------------------------
U1 == {Rd(A, "uval"), Rd(B, "uval")}
ULit == {IntL(0), IntL(1), IntL(3)}
U3 == {Bin(op, x, y) : op \in ArithOps \cup BitOps, x \in U1, y \in U1 \cup ULit}
      \cup {Bin(op, y, x) : op \in {"+", "*", "&", "|"}, x \in U1, y \in ULit}
      \cup {Bin(op, x, y) : op \in {"<<", ">>"}, x \in U1, y \in {IntL(0), IntL(1), IntL(3)}}
      \cup {Cast(x, "uint") : x \in IDyn} \cup {Call("Math.max", <<x, y>>) : x, y \in U1}
UB3 == {Bin(op, x, y) : op \in CmpOps, x \in U1, y \in U1 \cup ULit}
I_fromU == {Cast(x, "int") : x \in U1 \cup U3}

D1 == {Rd(A, "dval"), Rd(B, "dval")}
DLit == {Dbl(0), Dbl(1), Dbl(2), Dbl(6), Dbl(8)}                 \* 0, 0.25, 0.5, 1.5, 2.0
D2 == {Un("-", x) : x \in D1}
D3 == {Bin(op, x, y) : op \in {"+", "-", "*", "/"}, x \in D1, y \in D1 \cup DLit}
      \cup {Bin(op, y, x) : op \in {"+", "-", "*"}, x \in D1, y \in DLit}
      \cup {Cast(x, "double") : x \in IDyn \cup U1} \cup {Call(f, <<x, y>>) : f \in {"Math.max", "Math.min"}, x, y \in D1}
DB3 == {Bin(op, x, y) : op \in CmpOps, x \in D1, y \in D1 \cup DLit}
I_fromD == {Cast(x, "int") : x \in D1 \cup D3}
D5 == {Tern(c, x, y) : c \in DB3, x \in D1, y \in DLit} \cup {Bin(op, x, y) : op \in {"+", "-", "*"}, x \in D3, y \in D1}

S1 == {Rd(A, "text"), Rd(B, "text")}
SLit == {Str(""), Str("x"), Str("yz")}
S3 == {Bin("+", x, y) : x \in S1 \cup SLit, y \in S1} \cup {Bin("+", x, y) : x \in S1, y \in SLit}
      \cup {Tern(c, x, y) : c \in {Rd(A, "flag")}, x \in S1 \cup SLit, y \in S1 \cup SLit}
StrB3 == {Bin(op, x, y) : op \in {"==", "!="}, x \in S1, y \in S1 \cup SLit} \cup {Call("isEmpty", <<x>>) : x \in S1}
S5 == {Bin("+", x, y) : x \in S3, y \in S1 \cup SLit} \cup {Tern(c, x, y) : c \in StrB3, x \in S1, y \in SLit}

E1 == {Rd(A, "mode"), Rd(B, "mode")}
ELit == {En("Mode", "ModeA"), En("Mode", "ModeB"), En("Mode", "ModeC")}
EB3 == {Bin(op, x, y) : op \in {"==", "!="}, x \in E1, y \in E1 \cup ELit}
E3 == {Tern(c, x, y) : c \in {Rd(A, "flag")}, x \in E1 \cup ELit, y \in E1}
I_fromE == {Cast(x, "int") : x \in E1}
F1 == {Rd(A, "opts"), Rd(B, "opts")}
FLit == {En("Opt", "OptX"), En("Opt", "OptY"), En("Opt", "OptZ")}
F3 == {Bin(op, x, y) : op \in BitOps, x \in F1, y \in F1 \cup FLit}
I_fromF == {Cast(x, "int") : x \in F1 \cup F3}

P1 == {Rd(A, "ptr"), Rd(B, "ptr")}
PObj == {A, B}
PB3 == {Bin(op, x, y) : op \in {"==", "!="}, x \in P1, y \in P1 \cup {NullE(0)}} \cup {Bin(op, x, A) : op \in {"==", "!="}, x \in P1}
I_viaP == {Rd(x, "ival") : x \in P1} \cup {Rd(Rd(x, "ptr"), "ival") : x \in P1}
I_guardP == {Tern(Bin("!=", x, NullE(0)), Rd(x, "ival"), y) : x \in P1, y \in I1}
           \cup {Tern(And(Bin("!=", x, NullE(0)), Bin("!=", Rd(x, "ptr"), NullE(0))), Rd(Rd(x, "ptr"), "jval"), IntL(7)) : x \in P1}
L1 == {Rd(A, "items")}
LB == {Call("isEmpty", <<x>>) : x \in L1}
S_sub == {[k |-> "sub", a |-> x, i |-> i] : x \in L1, i \in {IntL(0), IntL(1), Rd(B, "ival")}}
L_arr == {[k |-> "arr", args |-> <<x, y>>] : x \in S1, y \in SLit \cup S1}

\* a binding program: target property + body
P(prop, e) == [prop |-> prop, body |-> [k |-> "expr", e |-> e]]
HasDyn(e) == TRUE
ExprProgs ==
  {P("ival", e) : e \in IDyn \cup I2 \cup I3 \cup I4 \cup Sample(I5) \cup Sample(I6) \cup Sample(I7)
                        \cup I_fromU \cup I_fromD \cup I_fromE \cup I_fromF \cup I_viaP \cup I_guardP}
  \cup {P("flag", e) : e \in B2 \cup B3 \cup Sample(B4) \cup Sample(B5) \cup Sample(B7) \cup UB3 \cup DB3 \cup StrB3 \cup EB3 \cup PB3 \cup LB}
  \cup {P("uval", e) : e \in U1 \cup U3}
  \cup {P("dval", e) : e \in D1 \cup D2 \cup D3 \cup Sample(D5)}
  \cup {P("text", e) : e \in S1 \cup S3 \cup Sample(S5) \cup S_sub}
  \cup {P("mode", e) : e \in E1 \cup E3} \cup {P("opts", e) : e \in F1 \cup F3}
  \cup {P("ptr", e) : e \in P1} \cup {P("items", e) : e \in L1 \cup L_arr}


VARIABLE prog
Init == prog \in ExprProgs
Next == UNCHANGED prog
Emit == PrintT(<<"PROG", ToJson(prog)>>)
=============================================================================
