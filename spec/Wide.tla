-------------------------------- MODULE Wide --------------------------------
(***************************************************************************)
(* Arbitrary-precision signed integers for program values.  TLC's own      *)
(* integers are 32-bit and trap on overflow, while qmluic folds constants  *)
(* in i64 and C03 is about the 64-bit boundary.  A value is [neg, mag]     *)
(* with mag a little-endian sequence of base-10^4 limbs without leading    *)
(* zero limbs (zero = <<>>); partial products stay below 10^8.             *)
(***************************************************************************)
EXTENDS Integers, Sequences, TLC
B == 10000
RECURSIVE Trim(_)
Trim(m) == IF m = <<>> THEN m ELSE IF m[Len(m)] = 0 THEN Trim(SubSeq(m, 1, Len(m) - 1)) ELSE m
RECURSIVE MagOfNat(_)
MagOfNat(n) == IF n = 0 THEN <<>> ELSE <<n % B>> \o MagOfNat(n \div B)
Limb(m, i) == IF i <= Len(m) THEN m[i] ELSE 0
MaxN(a, b) == IF a > b THEN a ELSE b
RECURSIVE AddM(_, _, _, _)
AddM(a, b, i, c) == IF i > MaxN(Len(a), Len(b)) THEN (IF c = 0 THEN <<>> ELSE <<c>>)
                    ELSE LET t == Limb(a, i) + Limb(b, i) + c IN <<t % B>> \o AddM(a, b, i + 1, t \div B)
RECURSIVE CmpM(_, _, _)
CmpM(a, b, i) == IF i = 0 THEN 0 ELSE IF Limb(a, i) < Limb(b, i) THEN -1 ELSE IF Limb(a, i) > Limb(b, i) THEN 1 ELSE CmpM(a, b, i - 1)
CmpMag(a, b) == IF Len(a) < Len(b) THEN -1 ELSE IF Len(a) > Len(b) THEN 1 ELSE CmpM(a, b, Len(a))
RECURSIVE SubM(_, _, _, _)      \* requires a >= b
SubM(a, b, i, br) == IF i > Len(a) THEN <<>>
                     ELSE LET t == Limb(a, i) - Limb(b, i) - br IN
                          IF t < 0 THEN <<t + B>> \o SubM(a, b, i + 1, 1) ELSE <<t>> \o SubM(a, b, i + 1, 0)
RECURSIVE MulLimb(_, _, _, _)
MulLimb(a, d, i, c) == IF i > Len(a) THEN (IF c = 0 THEN <<>> ELSE <<c>>)
                       ELSE LET t == a[i] * d + c IN <<t % B>> \o MulLimb(a, d, i + 1, t \div B)
RECURSIVE MulM(_, _, _)
MulM(a, b, j) == IF j > Len(b) THEN <<>>
                 ELSE AddM(MulLimb(a, b[j], 1, 0), <<0>> \o MulM(a, b, j + 1), 1, 0)
\* halving a magnitude: [q, r]
RECURSIVE HalfFrom(_, _, _)
HalfFrom(m, i, carry) == IF i = 0 THEN <<>>
                         ELSE LET t == carry * B + m[i] IN HalfFrom(m, i - 1, t % 2) \o <<t \div 2>>
HalfM(m) == Trim(HalfFrom(m, Len(m), 0))
OddM(m) == m # <<>> /\ m[1] % 2 = 1
RECURSIVE BitsM(_)              \* little-endian bits of a magnitude
BitsM(m) == IF m = <<>> THEN <<>> ELSE <<IF OddM(m) THEN 1 ELSE 0>> \o BitsM(HalfM(m))
RECURSIVE MagOfBits(_, _)       \* value of bits[i..Len], little-endian
MagOfBits(bits, i) == IF i > Len(bits) THEN <<>>
                      ELSE LET rest == MagOfBits(bits, i + 1)
                               dbl == Trim(AddM(rest, rest, 1, 0)) IN
                           IF bits[i] = 1 THEN Trim(AddM(dbl, <<1>>, 1, 0)) ELSE dbl
\* schoolbook binary long division of magnitudes: [q, r]
RECURSIVE DivStep(_, _, _, _, _)
DivStep(abits, i, b, r, qbits) ==
  IF i = 0 THEN [q |-> MagOfBits(qbits, 1), r |-> r]
  ELSE LET r2 == Trim(AddM(AddM(r, r, 1, 0), IF abits[i] = 1 THEN <<1>> ELSE <<>>, 1, 0)) IN
       IF CmpMag(r2, b) >= 0 THEN DivStep(abits, i - 1, b, Trim(SubM(r2, b, 1, 0)), <<1>> \o qbits)
       ELSE DivStep(abits, i - 1, b, r2, <<0>> \o qbits)
DivModM(a, b) == LET bits == BitsM(a) IN DivStep(bits, Len(bits), b, <<>>, <<>>)

W(neg, m) == LET t == Trim(m) IN [neg |-> neg /\ t # <<>>, mag |-> t]
Zero == W(FALSE, <<>>)
OfInt(n) == IF n < 0 THEN W(TRUE, MagOfNat(-n)) ELSE W(FALSE, MagOfNat(n))
IsZero(a) == a.mag = <<>>
Neg(a) == W(~a.neg, a.mag)
Add(a, b) == IF a.neg = b.neg THEN W(a.neg, AddM(a.mag, b.mag, 1, 0))
             ELSE IF CmpMag(a.mag, b.mag) >= 0 THEN W(a.neg, SubM(a.mag, b.mag, 1, 0)) ELSE W(b.neg, SubM(b.mag, a.mag, 1, 0))
Sub(a, b) == Add(a, Neg(b))
Mul(a, b) == W(a.neg # b.neg, MulM(a.mag, b.mag, 1))
Cmp(a, b) == IF a.neg /\ ~b.neg THEN -1 ELSE IF ~a.neg /\ b.neg THEN 1 ELSE IF a.neg THEN CmpMag(b.mag, a.mag) ELSE CmpMag(a.mag, b.mag)
Eq(a, b) == Cmp(a, b) = 0
\* truncating division and remainder (C, Rust, JS-on-integers): requires b # 0
DivTrunc(a, b) == W(a.neg # b.neg, DivModM(a.mag, b.mag).q)
RemTrunc(a, b) == W(a.neg, DivModM(a.mag, b.mag).r)
\* floor division by a positive b
DivFloor(a, b) == LET d == DivModM(a.mag, b.mag) IN
                  IF ~a.neg THEN W(FALSE, d.q) ELSE IF d.r = <<>> THEN W(TRUE, d.q) ELSE W(TRUE, AddM(d.q, <<1>>, 1, 0))
RECURSIVE Pow2(_)
Pow2(k) == IF k = 0 THEN OfInt(1) ELSE LET h == Pow2(k - 1) IN Add(h, h)
I64Max == W(FALSE, <<5807, 5477, 368, 3372, 922>>)    \* 9223372036854775807
I64Min == W(TRUE, <<5808, 5477, 368, 3372, 922>>)
FitsI64(a) == Cmp(a, I64Max) <= 0 /\ Cmp(a, I64Min) >= 0
Two53 == Pow2(53)
FitsF64Exact(a) == CmpMag(a.mag, Two53.mag) <= 0
\* two's complement 64-bit view
Two64 == Pow2(64)
Two63 == Pow2(63)
Pad(bits, n) == bits \o [j \in 1..(n - Len(bits)) |-> 0]
Bits64(a) == Pad(BitsM((IF a.neg THEN Add(a, Two64) ELSE a).mag), 64)
OfBits64(bits) == LET u == W(FALSE, MagOfBits(bits, 1)) IN IF Cmp(u, Two63) >= 0 THEN Sub(u, Two64) ELSE u
BitAnd(a, b) == LET x == Bits64(a)  y == Bits64(b) IN OfBits64([j \in 1..64 |-> IF x[j] = 1 /\ y[j] = 1 THEN 1 ELSE 0])
BitOr(a, b)  == LET x == Bits64(a)  y == Bits64(b) IN OfBits64([j \in 1..64 |-> IF x[j] = 1 \/ y[j] = 1 THEN 1 ELSE 0])
BitXor(a, b) == LET x == Bits64(a)  y == Bits64(b) IN OfBits64([j \in 1..64 |-> IF x[j] # y[j] THEN 1 ELSE 0])
BitNot(a) == Sub(Neg(a), OfInt(1))
\* decimal spelling
Pad4(n) == LET s == ToString(n) IN IF n < 10 THEN "000" \o s ELSE IF n < 100 THEN "00" \o s ELSE IF n < 1000 THEN "0" \o s ELSE s
RECURSIVE DecM(_, _)
DecM(m, i) == IF i = 0 THEN "" ELSE (IF i = Len(m) THEN ToString(m[i]) ELSE Pad4(m[i])) \o DecM(m, i - 1)
ToDec(a) == IF a.mag = <<>> THEN "0" ELSE (IF a.neg THEN "-" ELSE "") \o DecM(a.mag, Len(a.mag))
=============================================================================
