------------------------------- MODULE ObjTree -------------------------------
(***************************************************************************)
(* The object tree of a QML document and the Designer form it denotes      *)
(* (C10, C11, C20).  A tree node is [cls, id, sep, acts, kids]:            *)
(*   cls  class name            id   QML id or "" (anonymous)              *)
(*   sep  QAction { separator: true } with no other binding                *)
(*   acts explicit `actions: [...]` list: <<>> = not bound, otherwise a    *)
(*        sequence of ids (a menu is referenced as menu.menuAction())      *)
(*   kids children in source order                                         *)
(* FormOf gives the expected element tree: element kind by class, nesting  *)
(* inside the QML parent (through <item> under a layout), siblings in      *)
(* source order, addaction list = declaration order of action-like         *)
(* children unless an explicit list is bound.  Names: ids verbatim;        *)
(* anonymous objects get a name derived from their class -- the property   *)
(* fixes the prefix and uniqueness, not the numbering, so the expected     *)
(* form carries the prefix and references are positional.                  *)
(***************************************************************************)
EXTENDS Integers, Sequences, FiniteSets, TLC

WidgetClasses == {"QWidget", "QLabel", "QPushButton", "QGroupBox", "QToolBar", "QMenuBar", "QFrame", "Label1", "Widget2", "QDialog"}
LayoutClasses == {"QVBoxLayout", "QHBoxLayout", "QFormLayout", "QGridLayout", "MyRow", "MyGrid"}     \* MyRow / MyGrid: QML components whose root object is a QHBoxLayout / QGridLayout
Kind(cls) == IF cls \in LayoutClasses THEN "layout"
             ELSE IF cls = "QSpacerItem" THEN "spacer"
             ELSE IF cls = "QAction" THEN "action"
             ELSE IF cls \in {"QMenu", "MyMenu"} THEN "menu"        \* MyMenu: a QML component whose root object is a QMenu
             ELSE IF cls = "QTabWidget" THEN "tab"
             ELSE "widget"
\* uic's qtify: drop a leading Q/K followed by a letter, lower-case the leading capitals
Prefix == [QWidget |-> "widget", QLabel |-> "label", QPushButton |-> "pushButton", QGroupBox |-> "groupBox", QToolBar |-> "toolBar",
           QMenuBar |-> "menuBar", QFrame |-> "frame", Label1 |-> "label1", Widget2 |-> "widget2", QDialog |-> "dialog",
           QVBoxLayout |-> "vboxLayout", QHBoxLayout |-> "hboxLayout", QFormLayout |-> "formLayout", QGridLayout |-> "gridLayout",
           QSpacerItem |-> "spacerItem", QAction |-> "action", QMenu |-> "menu", QTabWidget |-> "tabWidget",
           MyMenu |-> "myMenu", MyWidget |-> "myWidget", MyRow |-> "myRow", MyGrid |-> "myGrid"]
IsWidgetLike(k) == k \in {"widget", "menu", "tab"}
Node(cls, id, kids) == [cls |-> cls, id |-> id, sep |-> FALSE, acts |-> <<>>, kids |-> kids]
Sep(id) == [cls |-> "QAction", id |-> id, sep |-> TRUE, acts |-> <<>>, kids |-> <<>>]

\* ---- admissibility ----------------------------------------------------------------------------
\* a child of kind kc under a parent of kind kp
ChildOk(kp, kc) == IF kp = "layout" THEN kc \in {"widget", "menu", "tab", "layout", "spacer"}
                   ELSE IF kp \in {"action", "spacer"} THEN FALSE
                   ELSE kc \in {"widget", "menu", "tab", "layout", "action"}
RECURSIVE TreeOk(_)
TreeOk(t) == \A j \in 1..Len(t.kids) : ChildOk(Kind(t.cls), Kind(t.kids[j].cls)) /\ TreeOk(t.kids[j])
RECURSIVE Ids(_)
Ids(t) == (IF t.id = "" THEN <<>> ELSE <<t.id>>) \o (IF t.kids = <<>> THEN <<>> ELSE
             LET RECURSIVE Cat(_) Cat(j) == IF j > Len(t.kids) THEN <<>> ELSE Ids(t.kids[j]) \o Cat(j + 1) IN Cat(1))
NoDupSeq(s) == \A j, k \in 1..Len(s) : j # k => s[j] # s[k]
RootOk(t) == IsWidgetLike(Kind(t.cls))
Accepted(t) == RootOk(t) /\ TreeOk(t) /\ NoDupSeq(Ids(t))

\* ---- the form ---------------------------------------------------------------------------------
ActionLike(c) == Kind(c.cls) \in {"action", "menu"}
RECURSIVE FormOf(_, _, _), SepIds(_)
SepIds(t) == (IF t.sep /\ t.id # "" THEN {t.id} ELSE {}) \cup UNION {SepIds(t.kids[j]) : j \in 1..Len(t.kids)}
\* an element: [el, cls, id, prefix, item, adds, kids]; adds entries: [sep] | [child position] | [id]
FormOf(t, underLayout, sepIds) ==
  LET k == Kind(t.cls)
      el == CASE k = "layout" -> "layout" [] k = "spacer" -> "spacer" [] k = "action" -> "action" [] OTHER -> "widget"
      elems == LET RECURSIVE Go(_) Go(j) == IF j > Len(t.kids) THEN <<>>
                                            ELSE (IF t.kids[j].sep THEN <<>> ELSE <<FormOf(t.kids[j], k = "layout", sepIds)>>) \o Go(j + 1) IN Go(1)
      declared == LET RECURSIVE Go(_, _) Go(j, pos) ==     \* pos = position among emitted child elements
                       IF j > Len(t.kids) THEN <<>>
                       ELSE IF t.kids[j].sep THEN <<[a |-> "sep", pos |-> 0, id |-> ""]>> \o Go(j + 1, pos)
                       ELSE IF ActionLike(t.kids[j]) THEN <<[a |-> "child", pos |-> pos, id |-> ""]>> \o Go(j + 1, pos + 1)
                       ELSE Go(j + 1, pos + 1) IN Go(1, 1)
      explicit == [j \in 1..Len(t.acts) |-> IF t.acts[j] \in sepIds THEN [a |-> "sep", pos |-> 0, id |-> ""] ELSE [a |-> "id", pos |-> 0, id |-> t.acts[j]]]
  IN [el |-> el, cls |-> t.cls, id |-> t.id, prefix |-> Prefix[t.cls], item |-> underLayout,
      adds |-> IF ~IsWidgetLike(k) THEN <<>> ELSE IF t.acts # <<>> THEN explicit ELSE declared,
      kids |-> elems]

\* ---- names (design model of objtree.rs ensure_object_names after the F1 repair) -----------------
RECURSIVE PostOrder(_)
PostOrder(t) == (LET RECURSIVE Cat(_) Cat(j) == IF j > Len(t.kids) THEN <<>> ELSE PostOrder(t.kids[j]) \o Cat(j + 1) IN Cat(1)) \o <<t>>
NameOf(p, n) == IF n = 0 THEN p ELSE p \o ToString(n)
RECURSIVE FirstFree(_, _, _)
FirstFree(p, n, used) == IF NameOf(p, n) \in used THEN FirstFree(p, n + 1, used) ELSE n
\* returns the sequence of names in post order; reserveGenerated = TRUE is the repaired algorithm
RECURSIVE Assign(_, _, _, _, _, _)
Assign(nodes, j, counters, used, acc, reserveGenerated) ==
  IF j > Len(nodes) THEN acc
  ELSE IF nodes[j].id # "" THEN Assign(nodes, j + 1, counters, used, Append(acc, nodes[j].id), reserveGenerated)
  ELSE LET p == Prefix[nodes[j].cls]
           c == IF p \in DOMAIN counters THEN counters[p] ELSE 0
           n == FirstFree(p, c, used)
           name == NameOf(p, n)
       IN Assign(nodes, j + 1, (p :> n + 1) @@ counters, IF reserveGenerated THEN used \cup {name} ELSE used, Append(acc, name), reserveGenerated)
Names(t, reserveGenerated) == LET ids == Ids(t) IN
   Assign(PostOrder(t), 1, [x \in {} |-> 0], {ids[j] : j \in 1..Len(ids)}, <<>>, reserveGenerated)
AllDistinct(t, reserveGenerated) == NoDupSeq(Names(t, reserveGenerated))
=============================================================================
