INIT Init
NEXT Next
INVARIANT FormSame
INVARIANT RejectIffNoCode
INVARIANT OmitErrorsSubset
INVARIANT HeaderOnlyInGenerate
INVARIANT AsPredicted
CHECK_DEADLOCK FALSE
