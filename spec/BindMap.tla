------------------------------ MODULE BindMap ------------------------------
(***************************************************************************)
(* The binding map of one object (qmlast/object.rs build_binding_map):     *)
(* declarations are inserted in source order into a trie keyed by the      *)
(* components of the binding name; dotted (`a.b: v`) and grouped           *)
(* (`a { b: v }`) notations may be mixed and merge into the same maps; a   *)
(* name that is bound twice, or used both as a value and as a group, is a  *)
(* "duplicated binding" error that aborts the object (C04: every binding   *)
(* lands somewhere or is diagnosed).                                       *)
(*   declaration  [k |-> "s", path]                 scalar  a.b.c: value     *)
(*                [k |-> "g", path, members]        grouped a.b { ... }      *)
(*   trie         [leaves: set of paths, maps: set of paths, dup: BOOLEAN]  *)
(***************************************************************************)
EXTENDS Integers, Sequences, FiniteSets, TLC
Empty == [leaves |-> {}, maps |-> {}, dup |-> FALSE]
Prefixes(p) == {SubSeq(p, 1, n) : n \in 1..(Len(p) - 1)}            \* proper, non-empty
\* ensure_ui_binding_map_bases: every proper prefix becomes (or is) a map; a value there is a duplicate
Bases(t, p) == IF Prefixes(p) \cap t.leaves # {} THEN [t EXCEPT !.dup = TRUE] ELSE [t EXCEPT !.maps = @ \cup Prefixes(p)]
InsertScalar(t, p) == LET b == Bases(t, p) IN
                      IF b.dup \/ p \in b.leaves \cup b.maps THEN [b EXCEPT !.dup = TRUE] ELSE [b EXCEPT !.leaves = @ \cup {p}]
RECURSIVE Insert(_, _, _), InsertAll(_, _, _, _)
\* base = path of the enclosing group
Insert(t, base, d) ==
  IF t.dup THEN t
  ELSE IF d.k = "s" THEN InsertScalar(t, base \o d.path)
  ELSE LET p == base \o d.path
           b == Bases(t, p) IN
       IF b.dup \/ p \in b.leaves THEN [b EXCEPT !.dup = TRUE]
       ELSE InsertAll([b EXCEPT !.maps = @ \cup {p}], p, d.members, 1)
InsertAll(t, base, ds, j) == IF j > Len(ds) \/ t.dup THEN t ELSE InsertAll(Insert(t, base, ds[j]), base, ds, j + 1)
Build(decls) == InsertAll(Empty, <<>>, decls, 1)
\* ---- properties of the design ------------------------------------------------------------------------
RECURSIVE LeafPaths(_, _)
\* the names written in the source, as full paths (with multiplicity lost)
LeafPaths(base, ds) == UNION {IF ds[j].k = "s" THEN {base \o ds[j].path} ELSE LeafPaths(base \o ds[j].path, ds[j].members) : j \in 1..Len(ds)}
\* nothing is lost silently: without an error every written name is a value of the map, and nothing else is
NothingLost(decls) == LET t == Build(decls) IN ~t.dup => t.leaves = LeafPaths(<<>>, decls)
\* a value never sits under another value, and no path is both a value and a group
WellShaped(decls) == LET t == Build(decls) IN ~t.dup => (t.leaves \cap t.maps = {} /\ \A p \in t.leaves : Prefixes(p) \cap t.leaves = {})
=============================================================================
