------------------------------ MODULE GenColor ------------------------------
(* Enumerates colour strings with the channels Qt assigns (Color.tla): every 3- and 4-digit hex colour          *)
(* exhaustively (one state per leading digit pair, lower case; the case variants of the digits are sampled),   *)
(* seeded 6- and 8-digit ones, every keyword, and hex strings of wrong length.  Keyword case variants and      *)
(* arbitrary other strings are added by the driver, which takes the expected channels from the KEY records.    *)
EXTENDS Color, Json, IOUtils, Randomization
N == atoi(IOEnv.LONG)
D == 0..15
Spell(ds, tab) == LET RECURSIVE S(_) S(j) == IF j > Len(ds) THEN "" ELSE tab[ds[j] + 1] \o S(j + 1) IN "#" \o S(1)
Rec(ds, tab) == [s |-> Spell(ds, tab), c |-> OfDigits(ds)]
Long6 == RandomSubset(N, [1..6 -> D])
Long8 == RandomSubset(N, [1..8 -> D])
\* hex colours of every admissible length with one or two digits replaced by a character that is no hex digit (signs, blank, underscore,
\* letters next to the hex range, the radix marker): none of them is a colour, wherever the intruder stands
Foreign == <<"+", "-", " ", "_", "g", "G", "x", "#", ".", "`", "@", "/", ":">>
WithF == Lower \o Foreign
DF == 16..(15 + Len(Foreign))
Intruded == UNION {UNION {{[d EXCEPT ![i] = f] : i \in 1..n, f \in DF} \cup {[d EXCEPT ![i] = f, ![j] = f] : i \in 1..n, j \in 1..n, f \in {16, 17, 18}}
                            : d \in RandomSubset(6, [1..n -> D])} : n \in {3, 4, 6, 8}}
VARIABLE p
Init == p \in (D \X D) \cup {<<-1, 0>>, <<-2, 0>>, <<-3, 0>>, <<-4, 0>>}
Next == UNCHANGED p
Batch == IF p[1] = -1 THEN {Rec(d, Lower) : d \in Long6 \cup Long8} \cup {Rec(d, Upper) : d \in RandomSubset(N \div 4, [1..6 -> D])}
         ELSE IF p[1] = -2 THEN {[s |-> k, c |-> OfKeyword(k)] : k \in Keywords \cup {"transparent"}}
         ELSE IF p[1] = -3 THEN {[s |-> Spell(d, Lower), c |-> <<-1, -1, -1, -1>>] : d \in UNION {[1..n -> {0, 10, 15}] : n \in {1, 2, 5, 7}} \cup RandomSubset(20, [1..9 -> D])}
         ELSE IF p[1] = -4 THEN {[s |-> Spell(d, WithF), c |-> <<-1, -1, -1, -1>>] : d \in Intruded}
         ELSE {Rec(<<p[1], p[2], x>>, Lower) : x \in D} \cup {Rec(<<p[1], p[2], x, y>>, Lower) : x \in D, y \in D}
              \cup {Rec(<<p[1], p[2], x>>, Upper) : x \in {10, 15}} \cup {Rec(<<p[1], p[2], x, y>>, Upper) : x \in {11}, y \in {12, 3}}
Emit == PrintT(<<"COLORS", ToJson(Batch)>>)
=============================================================================
