------------------------------- MODULE GenIll -------------------------------
(* Programs obtained from well-typed ones by a single type-breaking edit (C05), each family instantiated      *)
(* with constant and with property-read operands so that both the translation-time folder and the run-time   *)
(* path are exercised.  Every candidate is re-judged by Typing.tla: an edit that happens to stay well typed  *)
(* is discarded, so everything printed is ill typed per the specification.                                   *)
EXTENDS Ast, Typing
A == Obj("a")
B == Obj("b")
\* representative terms per type: <<dynamic, constant>> where a literal exists
TermsOf(t) ==
  CASE t = "int" -> {Rd(A, "ival"), IntL(3)}
    [] t = "uint" -> {Rd(A, "uval")}
    [] t = "dbl" -> {Rd(A, "dval"), Dbl(6)}
    [] t = "bool" -> {Rd(A, "flag"), Bool(TRUE)}
    [] t = "str" -> {Rd(A, "text"), Str("x")}
    [] t = "enum" -> {Rd(A, "mode"), En("Mode", "ModeB")}
    [] t = "flags" -> {Rd(A, "opts")}
    [] t = "ptr" -> {Rd(A, "ptr"), A}
    [] t = "list" -> {Rd(A, "items")}
Kinds == {"int", "uint", "dbl", "bool", "str", "enum", "flags", "ptr", "list"}
PropFor == [int |-> "ival", uint |-> "uval", dbl |-> "dval", bool |-> "flag", str |-> "text", enum |-> "mode",
            flags |-> "opts", ptr |-> "ptr", list |-> "items"]
AllBin == ArithOps \cup BitOps \cup ShiftOps \cup CmpOps
Singles == UNION {{<<t, x>> : x \in TermsOf(t)} : t \in Kinds}
Sames == UNION {{<<t, x, y>> : x \in TermsOf(t), y \in TermsOf(t)} : t \in Kinds}
Pairs == UNION {{<<t1, t2, x, y>> : x \in TermsOf(t1), y \in TermsOf(t2)} : t1 \in Kinds, t2 \in Kinds}
Cand(prop, e, why) == [prop |-> prop, body |-> [k |-> "expr", e |-> e], why |-> why]
\* (1) operands of different type families under every binary operator; result bound to a property of the left family
MixedOperands == {Cand(PropFor[IF op \in CmpOps THEN "bool" ELSE q[1]], Bin(op, q[3], q[4]), "operands of different types")
                    : op \in AllBin, q \in Pairs}
\* (2) operator not admissible for the (common) operand type
BadOperator == {Cand(PropFor[IF op \in CmpOps THEN "bool" ELSE q[1]], Bin(op, q[2], q[3]), "operator not admissible for the operand type")
                    : op \in AllBin, q \in Sames}
               \cup {Cand(PropFor[q[1]], Un(op, q[2]), "unary operator not admissible") : op \in {"-", "+", "~", "!"}, q \in Singles}
\* (3) non-bool conditions
NonBool == UNION {TermsOf(t) : t \in Kinds \ {"bool"}}
BadCond == {Cand("ival", Tern(c, IntL(1), Rd(A, "ival")), "condition is not bool") : c \in NonBool}
           \cup {Cand("flag", And(c, Rd(A, "flag")), "operand of && is not bool") : c \in NonBool}
           \cup {Cand("flag", Or(Rd(A, "flag"), c), "operand of || is not bool") : c \in NonBool}
           \cup {Cand(PropFor[q[1]], Tern(Rd(A, "flag"), q[3], q[4]), "ternary arms of different types") : q \in Pairs}
\* (4) result type not assignable to the bound property (incl. base pointer to derived property, int/double)
BadResult == {Cand(PropFor[q[1]], q[4], "result type not assignable to the property") : q \in Pairs}
             \cup {Cand("sub", e, "base pointer bound to a derived-pointer property") : e \in {A, Rd(A, "ptr")}}
             \cup {Cand("dval", e, "integer bound to a double property") : e \in {Rd(A, "ival"), Bin("+", Rd(A, "ival"), IntL(1))}}
             \cup {Cand("ival", e, "double bound to an int property") : e \in {Rd(A, "dval"), Bin("*", Rd(A, "dval"), Dbl(8))}}
\* (5) calls
BadCall == {Cand("ival", Call(f, args), "wrong argument count or types for Math.min/max") :
               f \in {"Math.max", "Math.min"},
               args \in {<<Rd(A, "ival")>>, <<Rd(A, "ival"), IntL(1), IntL(2)>>, <<Rd(A, "ival"), Rd(A, "dval")>>, <<Rd(A, "ival"), Rd(A, "text")>>,
                         <<Rd(A, "ival"), Rd(A, "uval")>>, <<Rd(A, "ptr"), Rd(A, "ptr")>>}}
           \cup {Cand("flag", Call("isEmpty", <<x>>), "isEmpty on a non-container") : x \in {Rd(A, "ival"), Rd(A, "flag"), Rd(A, "ptr")}}
           \cup {Cand("text", [k |-> "sub", a |-> x, i |-> i], "bad subscript") :
                   x \in {Rd(A, "items"), Rd(A, "text")}, i \in {Rd(A, "text"), Rd(A, "flag"), Rd(A, "dval"), IntL(0)}}
           \cup {Cand(IF ty = "double" THEN "dval" ELSE IF ty = "uint" THEN "uval" ELSE "ival", Cast(q[2], ty), "inadmissible cast") : ty \in {"int", "uint", "double"}, q \in Singles}
\* (6) return paths of different types (two and three returns; an untyped literal first does not hide a later clash)
RetTerms == {IntL(0), Rd(A, "ival"), Rd(A, "uval"), Rd(A, "dval"), NullE(0), A, B, Rd(A, "ptr"), Rd(A, "sub"), Str("x"), Rd(A, "text"), Rd(A, "flag")}
PropOfTerm(x) == LET t == Concrete(TypeOf(x, NoLocs)) IN
   CASE t = "int" -> "ival" [] t = "uint" -> "uval" [] t = "dbl" -> "dval" [] t = "str" -> "text" [] t = "bool" -> "flag"
     [] t = "ptr:TSub" -> "sub" [] OTHER -> "ptr"
C1 == Rd(A, "flag")
C2 == Rd(B, "flag")
RetMix == {[prop |-> PropOfTerm(z), body |-> Block(<<If(C1, Ret(x), NoneS(0)), If(C2, Ret(y), NoneS(0)), Ret(z)>>), why |-> "return paths of different types"]
             : x \in RetTerms, y \in RetTerms, z \in RetTerms}
          \cup {[prop |-> PropOfTerm(y), body |-> Block(<<If(C1, Ret(x), NoneS(0)), Ret(y)>>), why |-> "return paths of different types"]
             : x \in RetTerms, y \in RetTerms}
IllBody == {c \in RetMix : ~BodyBindingOk(c.prop, c.body)}
IllExpr == {c \in MixedOperands \cup BadOperator \cup BadCond \cup BadResult \cup BadCall : ~ExprBindingOk(c.prop, c.body.e)}

\* handler statements
H(body, why) == [sig |-> "fired", params |-> <<[n |-> "n", ty |-> "int"], [n |-> "s", ty |-> "QString"]>>, form |-> "function",
                 body |-> Block(body), why |-> why]
IllHandlerCand ==
     {H(<<Const("c", IntL(1)), Asg("c", IntL(2))>>, "assignment to const")}
  \cup {H(<<Let("v", q[3]), Asg("v", q[4])>>, "assignment of another type to a local") : q \in Pairs}
  \cup {H(<<WProp(A, p, IntL(1))>>, "assignment to a read-only property") : p \in ReadOnlyProps}
  \cup {H(<<WProp(A, PropFor[q[1]], q[4])>>, "property assigned a value of another type") : q \in Pairs}
  \cup {H(<<WProp(B, "sub", A)>>, "base pointer assigned to derived-pointer property")}
  \cup {H(<<MCall(A, m, args)>>, "wrong argument count or type") :
          m \in {"act", "actText", "actTwo", "poke", "actPtr"},
          args \in {<<>>, <<IntL(1)>>, <<Str("x")>>, <<IntL(1), IntL(2)>>, <<Rd(A, "dval")>>, <<IntL(1), Str("x")>>, <<Str("x"), IntL(1)>>,
                    <<IntL(1), IntL(2), IntL(3)>>, <<Lv("s")>>, <<Lv("n"), Lv("s")>>, <<Rd(A, "flag")>>}}
  \cup {H(<<If(c, SExpr(IntL(1)), NoneS(0))>>, "if condition is not bool") : c \in NonBool}
  \cup {H(<<Sw(q[3], <<Case(q[4], <<>>)>>, NoneS(0))>>, "case label of another type than the switch value") : q \in Pairs}
  \cup {H(<<Asg("undeclared", IntL(1))>>, "assignment to an undeclared name")}
IllHandler == {h \in IllHandlerCand : ~HandlerOk(h.params, h.body)}
VARIABLE prog
Init == prog \in IllExpr \cup IllHandler \cup IllBody
Next == UNCHANGED prog
Emit == PrintT(<<"PROG", ToJson(prog)>>)
=============================================================================
