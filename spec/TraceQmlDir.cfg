INIT Init
NEXT TraceNext
INVARIANT ModulesSound
INVARIANT ScanOnlyNew
POSTCONDITION PostAccepted
CHECK_DEADLOCK FALSE
