--------------------------- MODULE TraceTotality ---------------------------
(* Judges recorded runs (one record per (document, mode) or per command-line invocation) with Totality.tla. *)
EXTENDS Totality, Json, IOUtils
Recs == ndJsonDeserialize(IOEnv.RECS)
VARIABLE i
Init == i \in 1..Len(Recs)
Next == UNCHANGED i
Total == LET v == Verdict(Recs[i]) IN IF v = "" THEN TRUE ELSE PrintT(<<"REJECT", ToJson([id |-> Recs[i].id, why |-> v])>>) /\ FALSE
=============================================================================
