----------------------------- MODULE TypeExpect -----------------------------
(* What TypeGraph.tla admits for hand-made graphs whose nodes are module-qualified classes ("m.A", "m2.A": distinct classes   *)
(* that carry the same unqualified name): derives-from for every pair and the acceptable owners of a declaration per class. *)
EXTENDS TypeGraph, Json, IOUtils
Recs == ndJsonDeserialize(IOEnv.RECS)
VARIABLE i
Init == i \in 1..Len(Recs)
Next == UNCHANGED i
Rng(s) == {s[j] : j \in 1..Len(s)}
G == [supers |-> Recs[i].supers, decl |-> Rng(Recs[i].decl)]
WalkTerminates == \A c \in Classes(G) : Terminates(G, c)
Emit == PrintT(<<"TYPEEXPECT", ToJson([id |-> Recs[i].id,
          derived |-> {[c |-> c, b |-> b, holds |-> DerivedSpec(G, c, b)] : c \in Classes(G), b \in Classes(G)},
          owners |-> {[c |-> c, owners |-> DeclOwners(G, c)] : c \in Classes(G)},
          common |-> {[a |-> a, b |-> b, bases |-> CommonBases(G, a, b)] : a \in Classes(G), b \in Classes(G)}])>>)
=============================================================================
