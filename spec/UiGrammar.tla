------------------------------ MODULE UiGrammar ------------------------------
(***************************************************************************)
(* The subset of Qt Designer's ui4 form grammar that uic consumes, as a    *)
(* push-down recogniser over the XML event stream of a .ui file (C09).     *)
(* One record per document: the events produced by an independent XML      *)
(* parser (expat) from the REAL output -- a parse failure is an event.     *)
(*   event  [e: "s"|"e"|"x"|"bad", t: tag, a: attributes, x: text]         *)
(* Frames on the stack: [k: element kind, t: tag, kids: child tags,        *)
(*                       pn: property names, an: attribute-element names]  *)
(***************************************************************************)
EXTENDS Integers, Sequences, FiniteSets, TLC, Json, IOUtils

LeafValues == {"bool", "number", "double", "string", "cstring", "enum", "set", "pixmap", "cursorShape"}
FontTags == {"family", "pointsize", "weight", "italic", "bold", "underline", "strikeout", "kerning", "stylestrategy", "antialiasing",
             "fixedpitch", "overline", "pixelsize", "stretch", "capitalization", "hintingpreference", "letterspacing", "wordspacing", "stylename", "style"}
IconTags == {"normaloff", "normalon", "disabledoff", "disabledon", "activeoff", "activeon", "selectedoff", "selectedon"}
\* kind of a child element with the given tag under a parent of the given kind ("INVALID" = not in the grammar)
Kind(pk, tag) ==
  CASE pk = "root" -> (IF tag = "ui" THEN "ui" ELSE "INVALID")
    [] pk = "ui" -> (CASE tag = "class" -> "classname" [] tag = "widget" -> "widget" [] tag = "customwidgets" -> "customwidgets" [] OTHER -> "INVALID")
    [] pk = "customwidgets" -> (IF tag = "customwidget" THEN "customwidget" ELSE "INVALID")
    [] pk = "customwidget" -> (IF tag \in {"class", "extends", "header"} THEN "leaf" ELSE "INVALID")
    [] pk = "widget" -> (CASE tag \in {"attribute", "property"} -> "prop" [] tag = "addaction" -> "empty" [] tag = "item" -> "modelitem"
                           [] tag = "layout" -> "layout" [] tag = "widget" -> "widget" [] tag = "action" -> "action" [] OTHER -> "INVALID")
    [] pk = "layout" -> (CASE tag = "property" -> "prop" [] tag = "item" -> "layoutitem" [] OTHER -> "INVALID")
    [] pk = "layoutitem" -> (CASE tag = "widget" -> "widget" [] tag = "layout" -> "layout" [] tag = "spacer" -> "spacer" [] OTHER -> "INVALID")
    [] pk \in {"modelitem", "spacer", "action"} -> (IF tag = "property" THEN "prop" ELSE "INVALID")
    [] pk = "prop" -> (CASE tag \in LeafValues -> "leaf" [] tag = "stringlist" -> "stringlist" [] tag = "rect" -> "rect" [] tag = "size" -> "size"
                         [] tag = "font" -> "font" [] tag = "sizepolicy" -> "sizepolicy" [] tag = "color" -> "color" [] tag = "brush" -> "brush"
                         [] tag = "palette" -> "palette" [] tag = "iconset" -> "iconset" [] OTHER -> "INVALID")
    [] pk = "stringlist" -> (IF tag = "string" THEN "leaf" ELSE "INVALID")
    [] pk = "rect" -> (IF tag \in {"x", "y", "width", "height"} THEN "leaf" ELSE "INVALID")
    [] pk = "size" -> (IF tag \in {"width", "height"} THEN "leaf" ELSE "INVALID")
    [] pk = "font" -> (IF tag \in FontTags THEN "leaf" ELSE "INVALID")
    [] pk = "sizepolicy" -> (IF tag \in {"horstretch", "verstretch"} THEN "leaf" ELSE "INVALID")
    [] pk = "color" -> (IF tag \in {"red", "green", "blue"} THEN "leaf" ELSE "INVALID")
    [] pk = "brush" -> (IF tag = "color" THEN "color" ELSE "INVALID")
    [] pk = "palette" -> (IF tag \in {"active", "inactive", "disabled"} THEN "colorgroup" ELSE "INVALID")
    [] pk = "colorgroup" -> (IF tag = "colorrole" THEN "colorrole" ELSE "INVALID")
    [] pk = "colorrole" -> (IF tag = "brush" THEN "brush" ELSE "INVALID")
    [] pk = "iconset" -> (IF tag \in IconTags THEN "leaf" ELSE "INVALID")
    [] OTHER -> "INVALID"
Required(k, tag) == CASE k \in {"widget", "layout"} -> {"class", "name"} [] k \in {"spacer", "action", "empty", "prop"} -> {"name"}
                      [] k = "ui" -> {"version"} [] k = "colorrole" -> {"role"} [] OTHER -> {}
AllowedAttrs(k, tag) ==
  CASE k = "widget" -> {"class", "name", "native"} [] k = "layout" -> {"class", "name", "stretch", "rowstretch", "columnstretch", "rowminimumheight", "columnminimumwidth"}
    [] k = "layoutitem" -> {"row", "column", "rowspan", "colspan", "alignment"}
    [] k = "prop" -> {"name", "stdset"} [] k \in {"spacer", "action", "empty"} -> {"name"} [] k = "ui" -> {"version"}
    \* text-only elements are read with readElementText(): uic never looks at their attributes (<family notr="true"> is emitted for string members)
    [] k = "leaf" -> {"notr", "comment", "extracomment"}
    [] k = "stringlist" -> {"notr", "comment", "extracomment"} [] k = "color" -> {"alpha"} [] k = "brush" -> {"brushstyle"}
    [] k = "sizepolicy" -> {"hsizetype", "vsizetype"} [] k = "iconset" -> {"theme", "resource"} [] k = "colorrole" -> {"role"}
    [] OTHER -> {}
Frame(k, t) == [k |-> k, t |-> t, kids |-> <<>>, pn |-> {}, an |-> {}]
Count(s, x) == Cardinality({j \in 1..Len(s) : s[j] = x})
NoDupSeq(s) == \A j, k \in 1..Len(s) : j # k => s[j] # s[k]
\* constraints evaluated when an element ends
EndOk(f) ==
  CASE f.k = "ui" -> Len(f.kids) >= 2 /\ f.kids[1] = "class" /\ f.kids[2] = "widget" /\ Count(f.kids, "class") = 1 /\ Count(f.kids, "widget") = 1
                     /\ Count(f.kids, "customwidgets") <= 1
    [] f.k \in {"prop", "layoutitem", "colorrole"} -> Len(f.kids) = 1       \* exactly one value element / one content
    [] f.k = "brush" -> Len(f.kids) <= 1      \* uic reads the colour of a brush only if there is one (a style alone is a valid brush)
    [] f.k = "color" -> Count(f.kids, "red") = 1 /\ Count(f.kids, "green") = 1 /\ Count(f.kids, "blue") = 1 /\ Len(f.kids) = 3
    [] f.k \in {"rect", "size", "font", "sizepolicy", "iconset", "palette"} -> NoDupSeq(f.kids)
    [] f.k = "customwidgets" -> Len(f.kids) >= 1
    [] f.k = "customwidget" -> Count(f.kids, "class") = 1 /\ Count(f.kids, "extends") = 1 /\ Count(f.kids, "header") = 1
    [] f.k \in {"leaf", "empty", "classname"} -> f.kids = <<>>
    [] OTHER -> TRUE
\* one step of the recogniser: returns [stack, err]
Step(stack, ev, typename) ==
  IF ev.e = "bad" THEN [stack |-> stack, err |-> "not well-formed XML: " \o ev.x]
  ELSE IF ev.e = "s" THEN
    LET top == stack[Len(stack)]
        k == Kind(top.k, ev.t)
        names == DOMAIN ev.a
        isProp == k = "prop"
        dup == isProp /\ (IF ev.t = "attribute" THEN ev.a.name \in top.an ELSE ev.a.name \in top.pn)
        top2 == [top EXCEPT !.kids = Append(@, ev.t),
                            !.pn = IF isProp /\ ev.t = "property" /\ "name" \in names THEN @ \cup {ev.a.name} ELSE @,
                            !.an = IF isProp /\ ev.t = "attribute" /\ "name" \in names THEN @ \cup {ev.a.name} ELSE @]
    IN IF k = "INVALID" THEN [stack |-> stack, err |-> "<" \o ev.t \o "> is not allowed inside <" \o top.t \o ">"]
       ELSE IF ~(Required(k, ev.t) \subseteq names) THEN [stack |-> stack, err |-> "<" \o ev.t \o "> lacks a required attribute"]
       ELSE IF ~(names \subseteq AllowedAttrs(k, ev.t)) THEN [stack |-> stack, err |-> "<" \o ev.t \o "> carries an unknown attribute"]
       ELSE IF k = "ui" /\ ev.a.version # "4.0" THEN [stack |-> stack, err |-> "ui version is not 4.0"]
       ELSE IF dup THEN [stack |-> stack, err |-> "duplicate " \o ev.t \o " name " \o ev.a.name \o " inside <" \o top.t \o ">"]
       ELSE [stack |-> SubSeq(stack, 1, Len(stack) - 1) \o <<top2, Frame(k, ev.t)>>, err |-> ""]
  ELSE IF ev.e = "x" THEN       \* non-blank character data
    LET top == stack[Len(stack)] IN
    IF top.k \in {"leaf", "classname"} THEN [stack |-> stack, err |-> ""] ELSE [stack |-> stack, err |-> "character data inside <" \o top.t \o ">"]
  ELSE \* end
    LET top == stack[Len(stack)] IN
    IF top.t # ev.t THEN [stack |-> stack, err |-> "mismatched end tag"]
    ELSE IF ~EndOk(top) THEN [stack |-> stack, err |-> "content of <" \o top.t \o "> violates the form grammar (children: " \o ToString(top.kids) \o ")"]
    ELSE IF top.k = "classname" /\ ev.x # typename THEN [stack |-> stack, err |-> "<class> text differs from the type name"]
    ELSE [stack |-> SubSeq(stack, 1, Len(stack) - 1), err |-> ""]
RECURSIVE RunFrom(_, _, _, _)
RunFrom(evs, j, stack, typename) ==
  IF j > Len(evs) THEN (IF Len(stack) = 1 /\ stack[1].kids = <<"ui">> THEN "" ELSE "document does not consist of exactly one <ui> element")
  ELSE LET r == Step(stack, evs[j], typename) IN IF r.err # "" THEN r.err ELSE RunFrom(evs, j + 1, r.stack, typename)
Verdict(doc) == RunFrom(doc.events, 1, <<Frame("root", "#document")>>, doc.typename)

Recs == ndJsonDeserialize(IOEnv.RECS)
VARIABLE i
Init == i \in 1..Len(Recs)
Next == UNCHANGED i
Conforms == LET v == Verdict(Recs[i]) IN IF v = "" THEN TRUE ELSE PrintT(<<"REJECT", ToJson([id |-> Recs[i].id, why |-> v])>>) /\ FALSE
=============================================================================
