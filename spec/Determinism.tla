---------------------------- MODULE Determinism ----------------------------
(***************************************************************************)
(* C08.  Bindings, attached types, gadget members, palette roles and       *)
(* system includes live in randomly seeded hash maps; an artefact is       *)
(* deterministic only if every consumer of such a map is insensitive to    *)
(* the iteration order.  This module is the audit of those consumers:      *)
(* one machine iterates an unordered map (any remaining entry may be       *)
(* yielded next) under the discipline of a site, and the invariant says    *)
(* that the result equals the canonical one whatever the order was.        *)
(*   discipline "sort"    collect, then emit sorted by key                  *)
(*        property.rs serialize_properties_to_xml, gadget.rs attributes /  *)
(*        properties / palette roles, layout.rs, binding.rs bindings,      *)
(*        callbacks (stable sort by signal name), system includes           *)
(*   discipline "set"     fold into another unordered map / push diagnostics *)
(*        objcode.rs build_properties_map, property.rs make_value_map,      *)
(*        uigen/mod.rs left-over attached loop, reject-mode loop:           *)
(*        only the SET of results is an artefact                            *)
(*   discipline "palette" gadget.rs make_palette_properties: explicit      *)
(*        colour groups replace the default-constructed group, default     *)
(*        roles are collected and merged AFTER the loop (or_insert)         *)
(*   discipline "eager"   (not in the code; the negative control) merges    *)
(*        each default role as soon as it is seen                            *)
(* The second half is the trace side: run records of the real translator.  *)
(***************************************************************************)
EXTENDS Integers, Sequences, FiniteSets, TLC, SequencesExt
CONSTANTS Roles, Groups            \* palette universe, e.g. {"window", "base"} and {"active", "disabled", "inactive"}
\* an entry of a palette binding map: a default role or an explicit group with its own roles
Default(r) == [kind |-> "default", name |-> r, roles |-> {}]
Group(g, rs) == [kind |-> "group", name |-> g, roles |-> rs]
VARIABLES disc, entries, left, acc, groups, defaults, done
vars == <<disc, entries, left, acc, groups, defaults, done>>
EmptyGroups == [g \in Groups |-> {}]
\* a role in a group is a pair <<role, origin>>, origin = the group that set it or "default"
Explicit(e) == {<<r, e.name>> : r \in e.roles}
RolesOf(S) == {p[1] : p \in S}
Merge(S, ds) == S \cup {<<r, "default">> : r \in {d \in ds : d \notin RolesOf(S)}}
Start(d, E) == disc = d /\ entries = E /\ left = E /\ acc = <<>> /\ groups = EmptyGroups /\ defaults = {} /\ done = FALSE
\* one iteration of `for (k, p) in map`
Yield(e) ==
  /\ ~done /\ e \in left /\ left' = left \ {e}
  /\ acc' = Append(acc, e.name)
  /\ CASE disc = "palette" -> (IF e.kind = "group" THEN groups' = [groups EXCEPT ![e.name] = Explicit(e)] /\ UNCHANGED defaults
                               ELSE defaults' = defaults \cup {e.name} /\ UNCHANGED groups)
       [] disc = "eager" -> (IF e.kind = "group" THEN groups' = [groups EXCEPT ![e.name] = Explicit(e)] /\ UNCHANGED defaults
                             ELSE groups' = [g \in Groups |-> Merge(groups[g], {e.name})] /\ UNCHANGED defaults)
       [] OTHER -> UNCHANGED <<groups, defaults>>
  /\ UNCHANGED <<disc, entries, done>>
\* after the loop
Finish == /\ ~done /\ left = {} /\ done' = TRUE
          /\ groups' = (IF disc = "palette" THEN [g \in Groups |-> Merge(groups[g], defaults)] ELSE groups)
          /\ UNCHANGED <<disc, entries, left, acc, defaults>>
Next == (\E e \in left : Yield(e)) \/ Finish \/ (done /\ UNCHANGED vars)
\* ---- what each discipline emits, and the canonical result ------------------------------------------
Names(E) == {e.name : e \in E}
Emitted == CASE disc = "sort" -> SetToSortSeq(ToSet(acc), LAMBDA a, b : a < b)       \* (keys are integers in MCDeterminism)
             [] disc = "set" -> ToSet(acc)
             [] disc = "order" -> acc
             [] OTHER -> groups
CanonPalette(E) == [g \in Groups |-> LET ex == UNION {Explicit(e) : e \in {x \in E : x.kind = "group" /\ x.name = g}}
                                     IN Merge(ex, {e.name : e \in {x \in E : x.kind = "default"}})]
Canon == CASE disc = "sort" -> SetToSortSeq(Names(entries), LAMBDA a, b : a < b)
           [] disc = "set" -> Names(entries)
           [] disc = "order" -> SetToSortSeq(Names(entries), LAMBDA a, b : a < b)      \* any fixed sequence would do: an order-dependent emission cannot equal it
           [] OTHER -> CanonPalette(entries)
OrderIndependent == done => Emitted = Canon
=============================================================================
