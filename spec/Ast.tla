-------------------------------- MODULE Ast --------------------------------
(* Constructors of the abstract syntax shared by the program generators (JSON form: DESIGN 10a). *)
(* Only parameterised operators live here: TLC pre-computes every zero-arity constant definition. *)
EXTENDS Integers, Sequences, FiniteSets, TLC, Json, IOUtils, Randomization

IntL(v)  == [k |-> "int", v |-> v]
Dbl(q)  == [k |-> "dbl", q |-> q]
Bool(v) == [k |-> "bool", bv |-> v]
Str(v)  == [k |-> "str", sv |-> v]
NullE(x) == [k |-> "null"]
En(e, v) == [k |-> "enum", e |-> e, v |-> v]
Obj(n)  == [k |-> "obj", n |-> n]
Rd(o, p) == [k |-> "rd", o |-> o, p |-> p]
Lv(n)   == [k |-> "lv", n |-> n]
Un(op, a) == [k |-> "un", op |-> op, a |-> a]
Bin(op, a, b) == [k |-> "bin", op |-> op, a |-> a, b |-> b]
And(a, b) == [k |-> "and", a |-> a, b |-> b]
Or(a, b)  == [k |-> "or", a |-> a, b |-> b]
Tern(c, a, b) == [k |-> "tern", c |-> c, a |-> a, b |-> b]
Cast(a, ty) == [k |-> "cast", a |-> a, ty |-> ty]
Call(f, args) == [k |-> "call", f |-> f, args |-> args]
NoneS(x) == [k |-> "none"]
SExpr(e) == [k |-> "expr", e |-> e]
Let(n, e) == [k |-> "let", n |-> n, e |-> e]
Const(n, e) == [k |-> "const", n |-> n, e |-> e]
\* a declaration written as a further declarator of the declaration before it (`let a = x, b = a + 1`): the same meaning as two statements
LetJ(n, e) == [k |-> "let", n |-> n, e |-> e, join |-> TRUE]
ConstJ(n, e) == [k |-> "const", n |-> n, e |-> e, join |-> TRUE]
LetT(n, ty, e) == [k |-> "lett", n |-> n, ty |-> ty, e |-> e]         \* let n: ty = e   (ty as spelled in the source)
LetU(n, ty) == [k |-> "lett", n |-> n, ty |-> ty, e |-> [k |-> "none"]] \* let n: ty;      (declared, not assigned)
Asg(n, e) == [k |-> "asg", n |-> n, e |-> e]
AsgSub(n, i, e) == [k |-> "asgsub", n |-> n, i |-> i, e |-> e]       \* n[i] = e on a local list
Arr(args) == [k |-> "arr", args |-> args]
Ret(e) == [k |-> "ret", e |-> e]
BrkS(x) == [k |-> "break"]
Block(b) == [k |-> "block", b |-> b]
If(c, a, b) == [k |-> "if", c |-> c, a |-> a, b |-> b]
Sw(v, cases, def) == [k |-> "switch", v |-> v, cases |-> cases, def |-> def]
Case(l, body) == [label |-> l, body |-> body]
Def(pos, body) == [k |-> "def", pos |-> pos, body |-> body]
WProp(o, p, e) == [k |-> "wprop", o |-> o, p |-> p, e |-> e]
MCall(o, m, args) == [k |-> "mcall", o |-> o, m |-> m, args |-> args]
LetC(n, o, m, args) == [k |-> "letc", n |-> n, o |-> o, m |-> m, args |-> args]
Log(lv, args) == [k |-> "log", lv |-> lv, args |-> args]
RetVS(x) == [k |-> "retv"]

Limit == atoi(IOEnv.LIMIT)
Sample(S) == IF Cardinality(S) <= Limit THEN S ELSE RandomSubset(Limit, S)
=============================================================================
