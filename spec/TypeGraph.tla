------------------------------ MODULE TypeGraph ------------------------------
(***************************************************************************)
(* Class graphs and type look-ups (C17).  A graph g is                     *)
(*   [supers : class -> sequence of [n : name, pub : BOOLEAN],             *)
(*    decl   : set of classes that declare the property p, the method m,   *)
(*             the nested enum E and its variant V]                        *)
(* Names that are not classes of the graph are dangling references.        *)
(* The PROPERTY: "derives from" = reflexive-transitive public inheritance; *)
(* a declaration is found exactly when the class or a public ancestor      *)
(* declares it, the class's own one winning; a common base is an           *)
(* ancestor-or-self of both.  Bfs is the design model of typemap/class.rs  *)
(* BaseClasses (queue of super-class iterators, visited set) with the      *)
(* deviation of the pinned tree named explicitly: look-ups stop at the     *)
(* first unresolved super-class name they meet (ErrorShortCircuit, F12).   *)
(***************************************************************************)
EXTENDS Integers, Sequences, FiniteSets, TLC
Classes(g) == DOMAIN g.supers
PubNames(g, c) == LET s == g.supers[c] IN LET RECURSIVE F(_) F(j) == IF j > Len(s) THEN <<>> ELSE (IF s[j].pub THEN <<s[j].n>> ELSE <<>>) \o F(j + 1) IN F(1)
Range(s) == {s[j] : j \in 1..Len(s)}
RECURSIVE ReachFrom(_, _)
ReachFrom(g, S) == LET T == S \cup UNION {Range(PubNames(g, c)) \cap Classes(g) : c \in S} IN IF T = S THEN S ELSE ReachFrom(g, T)
Reach(g, c) == ReachFrom(g, {c})
\* ---- the breadth-first walk: a sequence of items [ok, n] ------------------------------------
RECURSIVE BfsRun(_, _, _, _, _)
BfsRun(g, pending, visited, out, fuel) ==
  IF fuel = 0 THEN Append(out, [ok |-> FALSE, n |-> "#NONTERMINATION"])
  ELSE IF pending = <<>> THEN out
  ELSE IF pending[1] = <<>> THEN BfsRun(g, Tail(pending), visited, out, fuel - 1)
  ELSE LET n == pending[1][1]
           rest == <<Tail(pending[1])>> \o Tail(pending) IN
       IF n \notin Classes(g) THEN BfsRun(g, rest, visited, Append(out, [ok |-> FALSE, n |-> n]), fuel - 1)
       ELSE IF n \in visited THEN BfsRun(g, rest, visited, out, fuel - 1)
       ELSE BfsRun(g, Append(rest, PubNames(g, n)), visited \cup {n}, Append(out, [ok |-> TRUE, n |-> n]), fuel - 1)
Bfs(g, c) == BfsRun(g, <<PubNames(g, c)>>, {}, <<>>, 200)
Terminates(g, c) == LET b == Bfs(g, c) IN b = <<>> \/ b[Len(b)].n # "#NONTERMINATION"
OkSet(g, c) == {b.n : b \in {x \in Range(Bfs(g, c)) : x.ok}}
\* the walk visits exactly the proper public ancestors (and the class itself when it lies on a cycle)
BfsIsReach(g, c) == OkSet(g, c) \cup {c} = Reach(g, c)
\* ---- look-ups: first item satisfying P, stopping at the first unresolved name (pinned behaviour) ----
RECURSIVE FirstIn(_, _, _)
FirstIn(items, j, S) == IF j > Len(items) THEN "#none"
                        ELSE IF ~items[j].ok THEN "#err"
                        ELSE IF items[j].n \in S THEN items[j].n ELSE FirstIn(items, j + 1, S)
DerivedPinned(g, c, b) == IF c = b THEN "yes" ELSE LET r == FirstIn(Bfs(g, c), 1, {b}) IN IF r \in {"#none", "#err"} THEN r ELSE "yes"
DeclPinned(g, c) == IF c \in g.decl THEN c ELSE FirstIn(Bfs(g, c), 1, g.decl)
\* a property or method look-up also resolves the declared type names through the scope of the declaring class, i.e. walks
\* ALL its bases looking for a nested type of that name before turning to the enclosing scope: any unresolved name stops it
HasErr(g, c) == \E x \in Range(Bfs(g, c)) : ~x.ok
TypedDeclPinned(g, c) == LET o == DeclPinned(g, c) IN IF o \in Classes(g) /\ HasErr(g, o) THEN "#err" ELSE o
RECURSIVE CommonFrom(_, _, _, _)
CommonFrom(g, items, j, b) == IF j > Len(items) THEN "#none"
                              ELSE IF ~items[j].ok THEN "#err"
                              ELSE LET r == DerivedPinned(g, b, items[j].n) IN
                                   IF r = "yes" THEN items[j].n ELSE IF r = "#err" THEN "#err" ELSE CommonFrom(g, items, j + 1, b)
CommonPinned(g, a, b) == CommonFrom(g, <<[ok |-> TRUE, n |-> a]>> \o Bfs(g, a), 1, b)
\* ---- the property ---------------------------------------------------------------------------
DerivedSpec(g, c, b) == b \in Reach(g, c)
DeclOwners(g, c) == IF c \in g.decl THEN {c} ELSE Reach(g, c) \cap g.decl      \* acceptable owners of a found declaration
CommonBases(g, a, b) == Reach(g, a) \cap Reach(g, b)
=============================================================================
