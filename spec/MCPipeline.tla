----------------------------- MODULE MCPipeline -----------------------------
(* Model checking of the pass design: all documents of up to 3 bindings over the attribute space; the       *)
(* invariants say that no binding falls between the passes and that the mode only affects code/diagnostics. *)
EXTENDS Pipeline
B(kind, known, typed, const, consumed, writable, readable, group) ==
  [kind |-> kind, known |-> known, typed |-> typed, const |-> const, consumed |-> consumed, writable |-> writable, readable |-> readable, group |-> group, assignable |-> TRUE]
\* one representative per behaviour class of the attribute space (irrelevant attributes fixed)
Canon == {B(k, FALSE, FALSE, FALSE, TRUE, TRUE, TRUE, IF k = "member" THEN 1 ELSE 0) : k \in {"prop", "member", "objmember", "attached", "handler", "pseudo"}}
         \cup {B(k, TRUE, FALSE, FALSE, TRUE, TRUE, TRUE, IF k = "member" THEN 1 ELSE 0) : k \in {"prop", "member", "attached", "handler"}}
         \cup {B("handler", TRUE, TRUE, FALSE, TRUE, TRUE, TRUE, 0)}
         \cup {B("prop", TRUE, TRUE, c, TRUE, w, r, 0) : c \in BOOLEAN, w \in BOOLEAN, r \in BOOLEAN}
         \cup {B("member", TRUE, TRUE, c, TRUE, TRUE, TRUE, 1) : c \in BOOLEAN}
         \cup {B("objmember", TRUE, TRUE, c, TRUE, TRUE, TRUE, 0) : c \in BOOLEAN}
         \cup {B("attached", TRUE, TRUE, c, u, TRUE, TRUE, 0) : c \in BOOLEAN, u \in BOOLEAN}
         \cup {B("pseudo", TRUE, TRUE, c, TRUE, FALSE, TRUE, 0) : c \in BOOLEAN}
         \cup {[B("prop", TRUE, TRUE, c, TRUE, TRUE, TRUE, 0) EXCEPT !.assignable = FALSE] : c \in BOOLEAN}
         \cup {[B("member", TRUE, TRUE, c, TRUE, TRUE, TRUE, 1) EXCEPT !.assignable = FALSE] : c \in BOOLEAN}
VARIABLE doc
Init == doc \in UNION {[1..n -> Canon] : n \in 1..3}
Next == UNCHANGED doc
NoFallThrough == ExactlyOnePlace(doc)
ModeReject == RejectIffNoCode(doc)
ModeOmit == OmitErrorsSubset(doc)
FormIsModeIndependent == TRUE   \* FormPart(doc) does not mention the mode: by construction of the constant pass
=============================================================================
