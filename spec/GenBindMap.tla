----------------------------- MODULE GenBindMap -----------------------------
(* Every sequence of one to three declarations from a pool of 14 shapes over the palette of a label (dotted, grouped, nested  *)
(* groups, empty group, a value where a group is, internal duplicates): the model's verdict and value set for each.          *)
EXTENDS BindMap, Json, IOUtils
S(p) == [k |-> "s", path |-> p, members |-> <<>>]
G(p, ms) == [k |-> "g", path |-> p, members |-> ms]
Pool == << S(<<"palette", "window">>), S(<<"palette", "active", "window">>), G(<<"palette">>, <<S(<<"window">>)>>),
           G(<<"palette">>, <<S(<<"active", "window">>)>>), G(<<"palette", "active">>, <<S(<<"window">>)>>),
           G(<<"palette">>, <<G(<<"active">>, <<S(<<"window">>)>>)>>), G(<<"palette", "active">>, <<S(<<"base">>)>>),
           S(<<"palette", "active", "base">>), S(<<"palette", "active">>), G(<<"palette">>, <<S(<<"window">>), S(<<"window">>)>>),
           G(<<"palette", "disabled">>, <<>>), S(<<"text">>), G(<<"palette">>, <<S(<<"active">>)>>),
           G(<<"palette">>, <<S(<<"base">>), G(<<"active">>, <<S(<<"base">>)>>), S(<<"active", "text">>)>>) >>
N == Len(Pool)
Seqs == UNION {[1..n -> 1..N] : n \in 1..3}
VARIABLE s
Init == s \in Seqs
Next == UNCHANGED s
Decls == [j \in 1..Len(s) |-> Pool[s[j]]]
NothingLostInv == NothingLost(Decls)
WellShapedInv == WellShaped(Decls)
Emit == LET t == Build(Decls) IN PrintT(<<"BIND", ToJson([decls |-> s, dup |-> t.dup, leaves |-> t.leaves])>>)
=============================================================================
