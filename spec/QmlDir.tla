------------------------------- MODULE QmlDir -------------------------------
(***************************************************************************)
(* QML components in directories (C18).                                    *)
(*  1. Discovery: qmldir.rs populate_directories as a state machine -- a   *)
(*     stack of pending directories, the set of visited modules, one       *)
(*     action per directory popped and per file scanned; read_dir order    *)
(*     and the order of the source arguments are nondeterministic.         *)
(*  2. Typing: a component is a class whose single super class is the      *)
(*     type of its root object, resolved lazily through the component's    *)
(*     OWN import stack (typemap/qml_component.rs); a document resolves    *)
(*     type names through its import stack, later imports shadowing        *)
(*     earlier ones (typemap/module.rs ImportedModuleSpace::get_type);     *)
(*     custom widgets = unique classes of custom-typed objects (form.rs).  *)
(* A layout L = [dirs: set of directory names,                             *)
(*               files: sequence of [dir, name, root, imports, kids, qt]]  *)
(* where root is the type name of the file's root object, imports the      *)
(* directories named by its string imports in order ("nodir" = a path      *)
(* that is not a directory) and kids the type names of the child objects.  *)
(***************************************************************************)
EXTENDS Integers, Sequences, FiniteSets, TLC
Qt == {"QWidget", "QLabel", "QPushButton"}          \* widget classes of the Qt module; component names are disjoint from these
Files(L) == {L.files[i] : i \in 1..Len(L.files)}
FilesIn(L, d) == {f \in Files(L) : f.dir = d}
Exists(L, d) == d \in L.dirs
MaxOf(S) == CHOOSE x \in S : \A y \in S : y <= x
\* the module stack of a file above the builtins and the Qt module: own directory, then the string imports that exist, in order
Stack(L, f) == <<f.dir>> \o SelectSeq(f.imports, LAMBDA d : Exists(L, d))
Qtype(n) == [k |-> "qt", d |-> "", n |-> n]
\* the Qt module is visible in a file only if the file itself imports it (field qt: "plain" | "versioned" -- the version is ignored -- | "none");
\* what a component inherits does not depend on what the file using it imports
HasQt(f) == IF "qt" \in DOMAIN f THEN f.qt # "none" ELSE TRUE
Resolve(L, f, n) ==
  LET st == Stack(L, f)
      hits == {i \in 1..Len(st) : \E g \in FilesIn(L, st[i]) : g.name = n} IN
  IF hits # {} THEN [k |-> "comp", d |-> st[MaxOf(hits)], n |-> n]          \* the last import providing the name wins
  ELSE IF n \in Qt /\ HasQt(f) THEN Qtype(n) ELSE [k |-> "none", d |-> "", n |-> n]
FileOf(L, t) == CHOOSE f \in Files(L) : f.dir = t.d /\ f.name = t.n
Super(L, t) == LET f == FileOf(L, t) IN Resolve(L, f, f.root)
\* the Qt class a type finally extends; "" for an unknown name, a dangling super or an inheritance cycle
RECURSIVE Base(_, _, _)
Base(L, t, seen) == IF t.k = "qt" THEN t.n ELSE IF t.k = "none" \/ t \in seen THEN "" ELSE Base(L, Super(L, t), seen \cup {t})
IsWidget(L, t) == Base(L, t, {}) # ""
Objects(L, s) == <<Resolve(L, s, s.root)>> \o [i \in 1..Len(s.kids) |-> Resolve(L, s, s.kids[i])]
Accepted(L, s) == /\ \A i \in 1..Len(s.imports) : Exists(L, s.imports[i])
                  /\ \A i \in 1..Len(Objects(L, s)) : IsWidget(L, Objects(L, s)[i])
\* <customwidgets>: one entry per component class instantiated in the document
Custom(L, s) == {[class |-> t.n, extends |-> Super(L, t).n] : t \in {o \in {Objects(L, s)[i] : i \in 1..Len(Objects(L, s))} : o.k = "comp"}}
\* directories reachable through string imports
RECURSIVE ReachFrom(_, _)
ReachFrom(L, D) == LET N == D \cup UNION {{f.imports[i] : i \in 1..Len(f.imports)} \cap L.dirs : f \in {g \in Files(L) : g.dir \in D}}
                   IN IF N = D THEN D ELSE ReachFrom(L, N)

\* ---- the discovery machine ---------------------------------------------------------------------
VARIABLES lay, srcs, pending, modules, cur, todo
dvars == <<lay, srcs, pending, modules, cur, todo>>
Last(s) == s[Len(s)]
Front(s) == SubSeq(s, 1, Len(s) - 1)
Start(L, sd) == lay = L /\ srcs = sd /\ pending = sd /\ modules = {} /\ cur = "" /\ todo = {}
PopVisited == /\ cur = "" /\ pending # <<>> /\ Last(pending) \in modules
              /\ pending' = Front(pending) /\ UNCHANGED <<lay, srcs, modules, cur, todo>>
PopNew == /\ cur = "" /\ pending # <<>> /\ Last(pending) \notin modules
          /\ cur' = Last(pending) /\ todo' = FilesIn(lay, Last(pending)) /\ pending' = Front(pending)
          /\ UNCHANGED <<lay, srcs, modules>>
\* the own directory is not a module yet while it is being scanned, so every file pushes it again
Pushes(f) == SelectSeq(Stack(lay, f), LAMBDA d : d \notin modules)
Scan(f) == /\ cur # "" /\ f \in todo
           /\ pending' = pending \o Pushes(f) /\ todo' = todo \ {f}
           /\ UNCHANGED <<lay, srcs, modules, cur>>
Insert == /\ cur # "" /\ todo = {}
          /\ modules' = modules \cup {cur} /\ cur' = ""
          /\ UNCHANGED <<lay, srcs, pending, todo>>
Done == cur = "" /\ pending = <<>>
DNext == PopVisited \/ PopNew \/ (\E f \in todo : Scan(f)) \/ Insert \/ (Done /\ UNCHANGED dvars)
SrcDirs == {srcs[i] : i \in 1..Len(srcs)}
\* ---- properties of the discovery -----------------------------------------------------------------
ModulesSound == modules \subseteq ReachFrom(lay, SrcDirs)
DoneComplete == Done => modules = ReachFrom(lay, SrcDirs)          \* in particular independent of both orders
PendingBounded == Len(pending) <= Len(srcs) + 3 * Len(lay.files)
ScanOnlyNew == cur # "" => cur \notin modules
=============================================================================
