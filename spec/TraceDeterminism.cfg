INIT Init
NEXT Next
INVARIANT FormAgrees
INVARIANT HeaderAgrees
INVARIANT DiagnosticsAgree
INVARIANT Compared
CHECK_DEADLOCK FALSE
