INIT Init
NEXT Next
INVARIANT NoFallThrough
INVARIANT ModeReject
INVARIANT ModeOmit
CHECK_DEADLOCK FALSE
