-------------------------------- MODULE Scope --------------------------------
(***************************************************************************)
(* What a bare identifier in a binding or handler denotes (typedexpr.rs    *)
(* process_identifier, uigen/context.rs ObjectContext::get_ref): the       *)
(* first of                                                                *)
(*   a local variable or function parameter in scope,                      *)
(*   an object id of the document,                                          *)
(*   a property of the object that owns the code ("implicit this"),         *)
(*   a public method of that object,                                        *)
(*   an imported type name,                                                 *)
(*   a global (Math, console, qsTr, ...),                                   *)
(* and otherwise an "undefined reference" error.  An id therefore always   *)
(* denotes the declared object, whatever members the referring object has  *)
(* (C10), and a local always wins (C01).                                   *)
(***************************************************************************)
EXTENDS Integers, Sequences, FiniteSets, TLC
Order == <<"local", "id", "property", "method", "type", "global">>
Rank(l) == CHOOSE j \in 1..Len(Order) : Order[j] = l
Resolve(defined) == IF defined = {} THEN "undefined"
                    ELSE Order[CHOOSE j \in {Rank(l) : l \in defined} : \A q \in {Rank(l) : l \in defined} : j <= q]
\* ---- properties of the design ------------------------------------------------------------------------
IdWins == \A D \in SUBSET {"id", "property", "method", "type", "global"} : "id" \in D => Resolve(D) = "id"
LocalWins == \A D \in SUBSET {"local", "id", "property", "method", "type", "global"} : "local" \in D => Resolve(D) = "local"
Total == \A D \in SUBSET {"local", "id", "property", "method", "type", "global"} : Resolve(D) \in {Order[j] : j \in 1..Len(Order)} \cup {"undefined"}
=============================================================================
