INIT Init
NEXT Next
INVARIANT WalkTerminates
INVARIANT Emit
CHECK_DEADLOCK FALSE
