------------------------------ MODULE GenReact ------------------------------
(* Binding programs for C02: property reads directly, through a local, through pointer chains of length    *)
(* 1..3 that may be re-pointed or nulled, under ternary / && / if / switch, the same object read on        *)
(* several paths, locals re-assigned between reads, locals aliasing named objects.                          *)
EXTENDS Ast
A == Obj("a")
B == Obj("b")
Null == NullE(0)
None == NoneS(0)
P1 == {Rd(A, "ptr"), Rd(B, "ptr")}
P2 == {Rd(p, "ptr") : p \in P1} \cup {Rd(Rd(A, "ptr"), "sub")}
NN(p) == Bin("!=", p, Null)
Guard1(p, e, d) == Tern(NN(p), e, d)
Direct == {Rd(A, "ival"), Bin("+", Rd(A, "ival"), Rd(B, "jval")), Tern(Rd(A, "flag"), Rd(A, "ival"), Rd(B, "ival")),
           Tern(Bin(">", Rd(A, "ival"), IntL(0)), Rd(A, "ival"), Rd(B, "jval")),
           Bin("+", Rd(A, "ival"), Rd(A, "ival")), Tern(And(Rd(A, "flag"), Rd(B, "flag")), Rd(A, "jval"), IntL(7)),
           \* read-only properties with a NOTIFY signal (one of them FINAL): they change from inside the object
           Rd(A, "rdonly"), Rd(A, "fin"), Bin("+", Rd(A, "fin"), Rd(B, "ival")), Tern(Rd(A, "flag"), Rd(B, "fin"), Rd(A, "rdonly"))}
Chain1 == {Rd(p, "ival") : p \in P1} \cup {Guard1(p, Rd(p, "ival"), IntL(7)) : p \in P1}
          \cup {Guard1(p, Bin("+", Rd(p, "ival"), Rd(A, "jval")), Rd(B, "jval")) : p \in P1}
          \cup {Tern(Rd(A, "flag"), Guard1(p, Rd(p, "jval"), IntL(1)), Rd(B, "ival")) : p \in P1}
Chain2 == {Tern(And(NN(Rd(A, "ptr")), NN(Rd(Rd(A, "ptr"), "ptr"))), Rd(Rd(Rd(A, "ptr"), "ptr"), "ival"), IntL(7)),
           Tern(And(NN(Rd(B, "ptr")), NN(Rd(Rd(B, "ptr"), "ptr"))), Rd(Rd(Rd(B, "ptr"), "ptr"), "jval"), Rd(A, "ival")),
           Tern(And(NN(Rd(A, "ptr")), NN(Rd(Rd(A, "ptr"), "sub"))), Rd(Rd(Rd(A, "ptr"), "sub"), "xval"), IntL(5)),
           Rd(Rd(Rd(A, "ptr"), "ptr"), "ival")}
Chain3 == {Tern(And(And(NN(Rd(A, "ptr")), NN(Rd(Rd(A, "ptr"), "ptr"))), NN(Rd(Rd(Rd(A, "ptr"), "ptr"), "ptr"))),
                Rd(Rd(Rd(Rd(A, "ptr"), "ptr"), "ptr"), "ival"), IntL(9))}
PtrCmp == {Tern(Bin("==", Rd(A, "ptr"), Rd(B, "ptr")), IntL(1), IntL(2)), Tern(Bin("==", Rd(A, "ptr"), A), Rd(A, "ival"), IntL(3)),
           Tern(Or(Bin("==", Rd(A, "ptr"), Null), Bin("<", Rd(Rd(A, "ptr"), "ival"), IntL(0))), IntL(0), Rd(Rd(A, "ptr"), "ival"))}
PE(e) == [prop |-> "ival", body |-> SExpr(e)]
PB(b) == [prop |-> "ival", body |-> Block(b)]
L == Lv("p")
Stmts == {
  <<Let("p", Rd(A, "ptr")), If(NN(L), Ret(Rd(L, "ival")), None), Ret(IntL(0))>>,
  <<Let("p", Rd(A, "ptr")), If(Bin("==", L, Null), Ret(IntL(0)), None), Let("q", Rd(L, "ptr")), If(NN(Lv("q")), Ret(Rd(Lv("q"), "jval")), None), Ret(Rd(L, "ival"))>>,
  <<Let("p", Rd(A, "ptr")), If(Rd(A, "flag"), Asg("p", Rd(B, "ptr")), None), If(NN(L), Ret(Rd(L, "ival")), None), Ret(IntL(7))>>,
  <<Let("p", A), Ret(Rd(L, "ival"))>>,
  <<Let("p", A), Let("q", L), Ret(Bin("+", Rd(Lv("q"), "ival"), Rd(L, "jval")))>>,
  <<Let("p", Tern(Rd(A, "flag"), A, Cast(B, "TSource"))), Ret(Rd(L, "ival"))>>,
  <<Let("p", Rd(A, "ptr")), Let("v", IntL(0)), If(NN(L), Asg("v", Rd(L, "ival")), None), Asg("p", Rd(B, "ptr")), If(NN(L), Asg("v", Bin("+", Lv("v"), Rd(L, "jval"))), None), Ret(Lv("v"))>>,
  <<Let("x", Rd(A, "ival")), If(Bin(">", Lv("x"), IntL(0)), Ret(Lv("x")), None), Ret(Rd(B, "ival"))>>,
  \* the same local re-pointed between two reads of the same property, no branch in between
  <<Let("p", Rd(A, "ptr")), Let("x", Rd(L, "ival")), Asg("p", Rd(B, "ptr")), Ret(Bin("+", Lv("x"), Rd(L, "ival")))>>,
  <<Let("p", Rd(A, "ptr")), Let("x", Rd(L, "jval")), Asg("p", Rd(L, "ptr")), Ret(Bin("+", Lv("x"), Rd(L, "jval")))>>,
  <<Let("p", Rd(A, "ptr")), Let("x", Rd(L, "ival")), Asg("p", Rd(L, "ptr")), Let("y", Rd(L, "ival")), Asg("p", Rd(L, "ptr")), Ret(Bin("+", Bin("+", Lv("x"), Lv("y")), Rd(L, "ival")))>>,
  <<Let("p", Cast(B, "TSource")), Let("x", Rd(L, "ival")), Asg("p", Rd(A, "ptr")), Ret(Bin("-", Lv("x"), Rd(L, "ival")))>>,
  <<Sw(Rd(A, "ival"), <<Case(IntL(0), <<Ret(Rd(B, "ival"))>>), Case(IntL(1), <<If(Rd(B, "flag"), BrkS(0), None), Ret(Rd(B, "jval"))>>)>>, Def(2, <<>>)), Ret(Rd(A, "jval"))>>,
  <<Sw(Rd(A, "ival"), <<Case(IntL(0), <<BrkS(0)>>), Case(IntL(2), <<Ret(IntL(5))>>)>>, None), Ret(Rd(B, "jval"))>>,
  <<Sw(Rd(A, "ival"), <<Case(Rd(B, "ival"), <<Ret(IntL(1))>>)>>, Def(0, <<BrkS(0)>>)), Let("p", Rd(A, "ptr")), If(NN(L), Ret(Rd(L, "jval")), None), Ret(IntL(2))>>,
  <<If(Rd(A, "flag"), Block(<<Let("p", Rd(A, "ptr")), If(NN(L), Ret(Rd(L, "ival")), None)>>), Block(<<Let("p", Rd(B, "ptr")), If(NN(L), Ret(Rd(L, "ival")), None)>>)), Ret(IntL(3))>>
}
\* list-valued targets: a list local built from constants or read from a property, one element overwritten from a property read
ListProgs == {[prop |-> "items", body |-> Block(b)] : b \in {
  <<Let("l", Arr(<<Str("p"), Str("q")>>)), AsgSub("l", IntL(1), Rd(A, "text")), Ret(Lv("l"))>>,
  <<Let("l", Arr(<<Str("p"), Str("q")>>)), AsgSub("l", IntL(0), Rd(B, "text")), AsgSub("l", IntL(1), Rd(A, "textB")), Ret(Lv("l"))>>,
  <<Let("l", Rd(A, "items")), If(Un("!", Call("isEmpty", <<Lv("l")>>)), AsgSub("l", IntL(0), Rd(B, "text")), NoneS(0)), Ret(Lv("l"))>>,
  <<Let("l", Arr(<<Rd(A, "text"), Str("k")>>)), Ret(Lv("l"))>>,
  <<Ret(Arr(<<Rd(A, "text"), Rd(B, "text")>>))>>,
  <<Let("l", Arr(<<Str("p"), Str("q")>>)), If(Rd(A, "flag"), AsgSub("l", IntL(0), Str("z")), NoneS(0)), Ret(Lv("l"))>>}}
Progs == ListProgs \cup {PE(e) : e \in Direct \cup Chain1 \cup Chain2 \cup Chain3 \cup PtrCmp} \cup {PB(b) : b \in Stmts}
         \cup {[prop |-> "text", body |-> SExpr(Guard1(p, Rd(p, "text"), Str("n")))] : p \in P1}
         \cup {[prop |-> "flag", body |-> SExpr(And(NN(p), Rd(p, "flag")))] : p \in P1}
         \cup {[prop |-> "ptr", body |-> SExpr(Guard1(p, Rd(p, "ptr"), A))] : p \in P1}
VARIABLE prog
Init == prog \in Progs
Next == UNCHANGED prog
Emit == PrintT(<<"PROG", ToJson(prog)>>)
=============================================================================
