INIT Init
NEXT Next
INVARIANT Total
CHECK_DEADLOCK FALSE
