----------------------------- MODULE GenHandler -----------------------------
(* Enumerates signal-handler bodies with effects (property writes, method calls, log calls) under    *)
(* branches, switch, early return and locals; handler forms: function(...) {...} and arrow function. *)
EXTENDS Ast
A == Obj("a")
B == Obj("b")
PN == Lv("n")
PS == Lv("s")
HSimple == {WProp(A, "ival", Bin("+", PN, IntL(1))), MCall(A, "act", <<PN>>), MCall(B, "actText", <<PS>>),
            Log("log", <<PN>>), Log("warn", <<PS, PN>>), WProp(B, "text", Bin("+", PS, Str("x"))),
            MCall(A, "actTwo", <<PN, Rd(A, "ival")>>), WProp(A, "flag", Bin(">", PN, IntL(0))), MCall(B, "poke", <<>>)}
HBodies ==
     {Block(<<s, t>>) : s, t \in HSimple}
  \cup {Block(<<If(c, s, t), u>>) : c \in {Bin(">", PN, IntL(0)), Rd(A, "flag")}, s \in HSimple \cup {RetVS(0)}, t \in {NoneS(0)} \cup HSimple, u \in {MCall(B, "poke", <<>>)}}
  \cup {Block(<<WProp(A, "ival", PN), MCall(B, "act", <<Rd(A, "ival")>>)>>)}          \* read after write
  \cup {Block(<<Sw(PN, <<Case(IntL(0), <<s>>), Case(IntL(3), <<t, BrkS(0)>>)>>, d), u>>) :
           s \in {MCall(A, "act", <<IntL(1)>>)}, t \in {MCall(A, "act", <<IntL(2)>>), RetVS(0)}, u \in {MCall(B, "poke", <<>>)},
           d \in {NoneS(0), Def(0, <<MCall(A, "act", <<IntL(9)>>)>>), Def(1, <<MCall(A, "act", <<IntL(9)>>), BrkS(0)>>), Def(2, <<>>)}}
  \cup {Block(<<Let("k", Bin("*", PN, IntL(2))), If(Bin("==", Lv("k"), IntL(6)), Block(<<MCall(A, "act", <<Lv("k")>>), RetVS(0)>>), NoneS(0)), Log("info", <<Lv("k")>>)>>)}
\* control-flow merges followed only by declarations whose initialiser has an observable effect
Conds == {Bin(">", PN, IntL(0)), Rd(A, "flag")}
TailDecl ==
     {Block(<<If(c, s, t), LetC("r", A, "twice", <<PN>>)>>) : c \in Conds, s \in HSimple \cup {Block(<<>>), RetVS(0)}, t \in {NoneS(0)} \cup HSimple}
  \cup {Block(<<If(c, s, t), Const("z", Bin("+", PN, IntL(1))), LetC("r", B, "twice", <<Lv("z")>>)>>) : c \in Conds, s \in {MCall(A, "act", <<PN>>)}, t \in {NoneS(0), MCall(B, "poke", <<>>)}}
  \cup {Block(<<Sw(PN, <<Case(IntL(0), <<s>>), Case(IntL(3), <<BrkS(0)>>)>>, d), LetC("r", A, "twice", <<IntL(4)>>)>>) :
           s \in {MCall(A, "act", <<IntL(1)>>), BrkS(0)}, d \in {NoneS(0), Def(0, <<MCall(A, "act", <<IntL(9)>>)>>), Def(2, <<BrkS(0)>>)}}
  \cup {Block(<<If(c, Block(<<If(Rd(B, "flag"), s, NoneS(0))>>), NoneS(0)), LetC("r", A, "twice", <<PN>>)>>) : c \in Conds, s \in {MCall(A, "poke", <<>>), RetVS(0)}}
  \cup {Block(<<Let("q", Tern(c, IntL(1), IntL(2))), LetC("r", A, "twice", <<Lv("q")>>)>>) : c \in Conds}
\* conditions whose short-circuit operators have a RIGHT operand that itself spans several blocks
NestC == {And(Rd(A, "flag"), Or(Rd(A, "flagB"), Rd(B, "flag"))), Or(Rd(A, "flag"), And(Rd(A, "flagB"), Rd(B, "flag"))),
          And(Rd(A, "flag"), Tern(Rd(A, "flagB"), Rd(B, "flag"), Bool(TRUE))), Or(Un("!", Rd(A, "flag")), Or(Rd(A, "flagB"), And(Rd(B, "flag"), Bin(">", PN, IntL(0))))),
          And(And(Rd(A, "flag"), Rd(A, "flagB")), Rd(B, "flag"))}
NestedCond == {Block(<<If(c, MCall(A, "act", <<IntL(1)>>), MCall(A, "act", <<IntL(2)>>)), MCall(B, "poke", <<>>)>>) : c \in NestC}
           \cup {Block(<<Let("ok", c), If(Lv("ok"), MCall(A, "act", <<IntL(3)>>), NoneS(0))>>) : c \in NestC}
           \cup {Block(<<WProp(A, "flag", c)>>) : c \in {Or(Bin(">", PN, IntL(0)), And(Rd(A, "flagB"), Rd(B, "flag"))), And(Bin(">", PN, IntL(0)), Or(Rd(A, "flagB"), Rd(B, "flag")))}}
Params2 == <<[n |-> "n", ty |-> "int"], [n |-> "s", ty |-> "QString"]>>
\* declarator lists: a later initialiser sees the earlier variables of the same statement -- also when the name means something else outside
\* the statement (an outer variable, a parameter, a property of the emitter)
DeclLists ==
     {Block(<<Let("u", PN), LetJ("v", Bin("+", Lv("u"), IntL(1))), MCall(A, "act", <<Lv("v")>>)>>)}
  \cup {Block(<<Let("k", IntL(5)), Block(<<Let("k", PN), LetJ("m", Bin("+", Lv("k"), IntL(1))), MCall(A, "act", <<Lv("m")>>)>>), MCall(A, "act", <<Lv("k")>>)>>)}
  \cup {Block(<<Let("t", Str("outer")), If(c, Block(<<Let("t", PS), LetJ("w", Bin("+", Lv("t"), Str("!"))), LetJ("x", Bin("+", Lv("w"), Lv("t"))), MCall(B, "actText", <<Lv("x")>>)>>), NoneS(0)),
                 MCall(B, "actText", <<Lv("t")>>)>>) : c \in Conds}
  \cup {Block(<<Const("n2", Bin("*", PN, IntL(2))), ConstJ("n3", Bin("+", Lv("n2"), PN)), LetJ("n4", Lv("n3")), Log("log", <<Lv("n2"), Lv("n3"), Lv("n4")>>)>>)}
  \cup {Block(<<Let("ival", IntL(7)), LetJ("z", Bin("+", Lv("ival"), IntL(1))), MCall(A, "act", <<Lv("z")>>)>>)}       \* `ival` is also a property of the emitter
  \cup {Block(<<Let("s2", PS), LetJ("n", IntL(3)), LetJ("r", Bin("+", Lv("n"), IntL(1))), MCall(A, "actTwo", <<Lv("r"), Lv("n")>>), MCall(B, "actText", <<Lv("s2")>>)>>)}   \* shadows the parameter n
HandlerProgs == {[sig |-> "fired", params |-> Params2, form |-> f, body |-> b] : b \in Sample(HBodies) \cup TailDecl \cup NestedCond \cup DeclLists, f \in {"function"}}
   \cup {[sig |-> "fired", params |-> Params2, form |-> f, body |-> b] : b \in Sample({Block(<<s>>) : s \in HSimple}), f \in {"arrow", "function"}}


VARIABLE prog
Init == prog \in HandlerProgs
Next == UNCHANGED prog
Emit == PrintT(<<"PROG", ToJson(prog)>>)
=============================================================================
