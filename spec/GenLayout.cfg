INIT Init
NEXT Next
INVARIANT Emit
INVARIANT InRange
CHECK_DEADLOCK FALSE
