------------------------------- MODULE Typing -------------------------------
(***************************************************************************)
(* The static typing judgment of the documented subset (docs/language.md   *)
(* and the statement of C05): no implicit conversion except literal        *)
(* adaptation and pointer up-cast on assignment; int, uint and double      *)
(* never mixed; conditions bool; one common operand type per operator;     *)
(* admissible types per operator.  Types are strings:                      *)
(*   int uint dbl bool str void   enum:<E>   ptr:<C>   list:str            *)
(*   cint cstr null elist  (literals whose concrete type is still open)    *)
(*   ill                   (no rule applies)                               *)
(***************************************************************************)
EXTENDS Integers, Sequences, FiniteSets, TLC

PropTy == [ival |-> "int", jval |-> "int", uval |-> "uint", dval |-> "dbl", flag |-> "bool", flagB |-> "bool",
           text |-> "str", textB |-> "str", mode |-> "enum:Mode", opts |-> "enum:Opts", ptr |-> "ptr:TSource",
           sub |-> "ptr:TSub", items |-> "list:str", konst |-> "int", quiet |-> "int", rdonly |-> "int", fin |-> "int", finq |-> "int",
           xval |-> "int", cptr |-> "ptr:TSource"]
ReadOnlyProps == {"konst", "rdonly", "cptr", "fin", "finq"}
ObjTy == [a |-> "ptr:TSource", b |-> "ptr:TSub"]
ClassHasProp(c, p) == p \in DOMAIN PropTy /\ (p = "xval" => c = "TSub")
EnumOfVariant == [ModeA |-> "enum:Mode", ModeB |-> "enum:Mode", ModeC |-> "enum:Mode",
                  OptX |-> "enum:Opt", OptY |-> "enum:Opt", OptZ |-> "enum:Opt"]
\* slots and methods of TSource: name -> sequence of argument types
Methods == [act |-> <<"int">>, actText |-> <<"str">>, actTwo |-> <<"int", "int">>, actFlag |-> <<"bool">>,
            actPtr |-> <<"ptr:TSource">>, poke |-> <<>>]

IsPtr(t) == t \in {"ptr:TSource", "ptr:TSub"}
IsEnum(t) == t \in {"enum:Mode", "enum:Opt", "enum:Opts"}
EnumCompat(a, b) == a = b \/ {a, b} = {"enum:Opt", "enum:Opts"}
Derives(c, base) == c = base \/ (c = "ptr:TSub" /\ base = "ptr:TSource")

Deduce(l, r) ==
  IF l = "ill" \/ r = "ill" THEN "ill"
  ELSE IF l = r THEN l
  ELSE IF l \in {"int", "uint"} /\ r = "cint" THEN l
  ELSE IF r \in {"int", "uint"} /\ l = "cint" THEN r
  ELSE IF l = "str" /\ r = "cstr" THEN l
  ELSE IF r = "str" /\ l = "cstr" THEN r
  ELSE IF IsEnum(l) /\ IsEnum(r) /\ EnumCompat(l, r) THEN l
  ELSE IF IsPtr(l) /\ r = "null" THEN l
  ELSE IF IsPtr(r) /\ l = "null" THEN r
  ELSE IF l = "list:str" /\ r = "elist" THEN l
  ELSE IF r = "list:str" /\ l = "elist" THEN r
  ELSE "ill"
Concrete(t) == CASE t = "cint" -> "int" [] t = "cstr" -> "str" [] t \in {"null", "elist"} -> "ill" [] OTHER -> t
DeduceC(l, r) == Concrete(Deduce(l, r))
\* can a value of type 'actual' be stored where 'expected' is declared
Assignable(expected, actual) ==
  \/ expected = actual /\ actual # "ill"
  \/ expected \in {"int", "uint"} /\ actual = "cint"
  \/ expected = "str" /\ actual = "cstr"
  \/ IsPtr(expected) /\ actual = "null"
  \/ expected = "list:str" /\ actual = "elist"
  \/ IsEnum(expected) /\ IsEnum(actual) /\ EnumCompat(expected, actual)
  \/ IsPtr(expected) /\ IsPtr(actual) /\ Derives(actual, expected)

\* type annotations as spelled in the source (a class name denotes a pointer to it)
AnnT(n) == CASE n = "int" -> "int" [] n = "uint" -> "uint" [] n = "double" -> "dbl" [] n = "bool" -> "bool" [] n = "QString" -> "str"
             [] n = "QStringList" -> "list:str" [] n = "TSource" -> "ptr:TSource" [] n = "TSub" -> "ptr:TSub"
             [] n = "TSource.Mode" -> "enum:Mode" [] n = "TSource.Opts" -> "enum:Opts" [] n = "TSource.Opt" -> "enum:Opt" [] OTHER -> "ill"

ArithOps == {"+", "-", "*", "/", "%"}
BitOps   == {"&", "|", "^"}
ShiftOps == {"<<", ">>"}
CmpOps   == {"==", "!=", "<", "<=", ">", ">="}

RECURSIVE TypeOf(_, _)
\* locs: function from local names to [ty, const]
TypeOf(e, locs) ==
  CASE e.k = "int" -> "cint" [] e.k = "dbl" -> "dbl" [] e.k = "bool" -> "bool" [] e.k = "str" -> "cstr"
    [] e.k = "null" -> "null"
    [] e.k = "enum" -> EnumOfVariant[e.v]
    [] e.k = "obj" -> ObjTy[e.n]
    [] e.k = "lv" -> (IF e.n \in DOMAIN locs THEN locs[e.n].ty ELSE "ill")
    [] e.k = "rd" -> LET o == TypeOf(e.o, locs) IN
                     IF IsPtr(o) /\ ClassHasProp(SubSeq(o, 5, Len(o)), e.p) THEN PropTy[e.p] ELSE "ill"
    [] e.k = "un" -> LET a == TypeOf(e.a, locs) IN
                     CASE e.op \in {"-", "+"} -> (IF a \in {"cint", "int", "uint", "dbl"} THEN a ELSE "ill")
                       [] e.op = "~" -> (IF a \in {"cint", "int", "uint"} \/ IsEnum(a) THEN a ELSE "ill")
                       [] e.op = "!" -> (IF a = "bool" THEN "bool" ELSE "ill")
                       [] OTHER -> "ill"
    [] e.k = "bin" ->
         LET l == TypeOf(e.a, locs)  r == TypeOf(e.b, locs)  d == Deduce(l, r) IN
         CASE e.op \in ArithOps -> (IF d \in {"cint", "int", "uint", "dbl"} THEN d
                                    ELSE IF d \in {"str", "cstr"} /\ e.op = "+" THEN d ELSE "ill")
           [] e.op \in BitOps -> (IF d \in {"bool", "cint", "int", "uint"} \/ IsEnum(d) THEN d ELSE "ill")
           [] e.op \in ShiftOps -> (IF l \in {"cint", "int", "uint"} /\ r \in {"cint", "int", "uint"} THEN l ELSE "ill")
           [] e.op \in CmpOps -> (IF d \in {"bool", "cint", "int", "uint", "dbl", "str", "cstr", "null"} \/ IsEnum(d) \/ IsPtr(d)
                                  THEN "bool" ELSE "ill")
           [] OTHER -> "ill"
    [] e.k \in {"and", "or"} -> (IF TypeOf(e.a, locs) = "bool" /\ TypeOf(e.b, locs) = "bool" THEN "bool" ELSE "ill")
    [] e.k = "tern" -> (IF TypeOf(e.c, locs) # "bool" THEN "ill" ELSE DeduceC(TypeOf(e.a, locs), TypeOf(e.b, locs)))
    [] e.k = "cast" -> LET a == TypeOf(e.a, locs) IN
                       CASE e.ty \in {"int", "uint"} -> (IF a \in {"cint", "int", "uint", "dbl", "bool"} \/ IsEnum(a) THEN e.ty ELSE "ill")
                         [] e.ty = "double" -> (IF a \in {"cint", "int", "uint", "dbl"} THEN "dbl" ELSE "ill")
                         [] OTHER -> "ill"
    [] e.k = "call" ->
         CASE e.f \in {"Math.max", "Math.min"} ->
                (IF Len(e.args) # 2 THEN "ill"
                 ELSE LET d == DeduceC(TypeOf(e.args[1], locs), TypeOf(e.args[2], locs)) IN
                      IF d \in {"bool", "dbl", "int", "uint", "str"} THEN d ELSE "ill")
           [] e.f = "isEmpty" -> (IF Len(e.args) = 1 /\ Concrete(TypeOf(e.args[1], locs)) \in {"str", "list:str"} THEN "bool" ELSE "ill")
           [] OTHER -> "ill"
    [] e.k = "sub" -> (IF TypeOf(e.a, locs) = "list:str" /\ TypeOf(e.i, locs) \in {"cint", "int", "uint"} THEN "str" ELSE "ill")
    [] e.k = "arr" -> (IF e.args = <<>> THEN "elist"
                       ELSE IF \A i \in 1..Len(e.args) : Concrete(TypeOf(e.args[i], locs)) = "str" THEN "list:str" ELSE "ill")
    [] OTHER -> "ill"

\* statements: returns [ok, locs, rets] where rets is the set of types returned / completed with
RECURSIVE CheckS(_, _), CheckSeq(_, _, _)
R(ok, locs, rets) == [ok |-> ok, locs |-> locs, rets |-> rets]
CheckSeq(ss, i, acc) == IF i > Len(ss) \/ ~acc.ok THEN acc
                        ELSE LET r == CheckS(ss[i], acc.locs) IN CheckSeq(ss, i + 1, R(r.ok, r.locs, acc.rets \cup r.rets))
ArgsOk(m, args, locs) == m \in DOMAIN Methods /\ Len(args) = Len(Methods[m])
                         /\ \A i \in 1..Len(args) : Assignable(Methods[m][i], TypeOf(args[i], locs))
CheckS(x, locs) ==
  CASE x.k = "expr" -> R(TypeOf(x.e, locs) # "ill", locs, {})
    [] x.k \in {"let", "const"} -> LET t == Concrete(TypeOf(x.e, locs)) IN
                                   R(t \notin {"ill", "void"}, (x.n :> [ty |-> t, const |-> x.k = "const"]) @@ locs, {})
    [] x.k = "lett" -> LET t == AnnT(x.ty) IN
                       R(t # "ill" /\ (x.e.k = "none" \/ Assignable(t, TypeOf(x.e, locs))), (x.n :> [ty |-> t, const |-> FALSE]) @@ locs, {})
    [] x.k = "asg" -> R(x.n \in DOMAIN locs /\ ~locs[x.n].const /\ Assignable(locs[x.n].ty, TypeOf(x.e, locs)), locs, {})
    [] x.k = "asgsub" -> R(x.n \in DOMAIN locs /\ ~locs[x.n].const /\ locs[x.n].ty = "list:str" /\ TypeOf(x.i, locs) \in {"cint", "int", "uint"}
                           /\ Assignable("str", TypeOf(x.e, locs)), locs, {})
    [] x.k = "wprop" -> LET o == TypeOf(x.o, locs) IN
                        R(IsPtr(o) /\ ClassHasProp(SubSeq(o, 5, Len(o)), x.p) /\ x.p \notin ReadOnlyProps
                          /\ Assignable(PropTy[x.p], TypeOf(x.e, locs)), locs, {})
    [] x.k = "mcall" -> R(IsPtr(TypeOf(x.o, locs)) /\ ArgsOk(x.m, x.args, locs), locs, {})
    [] x.k = "letc" -> R(IsPtr(TypeOf(x.o, locs)) /\ x.m = "twice" /\ Len(x.args) = 1 /\ Assignable("int", TypeOf(x.args[1], locs)),
                         (x.n :> [ty |-> "int", const |-> FALSE]) @@ locs, {})
    [] x.k = "log" -> R(\A i \in 1..Len(x.args) : TypeOf(x.args[i], locs) \notin {"ill", "void"}, locs, {})
    [] x.k = "block" -> LET r == CheckSeq(x.b, 1, R(TRUE, locs, {})) IN R(r.ok, locs, r.rets)
    [] x.k = "ret" -> LET t == TypeOf(x.e, locs) IN R(t # "ill", locs, {t})
    [] x.k \in {"retv", "break"} -> R(TRUE, locs, {})
    [] x.k = "if" -> LET a == CheckS(x.a, locs)
                         b == IF x.b.k = "none" THEN R(TRUE, locs, {}) ELSE CheckS(x.b, locs) IN
                     R(TypeOf(x.c, locs) = "bool" /\ a.ok /\ b.ok, locs, a.rets \cup b.rets)
    [] x.k = "switch" ->
         LET v == TypeOf(x.v, locs)
             labs == \A i \in 1..Len(x.cases) : LET d == Deduce(v, TypeOf(x.cases[i].label, locs)) IN d # "ill"
             bodies == [i \in 1..Len(x.cases) |-> x.cases[i].body] \o (IF x.def.k = "none" THEN <<>> ELSE <<x.def.body>>)
             RECURSIVE Go(_, _)
             Go(i, acc) == IF i > Len(bodies) THEN acc ELSE Go(i + 1, CheckSeq(bodies[i], 1, acc))
             r == Go(1, R(TRUE, locs, {}))
         IN R(v # "ill" /\ labs /\ r.ok, locs, r.rets)          \* the clauses are one scope that ends with the switch
    [] OTHER -> R(FALSE, locs, {})
NoLocs == [x \in {} |-> 0]
ParamLocs(params) == [n \in {params[i].n : i \in 1..Len(params)} |->
                        [ty |-> (LET p == CHOOSE i \in 1..Len(params) : params[i].n = n IN
                                 CASE params[p].ty = "int" -> "int" [] params[p].ty = "QString" -> "str" [] params[p].ty = "bool" -> "bool"
                                   [] params[p].ty = "uint" -> "uint" [] params[p].ty = "double" -> "dbl" [] OTHER -> "ill"), const |-> FALSE]]
\* an expression binding is well typed when its type is assignable to the property
ExprBindingOk(prop, e) == Assignable(PropTy[prop], TypeOf(e, NoLocs))
HandlerOk(params, body) == CheckS(body, ParamLocs(params)).ok
\* a statement body bound to a property: every return (explicit) must deduce to one type assignable to the property
RECURSIVE FoldDeduce(_, _)
FoldDeduce(S, acc) == IF S = {} THEN acc ELSE LET t == CHOOSE t \in S : TRUE IN FoldDeduce(S \ {t}, Deduce(acc, t))
BodyBindingOk(prop, body) == LET r == CheckS(body, NoLocs) IN
   r.ok /\ r.rets # {} /\ (LET t == CHOOSE t \in r.rets : TRUE IN Assignable(PropTy[prop], FoldDeduce(r.rets \ {t}, t)))
=============================================================================
