INIT Init
NEXT Next
INVARIANT BuilderOk
INVARIANT Finalized
INVARIANT TargetsExistInv
INVARIANT TerminatedInv
INVARIANT DefBeforeUseInv
INVARIANT EmitBuilt
CHECK_DEADLOCK FALSE
