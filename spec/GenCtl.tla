------------------------------- MODULE GenCtl -------------------------------
(* Control-flow skeletons with trivial leaves: every nesting of ternary, &&, ||, if, if/else and switch    *)
(* (0..2 cases, default absent / first / middle / last, bodies empty / expression / declaration / break /   *)
(* return / nested if) in sequences of up to two statements, degenerate shapes included (empty switch,      *)
(* default-only switch, empty blocks).  Used as binding bodies and as handler bodies (C06, C07, C13).       *)
EXTENDS Ast
A == Obj("a")
B == Obj("b")
C == Rd(A, "flag")
D == Rd(B, "flag")
N == Rd(A, "ival")
Leaf == {N, IntL(1)}
Cond == {C, And(C, D), Or(C, D), Tern(C, D, Bool(TRUE)), Un("!", C)}
\* logical operators whose RIGHT operand itself spans several blocks (and left-nested controls)
NestCond == {And(C, Or(D, C)), Or(C, And(D, C)), And(C, Tern(D, C, Bool(TRUE))), Or(C, Tern(D, Bool(FALSE), C)), And(And(C, D), C), Or(Or(C, D), C),
             And(C, And(D, Or(C, D))), Or(Tern(C, D, C), And(D, C)), Un("!", And(C, Or(D, C)))}
E1 == Leaf \cup {Tern(c, N, IntL(2)) : c \in NestCond} \cup {Tern(c, x, y) : c \in {C, And(C, D)}, x \in Leaf, y \in Leaf}
        \cup {Tern(C, Tern(D, N, IntL(2)), IntL(3)), Tern(C, IntL(2), Tern(D, N, IntL(3))), Tern(Tern(C, D, C), N, IntL(4))}
None == NoneS(0)
Brk == BrkS(0)
S0 == {SExpr(e) : e \in E1} \cup {Let("x", e) : e \in Leaf \cup {Tern(C, N, IntL(2))}} \cup {Ret(e) : e \in Leaf} \cup {Block(<<>>)}
      \cup {LetT("x", "int", e) : e \in Leaf \cup {Tern(C, N, IntL(2))}} \cup {LetU("x", "int")}       \* declarations with a type annotation
Arm == S0 \cup {Block(<<s>>) : s \in {SExpr(N), Let("w", N), Ret(IntL(5))}} \cup {Block(<<Let("w", Tern(D, IntL(1), IntL(2)))>>)}
IfS == {If(c, a, b) : c \in {C, Or(C, D)}, a \in Arm, b \in Arm \cup {None}}
        \cup {If(c, a, b) : c \in NestCond, a \in {SExpr(N), Ret(IntL(5))}, b \in {None, SExpr(IntL(6))}}
\* conditions that are literals (or fold to one): the branch never taken is still a br_cond target
LitC == {Bool(TRUE), Bool(FALSE), Bin(">", IntL(1), IntL(2)), Un("!", Bool(FALSE))}
LitIf == {If(c, a, b) : c \in LitC, a \in {SExpr(N), Block(<<>>), Let("w", N), Ret(IntL(5)), Block(<<Let("w", N)>>), Block(<<If(C, Ret(IntL(1)), None)>>)},
                         b \in {None, SExpr(IntL(6)), Block(<<>>), Block(<<Let("u", N)>>), Ret(IntL(7))}}
         \cup {SExpr(Tern(c, N, IntL(2))) : c \in LitC} \cup {SExpr(And(c, C)) : c \in LitC} \cup {SExpr(Or(C, c)) : c \in LitC}
Body == {<<>>, <<SExpr(IntL(10))>>, <<Let("z", IntL(1))>>, <<Brk>>, <<Ret(IntL(30))>>, <<SExpr(IntL(20)), Brk>>,
         <<If(C, Brk, None)>>, <<If(C, Brk, None), SExpr(IntL(25))>>, <<If(C, Ret(IntL(26)), None)>>, <<Let("z", IntL(1)), SExpr(Lv("z"))>>}
DefBody == {<<>>, <<SExpr(IntL(50))>>, <<Brk>>, <<Let("y", IntL(1))>>}
SwS == {Sw(N, cs, d) :
          cs \in {<<>>} \cup {<<Case(IntL(0), b1)>> : b1 \in Body}
                 \cup {<<Case(IntL(0), b1), Case(IntL(1), b2)>> : b1 \in Body, b2 \in {<<>>, <<SExpr(IntL(40))>>, <<Brk>>}},
          d \in {None} \cup {Def(p, b) : p \in 0..2, b \in DefBody}}
SwOk == {x \in SwS : x.def.k = "none" \/ x.def.pos <= Len(x.cases)}
SwT == {Sw(Tern(C, N, IntL(1)), <<Case(Tern(D, IntL(0), IntL(1)), <<SExpr(IntL(60))>>), Case(IntL(2), <<Brk>>)>>, d) :
          d \in {None, Def(0, <<SExpr(IntL(61))>>), Def(2, <<SExpr(IntL(62))>>)}}
\* case labels that need several blocks, at every case position
LabT == Tern(D, IntL(1), IntL(2))
LabA == Tern(And(C, D), IntL(3), IntL(4))
SwL == {Sw(N, cs, d) : cs \in {<<Case(IntL(0), <<SExpr(IntL(70))>>), Case(LabT, <<SExpr(IntL(71))>>)>>,
                                <<Case(IntL(0), <<Brk>>), Case(LabT, <<SExpr(IntL(72))>>), Case(LabA, <<Ret(IntL(73))>>)>>,
                                <<Case(LabT, <<>>), Case(IntL(5), <<SExpr(IntL(74))>>), Case(LabA, <<SExpr(IntL(75)), Brk>>)>>},
                         d \in {None, Def(1, <<SExpr(IntL(76))>>), Def(0, <<>>)}}
S1 == S0 \cup IfS \cup SwOk \cup SwT \cup SwL \cup LitIf
Follow == {SExpr(N), Let("y", IntL(1)), Ret(IntL(7)), Let("z", Tern(C, IntL(1), IntL(2))), If(D, SExpr(IntL(8)), None), LetT("y", "int", N), LetU("y", "int")}
Progs == {[body |-> s] : s \in S1}
         \cup {[body |-> Block(<<t, s>>)] : s \in LitIf, t \in {SExpr(IntL(9)), Let("v", N)}}
         \cup {[body |-> Block(<<s, t>>)] : s \in LitIf, t \in {Let("y", IntL(1)), SExpr(N)}}
         \cup {[body |-> Block(<<s, t>>)] : s \in Sample(IfS) \cup Sample(SwOk) \cup SwT \cup SwL, t \in Follow}
         \cup {[body |-> Block(<<t, s>>)] : s \in Sample(IfS) \cup Sample(SwOk), t \in {SExpr(IntL(9)), Let("v", N)}}
         \cup {[body |-> If(c, Block(<<s>>), Block(<<t>>))] : c \in {C}, s \in Sample(SwOk), t \in {SExpr(IntL(3)), Ret(IntL(4))}}
VARIABLE prog
Init == prog \in Progs
Next == UNCHANGED prog
Emit == PrintT(<<"PROG", ToJson(prog)>>)
=============================================================================
