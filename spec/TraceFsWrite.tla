----------------------------- MODULE TraceFsWrite -----------------------------
(* Trace validation of real runs of `qmluic generate-ui` recorded with strace (one event per system call that   *)
(* touches the output tree) against the actions of FsWrite.tla.  Runs are concatenated; a "reset" event starts   *)
(* each one (old contents, wanted contents), a "snapshot" event compares the model's file system with the      *)
(* content ids observed on disk after the process ended.  Every invariant of FsWrite is checked at every step. *)
EXTENDS FsWrite, Json, IOUtils
Events == ndJsonDeserialize(IOEnv.TRACE)
VARIABLE l
Init == /\ l = 1 /\ fs = [p \in Paths |-> Absent] /\ old = [p \in Paths |-> Absent] /\ want = [p \in Paths |-> Absent]
        /\ tmp = [t \in {} |-> 0] /\ phase = [p \in Paths |-> "todo"] /\ cur = [p \in Paths |-> "none"] /\ alive = TRUE
E == Events[l]
Reset == /\ fs' = [p \in Paths |-> E.fs[p]] /\ old' = [p \in Paths |-> E.fs[p]] /\ want' = [p \in Paths |-> E.want[p]]
         /\ tmp' = [t \in {} |-> 0] /\ phase' = [p \in Paths |-> "todo"] /\ cur' = [p \in Paths |-> "none"] /\ alive' = TRUE
Stutter == UNCHANGED vars
TraceNext ==
  /\ l <= Len(Events) /\ l' = l + 1
  /\ CASE E.ev = "reset" -> Reset
       [] E.ev = "read" -> ReadOld(E.p)
       [] E.ev = "mkdir" -> alive /\ (\E p \in Paths : phase[p] = "compared") /\ Stutter      \* only on the way to creating a temp file
       [] E.ev = "mktemp" -> \E p \in Paths : CreateTemp(p, E.t)
       [] E.ev = "write" -> \E p \in Paths : cur[p] = E.t /\ Write(p, E.complete)
       [] E.ev = "chmod" -> \E p \in Paths : cur[p] = E.t /\ Chmod(p)
       [] E.ev = "rename" -> cur[E.p] = E.t /\ Rename(E.p)
       [] E.ev = "unlink" -> \E p \in Paths : cur[p] = E.t /\ Abandon(p)                   \* only the run's own temp file may be removed
       [] E.ev = "exit" -> alive /\ (E.code = 0 => \A p \in Paths : phase[p] \in {"skip", "done"} \/ want[p] = "none") /\ Stutter   \* "none": the run produces nothing at p
       [] E.ev = "killed" -> Crash
       [] E.ev = "snapshot" -> (\A p \in Paths : fs[p] = E.fs[p]) /\ Stutter
       [] OTHER -> FALSE          \* any other modification of the output tree has no counterpart in the protocol
Accepted == IF l = Len(Events) + 1 THEN TRUE
            ELSE PrintT(<<"REJECTED", ToJson([at |-> l, event |-> Events[l]])>>) /\ FALSE
TraceSpec == Init /\ [][TraceNext]_<<vars, l>>
\* the trace is accepted when some behaviour consumed every event: the deepest state reached has l = Len + 1
PostAccepted == IF TLCGet("stats").diameter = Len(Events) + 1 THEN TRUE
                ELSE PrintT(<<"REJECTED", ToJson([at |-> TLCGet("stats").diameter, event |-> Events[TLCGet("stats").diameter]])>>) /\ FALSE
=============================================================================
