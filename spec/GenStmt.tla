------------------------------ MODULE GenStmt ------------------------------
(* Enumerates statement skeletons: let/const scoping and assignment, if/else with and without       *)
(* blocks, switch with 1..2 cases, default absent/first/middle/last, empty bodies, fall-through,     *)
(* break (also under an if), early return, nested switch; distinguishable values at every leaf.      *)
EXTENDS Ast
A == Obj("a")
B == Obj("b")
N == Rd(A, "ival")
M == Rd(B, "ival")
C == Rd(A, "flag")

\* simple statements with distinguishable values
Simple == {SExpr(IntL(10)), SExpr(N), Ret(IntL(30)), Ret(Bin("+", N, IntL(1)))}
Arm == {Block(<<s>>) : s \in Simple} \cup {Block(<<Let("w", M), SExpr(Bin("*", Lv("w"), IntL(2)))>>)}
IfS == {If(c, a, b) : c \in {C, Bin(">", N, IntL(0))}, a \in Arm, b \in Arm \cup {NoneS(0)}}
Bodies == {<<>>} \cup {<<s>> : s \in Simple \cup {BrkS(0)}}
          \cup {<<s, t>> : s \in {SExpr(IntL(20)), Let("z", IntL(1))}, t \in Simple \cup {BrkS(0)}}
          \cup {<<If(C, BrkS(0), NoneS(0)), SExpr(IntL(25))>>}
SwS == {Sw(N, cs, d) :
          cs \in {<<Case(IntL(0), b1)>> : b1 \in Bodies}
                 \cup {<<Case(IntL(0), b1), Case(IntL(1), b2)>> : b1 \in Bodies, b2 \in {<<>>, <<SExpr(IntL(40))>>, <<BrkS(0)>>, <<Ret(M)>>}},
          d \in {NoneS(0)} \cup {Def(p, b) : p \in 0..2, b \in {<<>>, <<SExpr(IntL(50))>>, <<SExpr(IntL(50)), BrkS(0)>>, <<Ret(IntL(51))>>}}}
SwOk == {x \in SwS : x.def.k = "none" \/ x.def.pos <= Len(x.cases)}
TailS == {SExpr(IntL(99)), Ret(Bin("-", M, IntL(1)))}
StmtBodies ==
     {Block(<<Let("x", N), s, t>>) : s \in Sample(IfS), t \in TailS}
  \cup {Block(<<s, t>>) : s \in Sample(SwOk), t \in TailS}
  \cup {Block(<<Let("x", N), Const("y", Bin("+", Lv("x"), M)), Asg("x", Bin("*", Lv("y"), IntL(2))), SExpr(Bin("-", Lv("x"), Lv("y")))>>)}
  \cup {Block(<<Let("x", IntL(1)), Block(<<Let("x", N), Asg("x", Bin("+", Lv("x"), IntL(1)))>>), SExpr(Lv("x"))>>)}
  \cup {Block(<<Let("x", IntL(1)), Block(<<Asg("x", N)>>), If(C, Block(<<Let("x", IntL(5)), Asg("x", IntL(6))>>), NoneS(0)), SExpr(Lv("x"))>>)}
  \cup {Block(<<Let("r", IntL(0)), If(c, Asg("r", N), Asg("r", M)), SExpr(Lv("r"))>>) : c \in {C, Bin("<", N, M)}}
  \cup {Block(<<If(c1, If(c2, Ret(IntL(1)), Ret(IntL(2))), If(c2, Ret(IntL(3)), NoneS(0))), SExpr(IntL(4))>>) :
           c1 \in {C}, c2 \in {Bin(">", N, IntL(0)), Bin("==", M, IntL(2))}}
  \cup {Block(<<Sw(N, <<Case(IntL(0), <<Sw(M, <<Case(IntL(1), <<Ret(IntL(11))>>), Case(IntL(2), <<BrkS(0)>>)>>, Def(2, <<SExpr(IntL(12))>>))>>),
                         Case(IntL(1), <<Ret(IntL(13))>>)>>, d), Ret(IntL(14))>>) : d \in {NoneS(0), Def(1, <<BrkS(0)>>), Def(0, <<>>)}}
\* the clauses of a switch are one scope: a variable declared directly in a clause shadows an outer one of the same name in the later
\* clauses (reached by fall-through) and no longer after the switch
S == Lv("s")
SwScope == {Block(<<Let("s", IntL(100)),
                    Sw(N, <<Case(IntL(0), <<Let("s", M), SExpr(S)>> \o t0), Case(IntL(1), <<Asg("s", Bin("+", S, IntL(1))), SExpr(S)>>)>>, d), tl>>)
              : t0 \in {<<>>, <<BrkS(0)>>}, d \in {NoneS(0), Def(2, <<SExpr(Bin("*", S, IntL(3)))>>), Def(0, <<Let("q", IntL(7))>>)},
                tl \in {SExpr(S), Ret(Bin("*", S, IntL(2)))}}
       \cup {Block(<<Let("s", N), Sw(M, <<Case(IntL(2), <<Const("s", IntL(5)), If(C, BrkS(0), NoneS(0))>>), Case(IntL(3), <<Ret(S)>>)>>, NoneS(0)), SExpr(Bin("+", S, IntL(1)))>>)}
       \cup {Block(<<Let("s", N), If(C, Sw(M, <<Case(IntL(2), <<Let("s", IntL(5)), SExpr(S)>>)>>, Def(1, <<SExpr(S)>>)), NoneS(0)), SExpr(S)>>)}
\* declarations with a type annotation, with and without initialiser (docs/language.md: "type annotation or initial value is required")
U == Rd(A, "uval")
TypedInt ==
     {Block(<<LetU("r", "int"), If(c, Asg("r", N), Asg("r", M)), SExpr(Lv("r"))>>) : c \in {C, Bin("<", N, M)}}
  \cup {Block(<<LetT("x", "int", N), LetT("y", "int", IntL(2)), Asg("x", Bin("*", Lv("x"), Lv("y"))), SExpr(Lv("x"))>>)}
  \cup {Block(<<LetT("u", "uint", IntL(3)), SExpr(Cast(Bin("+", Lv("u"), U), "int"))>>)}
  \cup {Block(<<LetT("u", "uint", U), Asg("u", IntL(7)), SExpr(Cast(Bin("/", Lv("u"), IntL(2)), "int"))>>)}
  \cup {Block(<<LetU("u", "uint"), Asg("u", IntL(9)), Ret(Cast(Bin("-", Lv("u"), IntL(4)), "int"))>>)}
  \cup {Block(<<LetT("p", "TSource", NullE(0)), If(C, Asg("p", Rd(A, "ptr")), NoneS(0)), SExpr(Tern(Bin("!=", Lv("p"), NullE(0)), Rd(Lv("p"), "ival"), IntL(9)))>>)}
  \cup {Block(<<LetT("p", "TSource", B), Ret(Bin("+", Rd(Lv("p"), "ival"), IntL(1)))>>)}
  \cup {Block(<<LetT("x", "int", IntL(1)), Block(<<LetU("x", "int"), Asg("x", N)>>), SExpr(Lv("x"))>>)}
  \cup {Block(<<LetU("r", "int"), Sw(N, <<Case(IntL(0), <<Asg("r", IntL(10)), BrkS(0)>>), Case(IntL(1), <<Asg("r", M)>>)>>, Def(2, <<Asg("r", IntL(30))>>)), SExpr(Lv("r"))>>)}
  \cup {Block(<<LetT("g", "bool", C), LetT("m", "TSource.Mode", En("Mode", "ModeB")), If(Lv("g"), Asg("m", Rd(A, "mode")), NoneS(0)),
                 Ret(Tern(Bin("==", Lv("m"), En("Mode", "ModeB")), N, M))>>)}
TypedOther ==
     {[prop |-> "text", body |-> Block(<<LetT("s", "QString", Str("x")), If(C, Asg("s", Bin("+", Lv("s"), Rd(A, "text"))), NoneS(0)), SExpr(Lv("s"))>>)],
      [prop |-> "text", body |-> Block(<<LetU("s", "QString"), If(C, Asg("s", Str("y")), Asg("s", Rd(A, "text"))), Ret(Lv("s"))>>)],
      [prop |-> "dval", body |-> Block(<<LetT("d", "double", Dbl(2)), Asg("d", Bin("+", Lv("d"), Rd(A, "dval"))), SExpr(Lv("d"))>>)],
      [prop |-> "mode", body |-> Block(<<LetT("m", "TSource.Mode", En("Mode", "ModeC")), If(C, Asg("m", Rd(A, "mode")), NoneS(0)), Ret(Lv("m"))>>)],
      [prop |-> "items", body |-> Block(<<LetT("l", "QStringList", Arr(<<>>)), If(C, Asg("l", Rd(A, "items")), NoneS(0)), Ret(Lv("l"))>>)],
      [prop |-> "ptr", body |-> Block(<<LetT("p", "TSource", NullE(0)), If(C, Asg("p", B), NoneS(0)), Ret(Lv("p"))>>)],
      [prop |-> "uval", body |-> Block(<<LetT("u", "uint", IntL(2)), Ret(Bin("*", Lv("u"), U))>>)],
      [prop |-> "flag", body |-> Block(<<LetT("f", "bool", Bool(FALSE)), If(Bin(">", N, IntL(0)), Asg("f", C), NoneS(0)), SExpr(Lv("f"))>>)]}
\* declarator lists (`let a = x, b = a + 1`): a later initialiser sees the earlier variables of the same statement, also when the name means
\* something else outside it (an outer variable, a property of the bound object)
DeclListB == {Block(<<Let("s", IntL(100)), Block(<<Let("s", N), LetJ("t", Bin("+", Lv("s"), IntL(1))), SExpr(Lv("t"))>>)>>),
              Block(<<Let("u", N), LetJ("v", Bin("*", Lv("u"), IntL(2))), LetJ("w", Bin("+", Lv("v"), Lv("u"))), Ret(Lv("w"))>>),
              Block(<<Let("ival", M), LetJ("z", Bin("+", Lv("ival"), IntL(1))), Ret(Lv("z"))>>),
              Block(<<Const("c2", N), ConstJ("d2", Bin("-", Lv("c2"), M)), SExpr(Lv("d2"))>>),
              Block(<<Let("s", M), If(C, Block(<<Let("s", N), LetJ("t", Bin("*", Lv("s"), IntL(3))), Ret(Lv("t"))>>), NoneS(0)), SExpr(Lv("s"))>>),
              Block(<<Let("jval", IntL(7)), LetJ("k", Lv("jval")), LetJ("jv2", Bin("+", Lv("k"), Lv("jval"))), SExpr(Lv("jv2"))>>)}
\* a shift has the type of its LEFT operand, whatever the type of the count: signed results used where the sign matters
ShiftU == {[prop |-> "flag", body |-> SExpr(Bin("<", Bin("-", Bin(">>", IntL(8), U), IntL(10)), IntL(0)))],
           [prop |-> "ival", body |-> SExpr(Bin("/", Bin("-", Bin(">>", N, U), IntL(10)), IntL(2)))],
           [prop |-> "flag", body |-> SExpr(Bin("<", Bin("-", Bin("<<", IntL(1), U), IntL(4)), IntL(0)))],
           [prop |-> "dval", body |-> SExpr(Cast(Bin("-", Bin("<<", IntL(1), U), IntL(4)), "double"))],
           [prop |-> "ival", body |-> Block(<<Let("x", Bin(">>", N, U)), Ret(Bin("-", Lv("x"), IntL(10)))>>)],
           [prop |-> "flag", body |-> Block(<<Let("x", Bin(">>", M, U)), If(Bin("<", Bin("-", Lv("x"), IntL(1)), IntL(0)), Ret(Bool(TRUE)), NoneS(0)), Ret(Bool(FALSE))>>)],
           [prop |-> "uval", body |-> SExpr(Bin("+", Bin(">>", U, N), Bin("<<", U, IntL(1))))],
           [prop |-> "ival", body |-> SExpr(Bin("%", Bin("-", Bin(">>", IntL(100), U), IntL(200)), IntL(7)))]}
StmtProgs == {[prop |-> "ival", body |-> b] : b \in StmtBodies \cup SwScope \cup TypedInt \cup DeclListB} \cup TypedOther \cup ShiftU


VARIABLE prog
Init == prog \in StmtProgs
Next == UNCHANGED prog
Emit == PrintT(<<"PROG", ToJson(prog)>>)
=============================================================================
