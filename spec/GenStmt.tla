------------------------------ MODULE GenStmt ------------------------------
(* Enumerates statement skeletons: let/const scoping and assignment, if/else with and without       *)
(* blocks, switch with 1..2 cases, default absent/first/middle/last, empty bodies, fall-through,     *)
(* break (also under an if), early return, nested switch; distinguishable values at every leaf.      *)
EXTENDS Ast
A == Obj("a")
B == Obj("b")
N == Rd(A, "ival")
M == Rd(B, "ival")
C == Rd(A, "flag")

\* simple statements with distinguishable values
Simple == {SExpr(IntL(10)), SExpr(N), Ret(IntL(30)), Ret(Bin("+", N, IntL(1)))}
Arm == {Block(<<s>>) : s \in Simple} \cup {Block(<<Let("w", M), SExpr(Bin("*", Lv("w"), IntL(2)))>>)}
IfS == {If(c, a, b) : c \in {C, Bin(">", N, IntL(0))}, a \in Arm, b \in Arm \cup {NoneS(0)}}
Bodies == {<<>>} \cup {<<s>> : s \in Simple \cup {BrkS(0)}}
          \cup {<<s, t>> : s \in {SExpr(IntL(20)), Let("z", IntL(1))}, t \in Simple \cup {BrkS(0)}}
          \cup {<<If(C, BrkS(0), NoneS(0)), SExpr(IntL(25))>>}
SwS == {Sw(N, cs, d) :
          cs \in {<<Case(IntL(0), b1)>> : b1 \in Bodies}
                 \cup {<<Case(IntL(0), b1), Case(IntL(1), b2)>> : b1 \in Bodies, b2 \in {<<>>, <<SExpr(IntL(40))>>, <<BrkS(0)>>, <<Ret(M)>>}},
          d \in {NoneS(0)} \cup {Def(p, b) : p \in 0..2, b \in {<<>>, <<SExpr(IntL(50))>>, <<SExpr(IntL(50)), BrkS(0)>>, <<Ret(IntL(51))>>}}}
SwOk == {x \in SwS : x.def.k = "none" \/ x.def.pos <= Len(x.cases)}
TailS == {SExpr(IntL(99)), Ret(Bin("-", M, IntL(1)))}
StmtBodies ==
     {Block(<<Let("x", N), s, t>>) : s \in Sample(IfS), t \in TailS}
  \cup {Block(<<s, t>>) : s \in Sample(SwOk), t \in TailS}
  \cup {Block(<<Let("x", N), Const("y", Bin("+", Lv("x"), M)), Asg("x", Bin("*", Lv("y"), IntL(2))), SExpr(Bin("-", Lv("x"), Lv("y")))>>)}
  \cup {Block(<<Let("x", IntL(1)), Block(<<Let("x", N), Asg("x", Bin("+", Lv("x"), IntL(1)))>>), SExpr(Lv("x"))>>)}
  \cup {Block(<<Let("x", IntL(1)), Block(<<Asg("x", N)>>), If(C, Block(<<Let("x", IntL(5)), Asg("x", IntL(6))>>), NoneS(0)), SExpr(Lv("x"))>>)}
  \cup {Block(<<Let("r", IntL(0)), If(c, Asg("r", N), Asg("r", M)), SExpr(Lv("r"))>>) : c \in {C, Bin("<", N, M)}}
  \cup {Block(<<If(c1, If(c2, Ret(IntL(1)), Ret(IntL(2))), If(c2, Ret(IntL(3)), NoneS(0))), SExpr(IntL(4))>>) :
           c1 \in {C}, c2 \in {Bin(">", N, IntL(0)), Bin("==", M, IntL(2))}}
  \cup {Block(<<Sw(N, <<Case(IntL(0), <<Sw(M, <<Case(IntL(1), <<Ret(IntL(11))>>), Case(IntL(2), <<BrkS(0)>>)>>, Def(2, <<SExpr(IntL(12))>>))>>),
                         Case(IntL(1), <<Ret(IntL(13))>>)>>, d), Ret(IntL(14))>>) : d \in {NoneS(0), Def(1, <<BrkS(0)>>), Def(0, <<>>)}}
StmtProgs == {[prop |-> "ival", body |-> b] : b \in StmtBodies}


VARIABLE prog
Init == prog \in StmtProgs
Next == UNCHANGED prog
Emit == PrintT(<<"PROG", ToJson(prog)>>)
=============================================================================
