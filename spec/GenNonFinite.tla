----------------------------- MODULE GenNonFinite -----------------------------
(* Comparisons whose constant operands fold to NaN, +infinity or -infinity (IEEE 754, as in ECMAScript): every relation with *)
(* a NaN operand is false except !=; infinities order as the extended reals.  Operands are classes, the driver picks spellings.*)
EXTENDS Integers, Sequences, FiniteSets, TLC, Json
Classes == {"nan", "pinf", "ninf", "one", "zero"}
Rank == [ninf |-> 0, zero |-> 1, one |-> 2, pinf |-> 3]
Rel == {"<", "<=", ">", ">=", "==", "!="}
Holds(op, a, b) ==
  IF a = "nan" \/ b = "nan" THEN op = "!="
  ELSE LET x == Rank[a]  y == Rank[b] IN
       CASE op = "<" -> x < y [] op = "<=" -> x <= y [] op = ">" -> x > y [] op = ">=" -> x >= y [] op = "==" -> x = y [] OTHER -> x # y
VARIABLES a, b, op
Init == a \in Classes /\ b \in Classes /\ op \in Rel /\ (a \in {"nan", "pinf", "ninf"} \/ b \in {"nan", "pinf", "ninf"})
Next == UNCHANGED <<a, b, op>>
Emit == PrintT(<<"CMP", ToJson([a |-> a, b |-> b, op |-> op, holds |-> Holds(op, a, b)])>>)
=============================================================================
