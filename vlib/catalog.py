"""Catalogue of concrete bindings with the attributes that drive their ownership (Pipeline.tla), document builder with source
spans, and detectors that decide from the artefacts alone where a binding ended up (C04, C14, C20)."""
import itertools
import json
import os
import re

from . import tlc, tlc_must_pass, write_ndjson, ToolError
from . import trees as T


def A(kind, known=True, typed=True, const=True, consumed=True, writable=True, readable=True, group=0, assignable=True):
    return {"kind": kind, "known": known, "typed": typed, "const": const, "consumed": consumed, "writable": writable, "readable": readable, "group": group,
            "assignable": assignable}


def cap(s):
    return s[0].upper() + s[1:]


# name -> dict(host=class, region=grid|vbox|root, text=binding text, attrs=..., ui=detector(el, parent_el, ui), hdr=detector(header, host))
def _prop(name):
    return lambda el, parent, item: name in el["props"]


def _upd(prop):
    return lambda h, host: re.search(r"void update%s%s\(\)" % (cap(host), cap(prop)), h) is not None


CATALOG = {
    "const_text": dict(host="QLabel", text='text: "x"', attrs=A("prop"), ui=_prop("text"), hdr=_upd("text")),
    "tr_text": dict(host="QLabel", text='text: qsTr("y")', attrs=A("prop"), ui=_prop("text"), hdr=_upd("text")),
    "concat_text": dict(host="QLabel", text='text: "a" + "b"', attrs=A("prop"), ui=_prop("text"), hdr=_upd("text")),
    "dyn_text": dict(host="QLabel", text="text: edit.text", attrs=A("prop", const=False), ui=_prop("text"), hdr=_upd("text")),
    "dyn_tern_text": dict(host="QLabel", text='text: chk.checked ? "on" : qsTr("off")', attrs=A("prop", const=False), ui=_prop("text"), hdr=_upd("text")),
    "const_enabled": dict(host="QLabel", text="enabled: false", attrs=A("prop"), ui=_prop("enabled"), hdr=_upd("enabled")),
    "dyn_enabled": dict(host="QLabel", text="enabled: chk.checked", attrs=A("prop", const=False), ui=_prop("enabled"), hdr=_upd("enabled")),
    "const_enum": dict(host="QLabel", text="alignment: Qt.AlignRight | Qt.AlignTop", attrs=A("prop"), ui=_prop("alignment"), hdr=_upd("alignment")),
    "dyn_enum": dict(host="QLabel", text="alignment: chk.checked ? Qt.AlignRight : Qt.AlignLeft", attrs=A("prop", const=False), ui=_prop("alignment"), hdr=_upd("alignment")),
    "const_objref": dict(host="QLabel", text="buddy: edit", attrs=A("prop"), ui=_prop("buddy"), hdr=_upd("buddy")),
    "member_const": dict(host="QLabel", text="font.bold: true", attrs=A("member", group=1), ui=lambda el, p, i: "font" in el["props"] and "bold" in el.get("_raw", ""),
                         hdr=lambda h, host: re.search(r"eval%sFontBold\(\)" % cap(host), h) is not None),
    "member_dyn": dict(host="QLabel", text="font.italic: chk.checked", attrs=A("member", const=False, group=1), ui=lambda el, p, i: "italic" in el.get("_raw", ""),
                       hdr=lambda h, host: re.search(r"eval%sFontItalic\(\)" % cap(host), h) is not None),
    "member_const2": dict(host="QLabel", text="font.pointSize: 12", attrs=A("member", group=1), ui=lambda el, p, i: "pointsize" in el.get("_raw", ""),
                          hdr=lambda h, host: re.search(r"eval%sFontPointSize\(\)" % cap(host), h) is not None),
    "rect_const": dict(host="QLabel", text="geometry { x: 1; y: 2; width: 30; height: 40 }", attrs=A("prop"), ui=_prop("geometry"), hdr=_upd("geometry")),
    "objmember_const": dict(host="QTableView", text="horizontalHeader.visible: false", attrs=A("objmember"), ui=_prop("@horizontalHeaderVisible"),
                            hdr=lambda h, host: "HorizontalHeader" in h and cap(host) in h),
    "objmember_dyn": dict(host="QTableView", text="horizontalHeader.visible: chk.checked", attrs=A("objmember", const=False), ui=_prop("@horizontalHeaderVisible"),
                          hdr=lambda h, host: re.search(r"update%sHorizontalHeader" % cap(host), h) is not None),
    "attached_const": dict(host="QLabel", text="QLayout.columnSpan: 2", attrs=A("attached"), ui=lambda el, p, item: (item or {}).get("colspan") == "2", hdr=lambda h, host: False),
    "attached_align": dict(host="QLabel", text="QLayout.alignment: Qt.AlignRight", attrs=A("attached"), ui=lambda el, p, item: "alignment" in (item or {}), hdr=lambda h, host: False),
    "attached_unconsumed": dict(host="QLabel", region="vbox", text="QLayout.columnStretch: 2", attrs=A("attached", consumed=False), ui=lambda el, p, item: False, hdr=lambda h, host: False),
    "attached_unconsumed_grid": dict(host="QLabel", region="vbox", text="QLayout.row: 1", attrs=A("attached", consumed=False), ui=lambda el, p, item: bool((item or {}).get("row")), hdr=lambda h, host: False),
    "attached_dyn": dict(host="QLabel", text="QLayout.row: spin.value", attrs=A("attached", const=False), ui=lambda el, p, item: False, hdr=lambda h, host: "spin" in h and False),
    "attached_unknown_type": dict(host="QLabel", text="NoSuchType.row: 1", attrs=A("attached", known=False, typed=False), ui=lambda el, p, item: False, hdr=lambda h, host: False),
    "handler": dict(host="QPushButton", text="onClicked: edit.clear()", attrs=A("handler", const=False),
                    ui=lambda el, p, i: False, hdr=lambda h, host: re.search(r"void setup%sClicked\(\)" % cap(host), h) is not None),
    "handler_fn": dict(host="QCheckBox", text="onToggled: function(on: bool) { if (on) edit.clear() }", attrs=A("handler", const=False),
                       ui=lambda el, p, i: False, hdr=lambda h, host: re.search(r"void on%sToggled\(bool" % cap(host), h) is not None),
    "handler_unknown": dict(host="QPushButton", text="onNoSuchSignal: edit.clear()", attrs=A("handler", known=False, typed=False, const=False),
                            ui=lambda el, p, i: False, hdr=lambda h, host: "NoSuchSignal" in h),
    "handler_illtyped": dict(host="QPushButton", text="onClicked: edit.setText(1)", attrs=A("handler", typed=False, const=False),
                             ui=lambda el, p, i: False, hdr=lambda h, host: re.search(r"void setup%sClicked\(\)" % cap(host), h) is not None),
    # handlers written inside a nested-object, gadget or attached group: not supported, so diagnosed -- never accepted and dropped
    "objmember_handler": dict(host="QTableView", text="horizontalHeader.onSectionClicked: function(index: int) { edit.clear() }", attrs=A("handler", typed=False, const=False),
                              ui=lambda el, p, i: False, hdr=lambda h, host: "SectionClicked" in h),
    "objmember_handler_grouped": dict(host="QTreeView", text="header { stretchLastSection: true; onSectionDoubleClicked: edit.clear() }", attrs=A("handler", typed=False, const=False),
                                      ui=lambda el, p, i: False, hdr=lambda h, host: "SectionDoubleClicked" in h),
    "gadget_handler": dict(host="QLabel", text="font.onBoldChanged: edit.clear()", attrs=A("handler", typed=False, const=False),
                           ui=lambda el, p, i: False, hdr=lambda h, host: "BoldChanged" in h),
    "attached_handler": dict(host="QLabel", text="QLayout.onRowChanged: edit.clear()", attrs=A("handler", typed=False, const=False),
                             ui=lambda el, p, i: False, hdr=lambda h, host: "RowChanged" in h),
    "unknown_prop": dict(host="QLabel", text="nosuch: 1", attrs=A("prop", known=False, typed=False), ui=_prop("nosuch"), hdr=_upd("nosuch")),
    "illtyped_const": dict(host="QLabel", text="text: 1", attrs=A("prop", assignable=False), ui=_prop("text"), hdr=_upd("text")),
    "illtyped_dyn": dict(host="QLabel", text="text: chk.checked", attrs=A("prop", const=False, assignable=False), ui=_prop("text"), hdr=_upd("text")),
    "unsupported": dict(host="QLabel", text="text: typeof edit", attrs=A("prop", typed=False, const=False), ui=_prop("text"), hdr=_upd("text")),
    "unobservable": dict(host="QLabel", text='text: root.width > 1 ? "a" : "b"', attrs=A("prop", typed=False, const=False), ui=_prop("text"), hdr=_upd("text")),
    "readonly_const": dict(host="QLabel", text="width: 100", attrs=A("prop", writable=False), ui=_prop("width"), hdr=_upd("width")),
    "readonly_dyn": dict(host="QLabel", text="width: spin.value", attrs=A("prop", const=False, writable=False), ui=_prop("width"), hdr=_upd("width")),
    "pseudo_model": dict(host="QComboBox", text='model: ["a", "b"]', attrs=A("pseudo", writable=False), ui=lambda el, p, i: len([k for k in el.get("_items", [])]) == 2,
                         hdr=lambda h, host: re.search(r"update%sModel" % cap(host), h) is not None),
    "pseudo_dyn": dict(host="QComboBox", text='model: chk.checked ? ["a"] : ["b"]', attrs=A("pseudo", const=False, writable=False), ui=lambda el, p, i: bool(el.get("_items")),
                       hdr=lambda h, host: re.search(r"update%sModel" % cap(host), h) is not None),
    "pseudo_actions": dict(host="QToolBar", text="actions: [act]", attrs=A("pseudo", writable=False), ui=lambda el, p, i: el["adds"] == ["act"],
                           hdr=lambda h, host: re.search(r"update%sActions" % cap(host), h) is not None),
    "sep_true": dict(host="QAction", region="root", text="separator: true", attrs=A("pseudo", writable=False), ui=lambda el, p, i: el is None and "separator" in p["adds"],
                     hdr=lambda h, host: False),
    "sep_false": dict(host="QAction", region="root", text="separator: false", attrs=A("pseudo", writable=False), ui=lambda el, p, i: el is not None and "separator" in el["props"],
                      hdr=lambda h, host: re.search(r"update%sSeparator" % cap(host), h) is not None, f9=True),
    "action_text": dict(host="QAction", region="root", text='text: qsTr("Do")', attrs=A("prop"), ui=_prop("text"), hdr=_upd("text")),
    "action_dyn": dict(host="QAction", region="root", text="enabled: chk.checked", attrs=A("prop", const=False), ui=_prop("enabled"), hdr=_upd("enabled")),
    # the same leaf bound twice, in every pair of notations: must be diagnosed, never silently overridden
    "dup_plain": dict(host="QLabel", text='text: "a"\n        text: "b"', attrs=A("prop", typed=False), ui=_prop("text"), hdr=_upd("text")),
    "dup_dotted_dotted": dict(host="QLabel", text="font.bold: true\n        font.bold: false", attrs=A("prop", typed=False), ui=_prop("font"), hdr=_upd("font")),
    "dup_dotted_grouped": dict(host="QLabel", text='font.bold: true\n        font { family: "Mono"; bold: false }', attrs=A("prop", typed=False), ui=_prop("font"), hdr=_upd("font")),
    "dup_grouped_dotted": dict(host="QLabel", text='font { family: "Mono"; bold: false }\n        font.bold: true', attrs=A("prop", typed=False), ui=_prop("font"), hdr=_upd("font")),
    "dup_grouped_grouped": dict(host="QLabel", text="font { bold: false }\n        font { bold: true }", attrs=A("prop", typed=False), ui=_prop("font"), hdr=_upd("font")),
    "dup_attached": dict(host="QLabel", text="QLayout.row: 1\n        QLayout.row: 2", attrs=A("attached", typed=False), ui=lambda el, p, item: False, hdr=lambda h, host: False),
    "dup_attached_grouped": dict(host="QLabel", text="QLayout.row: 1\n        QLayout { column: 0; row: 2 }", attrs=A("attached", typed=False), ui=lambda el, p, item: False, hdr=lambda h, host: False),
    "dup_handler": dict(host="QPushButton", text="onClicked: edit.clear()\n        onClicked: edit.selectAll()", attrs=A("handler", typed=False, const=False),
                        ui=lambda el, p, i: False, hdr=lambda h, host: False),
    "dup_id": dict(host="QLabel", text="id: twice\n        id: again", attrs=A("prop", typed=False), ui=lambda el, p, i: False, hdr=lambda h, host: False),
    "spacer_const": dict(host="QSpacerItem", text="orientation: Qt.Vertical", attrs=A("prop"), ui=_prop("orientation"), hdr=_upd("orientation")),
}
FAULTY = [k for k, v in CATALOG.items() if not (v["attrs"]["known"] and v["attrs"]["typed"] and v["attrs"]["assignable"])]


def build_document(entries):
    """entries: list of catalogue names; members of the same grouped value share a host. Returns (qml, hosts, spans) with
    hosts[i] = host object id of entry i and spans[i] = byte span of its binding text."""
    regions = {"grid": [], "vbox": [], "root": []}
    hosts, host_of_group = [], {}
    objs = []     # (region, id, cls, [entry indexes])
    for i, name in enumerate(entries):
        e = CATALOG[name]
        g = e["attrs"]["group"]
        if g and (g, e["host"]) in host_of_group:
            oi = host_of_group[(g, e["host"])]
            objs[oi][3].append(i)
        else:
            oi = len(objs)
            objs.append([e.get("region", "grid"), "h%d" % oi, e["host"], [i]])
            if g:
                host_of_group[(g, e["host"])] = oi
        hosts.append(objs[oi][1])
    out = ["import qmluic.QtWidgets\nQWidget {\n  id: root\n  QAction { id: act }\n"]
    spans = [None] * len(entries)

    def emit_obj(o, ind):
        region, oid, cls, idx = o
        out.append("%s%s {\n%s  id: %s\n" % (ind, cls, ind, oid))
        for i in idx:
            out.append(ind + "  ")
            start = len("".join(out).encode())
            out.append(CATALOG[entries[i]]["text"])
            spans[i] = (start, len("".join(out).encode()))
            out.append("\n")
        out.append(ind + "}\n")
    for o in objs:
        if o[0] == "root":
            emit_obj(o, "  ")
    out.append("  QVBoxLayout {\n    id: outer\n    QGridLayout {\n      id: grid\n      columns: 3\n      QCheckBox { id: chk }\n      QLineEdit { id: edit }\n      QSpinBox { id: spin }\n")
    for o in objs:
        if o[0] == "grid":
            emit_obj(o, "      ")
    out.append("    }\n")
    for o in objs:
        if o[0] == "vbox":
            emit_obj(o, "    ")
    out.append("  }\n}\n")
    return "".join(out), hosts, spans


def places(chk, docs):
    """docs: [(id, [entry names])] -> {id: {places: {mode: [..]}, accepted: {mode: bool}, headerempty}} from Pipeline.tla"""
    path = os.path.join(chk.work, "docs-%d.ndjson" % len(os.listdir(chk.work)))
    write_ndjson(path, [{"id": i, "bindings": [CATALOG[n]["attrs"] for n in names]} for i, names in docs])
    res = tlc("PipelineExpect", env={"DOCS": path}, workers=8, coverage=False, timeout=1800)
    tlc_must_pass(res, "PipelineExpect")
    chk.add_tlc(res)
    out = {r["id"]: r for r in res.printed("PLACES")}
    if len(out) != len(docs):
        raise ToolError("PipelineExpect answered %d of %d" % (len(out), len(docs)))
    return out


def locate(ui_xml):
    """element by name with raw subtree text, model items and the enclosing <item> attributes; parents"""
    info = T.parse_ui(ui_xml)
    by = {}

    def walk(el, parent):
        by[el["name"]] = (el, parent)
        for k in el["kids"]:
            walk(k, el)
    if info["root"]:
        walk(info["root"], None)
    # raw text of each named element (cheap: slice between the opening tag and the next sibling at the same depth is overkill; regex on name)
    for name, (el, parent) in by.items():
        m = re.search(r'<(widget|layout|action|spacer)\b[^>]*\bname="%s"[^>]*>' % re.escape(name), ui_xml)
        if m:
            tag = m.group(1)
            depth, pos = 0, m.start()
            for t in re.finditer(r"<(/?)%s\b[^>]*?(/?)>" % tag, ui_xml[pos:]):
                if t.group(2):
                    continue
                depth += -1 if t.group(1) else 1
                if depth == 0:
                    el["_raw"] = ui_xml[pos:pos + t.end()]
                    break
        raw = el.get("_raw", "")
        # direct model items: <item> elements that are not layout items
        el["_items"] = re.findall(r"<item>\s*<property name=\"text\">", raw) if el["el"] == "widget" and el["cls"] in ("QComboBox", "QListWidget") else []
    return info, by


def observed_places(names, hosts, spans, run):
    """per binding: dict(ui=bool, header=bool, diag=bool) decided from the artefacts of a generate-mode run"""
    ui, header = run.get("ui"), run.get("header") or ""
    info, by = locate(ui) if ui else (None, {})
    errs = [d for d in run.get("diags", []) if d["kind"] == "error"]
    res = []
    for name, host, (s, e) in zip(names, hosts, spans):
        ent = CATALOG[name]
        el, parent = by.get(host, (None, None))
        if el is None and ent["host"] == "QAction":
            parent = info["root"] if info else None       # a separator action leaves no element: its parent is the root widget here
        try:
            in_ui = bool(ent["ui"](el, parent, el["item"] if el else None)) if (el is not None or ent["host"] == "QAction") and info else False
        except (KeyError, TypeError):
            in_ui = False
        in_hdr = bool(ent["hdr"](header, host))
        diag = any(s <= d["s"] and d["e"] <= e for d in errs)
        # a diagnostic on the enclosing grouped value / object (e.g. nested dynamic binding) counts when it covers the binding
        res.append({"ui": in_ui, "header": in_hdr, "diag": diag})
    return res
