"""Shared driver library for the qmluic verification checks (stdlib only)."""
import hashlib
import json
import os
import re
import shutil
import subprocess
import sys
import tempfile
import time
from concurrent.futures import ThreadPoolExecutor

ROOT = os.path.dirname(os.path.dirname(os.path.abspath(__file__)))
REPO = os.environ.get("VERIF_REPO", "/repo")
HARNESS = os.path.join(ROOT, "harness")
VH = os.path.join(HARNESS, "target", "debug", "vh")
CLI_TARGET = os.path.join(HARNESS, "target-cli")
QMLUIC = os.path.join(CLI_TARGET, "debug", "qmluic")
SPEC = os.path.join(ROOT, "spec")
MOCKQT = os.path.join(ROOT, "mockqt")
VERIF_METATYPES = os.path.join(MOCKQT, "verif_metatypes.json")
VERIF_T_METATYPES = os.path.join(MOCKQT, "verif_t_metatypes.json")
QT5_METATYPES = os.path.join(REPO, "contrib", "metatypes")
TLA_JAR = "/opt/veriftools/tla/tla2tools.jar:/opt/veriftools/tla/CommunityModules-deps.jar"
NCPU = os.cpu_count() or 4


class ToolError(Exception):
    """Infrastructure failure: never a pass, never a violation (exit 2)."""


def log(*a):
    print(*a, file=sys.stderr, flush=True)


def cargo_env():
    e = dict(os.environ)
    e["CARGO_NET_OFFLINE"] = "true"
    e.pop("RUSTFLAGS", None)
    return e


def build_harness():
    """(Re)build the harness against /repo's current working tree, hook feature on."""
    lock = os.path.join(HARNESS, "Cargo.lock")
    if not os.path.exists(lock):
        shutil.copy(os.path.join(REPO, "Cargo.lock"), lock)
    r = subprocess.run(["cargo", "build", "--offline"], cwd=HARNESS, env=cargo_env(),
                       stdout=subprocess.PIPE, stderr=subprocess.STDOUT, text=True)
    if r.returncode != 0:
        raise ToolError("harness build failed:\n" + r.stdout[-4000:])
    return VH


def build_cli():
    """(Re)build the qmluic binary itself (no feature) from /repo's working tree."""
    r = subprocess.run(["cargo", "build", "--offline", "--manifest-path", os.path.join(REPO, "Cargo.toml"),
                        "--target-dir", CLI_TARGET, "--bin", "qmluic"], env=cargo_env(),
                       stdout=subprocess.PIPE, stderr=subprocess.STDOUT, text=True)
    if r.returncode != 0:
        raise ToolError("qmluic build failed:\n" + r.stdout[-4000:])
    return QMLUIC


def _translate_chunk(chunk, metatypes, deadline):
    """Run one vh process over a chunk; restart after a watchdog exit so every request is answered."""
    out = {}
    todo = list(chunk)
    while todo:
        args = [VH, "translate", "--deadline", str(deadline)]
        for m in metatypes:
            args += ["--metatypes", m]
        data = "".join(json.dumps(r) + "\n" for r in todo)
        scratch = tempfile.mkdtemp(prefix="vh-tmp-")        # file-based requests are materialised here; removed even after a watchdog exit
        try:
            p = subprocess.run(args, input=data, stdout=subprocess.PIPE, stderr=subprocess.PIPE, text=True, env=dict(os.environ, TMPDIR=scratch))
        finally:
            shutil.rmtree(scratch, ignore_errors=True)
        n = 0
        hung = None
        for line in p.stdout.split("\n"):      # not splitlines(): U+2028, U+0085, FF... may occur inside strings
            if not line.strip():
                continue
            d = json.loads(line)
            if d.get("timeout"):
                hung = todo[n]
                break
            out[json.dumps(d["id"])] = d["runs"]
            n += 1
        if hung is not None:
            out[json.dumps(hung["id"])] = {m: {"timeout": True} for m in hung.get("modes", ["generate"])}
            todo = todo[n + 1:]
            continue
        if p.returncode != 0 and n < len(todo):
            # hard crash (abort/stack overflow): attribute to the first unanswered request
            bad = todo[n]
            out[json.dumps(bad["id"])] = {m: {"crash": p.returncode, "stderr": p.stderr[-400:]}
                                           for m in bad.get("modes", ["generate"])}
            todo = todo[n + 1:]
            continue
        if n < len(todo):
            raise ToolError("vh answered %d of %d requests: %s" % (n, len(todo), p.stderr[-400:]))
        todo = []
    return out


def translate(reqs, metatypes=None, procs=None, deadline=10):
    """reqs: list of dicts with id, src, modes, ir...; returns {id: {mode: result}} keyed by the id itself."""
    if metatypes is None:
        metatypes = [QT5_METATYPES, VERIF_T_METATYPES]
    procs = procs or min(NCPU, 12)
    if not reqs:
        return {}
    k = max(1, min(procs, (len(reqs) + 49) // 50))
    chunks = [reqs[i::k] for i in range(k)]
    res = {}
    with ThreadPoolExecutor(k) as ex:
        for part in ex.map(lambda c: _translate_chunk(c, metatypes, deadline), chunks):
            res.update(part)
    return {json.loads(key): v for key, v in res.items()}


def run_batch(args, reqs, procs=8, chunk=100):
    """feed reqs (dicts with id) to a harness sub-command; a watchdog exit or crash is attributed to the first unanswered
    request ({"timeout": True} / {"crash": rc}) and the rest is resumed in a fresh process. Returns {id: response}"""
    def work(part):
        out, todo = {}, list(part)
        while todo:
            data = "".join(json.dumps(r) + "\n" for r in todo)
            p = subprocess.run(args, input=data, stdout=subprocess.PIPE, stderr=subprocess.PIPE, text=True)
            n = 0
            stopped = False
            for line in p.stdout.split("\n"):
                if not line.strip():
                    continue
                d = json.loads(line)
                if d.get("timeout"):
                    out[json.dumps(todo[n]["id"])] = d
                    stopped = True
                    break
                out[json.dumps(d["id"])] = d
                n += 1
            if stopped:
                todo = todo[n + 1:]
            elif n < len(todo):
                out[json.dumps(todo[n]["id"])] = {"crash": p.returncode, "stderr": p.stderr[-300:]}
                todo = todo[n + 1:]
            else:
                todo = []
        return out
    k = max(1, min(procs, (len(reqs) + chunk - 1) // chunk))
    res = {}
    with ThreadPoolExecutor(k) as ex:
        for part in ex.map(work, [reqs[i::k] for i in range(k)]):
            res.update(part)
    return {json.loads(key): v for key, v in res.items()}


# ---------------------------------------------------------------------------------------------
# TLC

class TlcResult:
    def __init__(self, rc, out, wall):
        self.rc = rc
        self.out = out
        self.wall = wall
        m = re.findall(r"(\d+) states generated, (\d+) distinct states found", out)
        self.generated = int(m[-1][0]) if m else 0
        self.distinct = int(m[-1][1]) if m else 0
        self.ok = "Model checking completed. No error has been found." in out or \
            ("Finished in" in out and "Error:" not in out and rc == 0)
        self.invariant = None
        m = re.search(r"Error: Invariant (\S+) is violated", out)
        if m:
            self.invariant = m.group(1)
        m = re.search(r"Error: Action property (\S+) is violated", out)
        if m:
            self.invariant = m.group(1)
        self.errors = [l for l in out.splitlines() if l.startswith("Error:")]
        # every reported invariant violation with the variable values of its (last) state: [(inv, {var: text})]
        self.violations = []
        lines = out.splitlines()
        for n, l in enumerate(lines):
            m = re.match(r"Error: Invariant (\S+) is violated", l)
            if not m:
                continue
            vals = {}
            j = n + 1
            if "initial state" not in l:
                while j < len(lines) and not lines[j].startswith("State "):
                    j += 1
                j += 1
            while j < len(lines) and lines[j].strip() and not lines[j].startswith(("Error:", "State ")):
                mm = re.match(r"^(?:/\\ )?(\w+) = (.*)$", lines[j])
                if mm:
                    vals[mm.group(1)] = mm.group(2)
                j += 1
            self.violations.append((m.group(1), vals))
        self.coverage = {}
        for m in re.finditer(r"^<(\w+) line \d+, col \d+ to line \d+, col \d+ of module (\w+)>: (\d+):(\d+)", out, re.M):
            name = m.group(1)
            self.coverage[name] = self.coverage.get(name, 0) + int(m.group(4))

    def printed(self, tag):
        """Values printed with PrintT(<<tag, json-string>>): returns decoded JSON list."""
        res = []
        pat = re.compile(r'^<<"%s", "(.*)">>$' % re.escape(tag))
        for line in self.out.splitlines():
            m = pat.match(line)
            if m:
                s = m.group(1)
                # TLC prints TLA+ strings with \" and \\ escapes
                s = s.replace('\\\\', '\x00').replace('\\"', '"').replace('\x00', '\\')
                res.append(json.loads(s))
        return res


def tlc(module, cfg=None, *, env=None, workers=4, simulate=None, depth=None, timeout=600, heap="4g",
        dfs=False, coverage=True, seed=None, extra=None, cwd=None):
    """Run TLC on spec/<module>.tla with spec/<cfg>. Returns TlcResult (never raises on violations)."""
    cwd = cwd or SPEC
    meta = tempfile.mkdtemp(prefix="tlc-")
    e = dict(os.environ)
    if env:
        e.update({k: str(v) for k, v in env.items()})
    jopts = ["-XX:+UseParallelGC", "-Xss1g", "-Xmx" + heap]
    if dfs:
        jopts.append("-Dtlc2.tool.queue.IStateQueue=StateDeque")
    cmd = ["java"] + jopts + ["-cp", TLA_JAR, "tlc2.TLC", "-metadir", meta, "-cleanup", "-noGenerateSpecTE",
                              "-workers", str(workers), "-config", (cfg or module) + ".cfg"]
    if coverage:
        cmd += ["-coverage", "1"]
    if simulate:
        cmd += ["-simulate", "num=%d" % simulate]
    if depth:
        cmd += ["-depth", str(depth)]
    if seed is not None:
        cmd += ["-seed", str(seed)]
    if extra:
        cmd += extra
    cmd.append(module + ".tla")
    t0 = time.time()
    try:
        p = subprocess.run(cmd, cwd=cwd, env=e, stdout=subprocess.PIPE, stderr=subprocess.STDOUT, text=True,
                           timeout=timeout)
        rc, out = p.returncode, p.stdout
    except subprocess.TimeoutExpired as ex:
        rc, out = 124, (ex.stdout or b"").decode("utf-8", "replace") if isinstance(ex.stdout, bytes) else (ex.stdout or "")
        out += "\nError: TLC timed out after %ds" % timeout
    finally:
        shutil.rmtree(meta, ignore_errors=True)
    return TlcResult(rc, out, time.time() - t0)


def tlc_must_pass(res, what):
    """A TLC run that is part of the machinery (model checking of the design, generators) must succeed."""
    if not res.ok:
        raise ToolError("%s: TLC did not complete cleanly (rc=%s)\n%s" % (what, res.rc, res.out[-3000:]))
    return res


# ---------------------------------------------------------------------------------------------
# known findings

def load_known():
    p = os.path.join(ROOT, "known_findings.json")
    if not os.path.exists(p):
        return []
    return json.load(open(p))


# ---------------------------------------------------------------------------------------------
# check context

class Check:
    def __init__(self, pid, tier, seed, level="model_checking"):
        self.pid = pid
        self.tier = tier
        self.seed = seed
        self.level = level
        self.t0 = time.time()
        self.violations = []
        self.known_hits = {}
        self.cov = {"evaluations": 0, "distinct_nontrivial": 0, "states": 0, "transitions": 0,
                    "traces_validated_against_impl": 0, "samples": [], "trusted_base": []}
        self.assumptions = []
        self._distinct = set()
        self.known = [k for k in load_known() if k.get("property") == pid and k.get("status") == "known"]
        self.work = tempfile.mkdtemp(prefix="verif-%s-" % pid)

    # -- counting
    def count(self, case, nontrivial=True):
        self.cov["evaluations"] += 1
        if nontrivial:
            h = hashlib.sha1(json.dumps(case, sort_keys=True, default=str).encode()).digest()[:10]
            self._distinct.add(h)

    def sample(self, s, limit=6):
        if len(self.cov["samples"]) < limit:
            self.cov["samples"].append(s)

    def add_tlc(self, res):
        self.cov["states"] += res.distinct
        self.cov["transitions"] += res.generated

    # -- verdicts
    def violation(self, summary, replay):
        n = len(self.violations)
        d = os.path.join(ROOT, "replays", self.pid)
        os.makedirs(d, exist_ok=True)
        path = os.path.join(d, "%s-%s-%d.json" % (self.tier, self.seed, n))
        replay = dict(replay)
        replay.setdefault("property", self.pid)
        replay.setdefault("summary", summary)
        with open(path, "w") as f:
            json.dump(replay, f, indent=1, default=str)
        self.violations.append((summary, path))
        if n < 20:
            print("VIOLATION property=%s replay=%s" % (self.pid, path), flush=True)
            log("  " + summary[:300])

    def known_finding(self, fid, what):
        """Report a listed finding once per id (KNOWN-FINDING line)."""
        if fid not in self.known_hits:
            self.known_hits[fid] = 0
            print("KNOWN-FINDING: property=%s %s %s" % (self.pid, fid, what), flush=True)
        self.known_hits[fid] += 1

    def is_known(self, fid):
        return any(k.get("id") == fid for k in self.known)

    def finish(self, rule, explanation=None, exhaustive=None):
        self.cov["distinct_nontrivial"] = len(self._distinct)
        self.cov["rule"] = rule
        if explanation:
            self.cov["explanation"] = explanation
        if exhaustive is not None:
            self.cov["exhaustive"] = exhaustive
        if self.known_hits:
            self.cov["known_findings_seen"] = self.known_hits
        ev = {
            "property_id": self.pid, "tier": self.tier, "seed": self.seed, "level": self.level,
            "coverage": self.cov, "assumptions": self.assumptions,
            "wall_s": round(time.time() - self.t0, 2), "violations": len(self.violations),
        }
        os.makedirs(os.path.join(ROOT, "evidence"), exist_ok=True)
        with open(os.path.join(ROOT, "evidence", self.pid + ".json"), "w") as f:
            json.dump(ev, f, indent=1, default=str)
        shutil.rmtree(self.work, ignore_errors=True)
        if len(self.violations) > 20:
            log("(%d violations in total, first 20 printed)" % len(self.violations))
        log("%s %s: evaluations=%d distinct=%d states=%d violations=%d wall=%.1fs" % (
            self.pid, self.tier, self.cov["evaluations"], self.cov["distinct_nontrivial"], self.cov["states"],
            len(self.violations), time.time() - self.t0))
        return 1 if self.violations else 0


def strip_nulls(x):
    """JSON for TLC: drop null members (the Json module has no null), keep everything else."""
    if isinstance(x, dict):
        return {k: strip_nulls(v) for k, v in x.items() if v is not None}
    if isinstance(x, list):
        return [strip_nulls(v) for v in x]
    return x


def write_ndjson(path, records):
    with open(path, "w") as f:
        for r in records:
            f.write(json.dumps(r) + "\n")


def sha(s):
    if s is None:
        return None
    if isinstance(s, str):
        s = s.encode()
    return hashlib.sha1(s).hexdigest()[:16]
