"""Object trees: rendering to QML, id strategies, reading a .ui back into an element tree, comparison with ObjTree.tla's FormOf."""
import json
import os
import random
import re
import xml.parsers.expat

from . import tlc, tlc_must_pass, write_ndjson, ToolError

PREFIX = {"QWidget": "widget", "QLabel": "label", "QPushButton": "pushButton", "QGroupBox": "groupBox", "QToolBar": "toolBar",
          "QMenuBar": "menuBar", "QFrame": "frame", "Label1": "label1", "Widget2": "widget2", "QDialog": "dialog",
          "QVBoxLayout": "vboxLayout", "QHBoxLayout": "hboxLayout", "QFormLayout": "formLayout", "QGridLayout": "gridLayout",
          "QSpacerItem": "spacerItem", "QAction": "action", "QMenu": "menu", "QTabWidget": "tabWidget",
          "MyMenu": "myMenu", "MyWidget": "myWidget", "MyRow": "myRow", "MyGrid": "myGrid"}
COMPONENTS = {"MyMenu.qml": "import qmluic.QtWidgets\nQMenu { QAction { id: inner } }\n",
              "MyWidget.qml": "import qmluic.QtWidgets\nQWidget { QLabel { id: innerLabel } }\n",
              "MyRow.qml": "import qmluic.QtWidgets\nQHBoxLayout { QLabel { id: innerRowLabel } }\n",
              "MyGrid.qml": "import qmluic.QtWidgets\nQGridLayout { columns: 2; QLabel { id: innerGridLabel } }\n"}
LAYOUTS = {"QVBoxLayout", "QHBoxLayout", "QFormLayout", "QGridLayout", "MyRow", "MyGrid"}


def kind(cls):
    if cls in LAYOUTS:
        return "layout"
    return {"QSpacerItem": "spacer", "QAction": "action", "QMenu": "menu", "MyMenu": "menu", "QTabWidget": "tab"}.get(cls, "widget")


def tlc_trees(chk, size, limit, seed, which="shape"):
    res = tlc("GenTree", env={"SIZE": size, "LIMIT": limit, "WHICH": which}, workers=4, seed=seed, coverage=False, timeout=900)
    tlc_must_pass(res, "GenTree")
    chk.add_tlc(res)
    out = res.printed("TREE")
    out.sort(key=lambda t: json.dumps(t, sort_keys=True))
    return [t["tree"] for t in out]


def walk(t, f, parent=None):
    f(t, parent)
    for k in t["kids"]:
        walk(k, f, t)


def nodes(t):
    out = []
    walk(t, lambda n, p: out.append((n, p)))
    return out


def clone(t):
    return json.loads(json.dumps(t))


def assign_ids(t, strategy, r):
    """returns a copy with ids (and possibly explicit action lists) assigned"""
    t = clone(t)
    ns = [n for n, _ in nodes(t)]
    if strategy == "anon":
        return t
    if strategy == "all":
        for i, n in enumerate(ns):
            n["id"] = "n%d" % i
        return t
    if strategy == "some":
        for i, n in enumerate(ns):
            if r.random() < 0.5:
                n["id"] = "n%d" % i
        return t
    if strategy == "adversarial":
        # ids that look like generated names of the classes present (label, label1, widget2, ...)
        pres = sorted({PREFIX[n["cls"]] for n in ns})
        cands = [p + s for p in pres for s in ("", "1", "2", "3")] + ["action1", "label1", "widget2", "separator1", "separator", "item", "widget"]
        r.shuffle(cands)
        for n in ns:
            if cands and r.random() < 0.45:
                n["id"] = cands.pop()
        return t
    if strategy == "members":
        # ids spelled like properties / methods / signals of the classes that will refer to them (an id shadows the implicit-this lookup)
        cands = ["text", "buddy", "enabled", "windowTitle", "close", "show", "clear", "indent", "title", "parent", "font", "update", "hide", "setText", "linkActivated", "objectName"]
        r.shuffle(cands)
        for n in ns:
            if cands and r.random() < 0.7:
                n["id"] = cands.pop()
        return t
    if strategy == "exotic":
        # ids with characters an ECMAScript identifier may hold and a C identifier may not ($, letters outside ASCII), and pairs that differ
        # only in such a character: an id is the object name, verbatim
        cands = ["$nameEdit", "_nameEdit", "gr\u00f6\u00dfe", "gr__e", "\u540d\u524d1", "x$", "x_", "$", "_", "$$", "\u00e9", "e\u0301", "\u03a9mega", "a$b", "a_b"]
        r.shuffle(cands)
        for n in ns:
            if cands and r.random() < 0.8:
                n["id"] = cands.pop()
        return t
    if strategy == "dup":
        if len(ns) >= 2:
            a, b = r.sample(ns, 2)
            a["id"] = b["id"] = "dup"
        return t
    if strategy == "actions":
        # ids everywhere, then an explicit actions list on some widget-like nodes (a permutation of action-like ids)
        for i, n in enumerate(ns):
            n["id"] = "n%d" % i
        acts = [n for n in ns if kind(n["cls"]) in ("action", "menu") and n is not t]
        for n in ns:
            if kind(n["cls"]) in ("widget", "menu", "tab") and acts and r.random() < 0.5:
                pick = r.sample(acts, r.randint(1, min(3, len(acts))))
                pick = [a for a in pick if a is not n and not contains(a, n)]
                if pick:
                    n["acts"] = [a["id"] for a in pick]
                    n["_actkinds"] = [("sep" if a["sep"] else kind(a["cls"])) for a in pick]
        return t
    raise ValueError(strategy)


def contains(a, n):
    return any(x is n for x, _ in nodes(a))


def render(t, ind="", extra=None):
    """QML text; extra: {id(node): [binding lines]}"""
    lines = ["%s%s {" % (ind, t["cls"])]
    if t["id"]:
        lines.append("%s  id: %s" % (ind, t["id"]))
    if t["sep"]:
        lines.append("%s  separator: true" % ind)
    if t.get("acts"):
        refs = []
        for a, k in zip(t["acts"], t["_actkinds"]):
            refs.append(a + ".menuAction()" if k == "menu" else a)
        lines.append("%s  actions: [%s]" % (ind, ", ".join(refs)))
    for b in (extra or {}).get(id(t), []):
        lines.append("%s  %s" % (ind, b))
    for k in t["kids"]:
        lines.append(render(k, ind + "  ", extra))
    lines.append(ind + "}")
    return "\n".join(lines)


def document(t, extra=None):
    return "import qmluic.QtWidgets\n" + render(t, "", extra) + "\n"


def uses_components(t):
    return any(n["cls"] in ("MyMenu", "MyWidget", "MyRow", "MyGrid") for n, _ in nodes(t))


def request(i, t, modes=("generate",), extra=None, **kw):
    """translate request for a tree document; documents that instantiate QML components are materialised as files"""
    q = document(t, extra)
    r = {"id": i, "type_name": "Doc", "modes": list(modes)}
    r.update(kw)
    if uses_components(t):
        r["files"] = dict(COMPONENTS, **{"Doc.qml": q})
        r["path"] = "Doc.qml"
    else:
        r["src"] = q
    return r


def strip_private(t):
    t = {k: v for k, v in t.items() if not k.startswith("_")}
    t["kids"] = [strip_private(k) for k in t["kids"]]
    return t


def expect_forms(chk, items):
    """items: [(id, tree)] -> {id: {accepted, form, distinct...}} from ObjTree.tla"""
    path = os.path.join(chk.work, "trees-%d.ndjson" % len(os.listdir(chk.work)))
    write_ndjson(path, [{"id": i, "tree": strip_private(t)} for i, t in items])
    res = tlc("TreeExpect", env={"TREES": path}, workers=8, coverage=False, timeout=1800, heap="8g")
    tlc_must_pass(res, "TreeExpect")
    chk.add_tlc(res)
    out = {r["id"]: r for r in res.printed("FORM")}
    if len(out) != len(items):
        raise ToolError("TreeExpect answered %d of %d" % (len(out), len(items)))
    return out


# ---------------------------------------------------------------------------------------------
# reading a .ui

def parse_ui(ui_xml):
    """-> dict(root=element tree, cls=<class> text, custom=[...], all=[elements in document order]).
    element: {el, cls, name, item: attrs|None, adds: [names], kids: [...], props: {name: n}}"""
    stack = []
    root = {"el": "ui", "kids": [], "adds": [], "props": {}}
    cur = [root]
    info = {"cls": None, "all": [], "custom": [], "text": []}
    pending_item = [None]
    path = []
    p = xml.parsers.expat.ParserCreate()
    p.buffer_text = True

    def start(tag, attrs):
        path.append(tag)
        if tag in ("widget", "layout", "spacer", "action"):
            e = {"el": tag, "cls": attrs.get("class", {"spacer": "QSpacerItem", "action": "QAction"}.get(tag)), "name": attrs.get("name"),
                 "item": pending_item[0], "adds": [], "kids": [], "props": {}, "attrs": dict(attrs)}
            pending_item[0] = None
            cur[-1]["kids"].append(e)
            cur.append(e)
            info["all"].append(e)
        elif tag == "item" and cur[-1].get("el") == "layout":
            pending_item[0] = dict(attrs)
        elif tag == "addaction":
            cur[-1]["adds"].append(attrs.get("name"))
        elif tag in ("property", "attribute") and len(cur) > 1 and path[-2] in ("widget", "layout", "spacer", "action"):
            key = ("@" if tag == "attribute" else "") + attrs.get("name", "")
            cur[-1]["props"][key] = cur[-1]["props"].get(key, 0) + 1
        info["text"].append("")

    def text(s):
        if info["text"]:
            info["text"][-1] += s

    def end(tag):
        txt = info["text"].pop()
        if tag in ("widget", "layout", "spacer", "action"):
            cur.pop()
        elif tag == "class" and path[-2:-1] == ["ui"]:
            info["cls"] = txt
        elif tag in ("class", "extends", "header") and path[-2:-1] == ["customwidget"]:
            info.setdefault("_cw", {})[tag] = txt
        elif tag == "customwidget":
            cw = info.pop("_cw", {})
            info["custom"].append((cw.get("class"), cw.get("extends"), cw.get("header")))
        elif tag == "cstring" and len(cur) > 1:
            cur[-1].setdefault("cstrings", []).append(txt)
        path.pop()
    p.StartElementHandler = start
    p.CharacterDataHandler = text
    p.EndElementHandler = end
    p.Parse(ui_xml, True)
    info["root"] = root["kids"][0] if root["kids"] else None
    info["nroots"] = len(root["kids"])
    return info


def compare_form(exp, act, path="root"):
    """expected element (FormOf) vs actual element -> list of difference messages"""
    diffs = []
    if act is None:
        return ["%s: element missing" % path]
    if exp["el"] != act["el"]:
        diffs.append("%s: element <%s>, expected <%s>" % (path, act["el"], exp["el"]))
    if exp["el"] in ("widget", "layout") and exp["cls"] != act["cls"]:
        diffs.append("%s: class %s, expected %s" % (path, act["cls"], exp["cls"]))
    if exp["id"]:
        if act["name"] != exp["id"]:
            diffs.append("%s: name %s, expected the id %s verbatim" % (path, act["name"], exp["id"]))
    elif not re.fullmatch(re.escape(exp["prefix"]) + r"\d*", act["name"] or ""):
        diffs.append("%s: generated name %s is not derived from the class (prefix %s)" % (path, act["name"], exp["prefix"]))
    if bool(exp["item"]) != (act["item"] is not None):
        diffs.append("%s: %s wrapped in <item>" % (path, "not" if exp["item"] else "unexpectedly"))
    if len(exp["kids"]) != len(act["kids"]):
        diffs.append("%s: %d child elements %s, expected %d %s" % (path, len(act["kids"]), [(k["el"], k["name"]) for k in act["kids"]],
                                                                    len(exp["kids"]), [(k["el"], k["cls"]) for k in exp["kids"]]))
    else:
        want = []
        for a in exp["adds"]:
            if a["a"] == "sep":
                want.append("separator")
            elif a["a"] == "child":
                want.append(act["kids"][a["pos"] - 1]["name"])
            else:
                want.append(a["id"])
        if want != act["adds"]:
            diffs.append("%s: addaction list %s, expected %s" % (path, act["adds"], want))
        for i, (e, a) in enumerate(zip(exp["kids"], act["kids"])):
            diffs += compare_form(e, a, "%s/%d" % (path, i))
    return diffs
