"""AST (DESIGN 10a) -> QML text; seeded random typed program generator; value spelling helpers."""
import json
import random

# ---------------------------------------------------------------------------------------------
# rendering

def qstr(s):
    return json.dumps(s, ensure_ascii=False)


def r_expr(e):
    k = e["k"]
    if k == "int":
        return str(e["v"])
    if k == "dbl":
        return repr(e["q"] / 4.0)
    if k == "bool":
        return "true" if e["bv"] else "false"
    if k == "str":
        return qstr(e["sv"])
    if k == "null":
        return "null"
    if k == "enum":
        return "TSource." + e["v"]
    if k == "obj":
        return e["n"]
    if k == "lv":
        return e["n"]
    if k == "rd":
        o = e["o"]
        base = r_expr(o) if o["k"] in ("obj", "rd", "lv") else "(" + r_expr(o) + ")"
        return base + "." + e["p"]
    if k == "un":
        return "(%s(%s))" % (e["op"], r_expr(e["a"]))
    if k == "bin":
        return "((%s) %s (%s))" % (r_expr(e["a"]), e["op"], r_expr(e["b"]))
    if k == "and":
        return "((%s) && (%s))" % (r_expr(e["a"]), r_expr(e["b"]))
    if k == "or":
        return "((%s) || (%s))" % (r_expr(e["a"]), r_expr(e["b"]))
    if k == "tern":
        return "((%s) ? (%s) : (%s))" % (r_expr(e["c"]), r_expr(e["a"]), r_expr(e["b"]))
    if k == "cast":
        return "((%s) as %s)" % (r_expr(e["a"]), e["ty"])
    if k == "call":
        if e["f"] == "isEmpty":
            return "(%s).isEmpty()" % r_expr(e["args"][0])
        return "%s(%s)" % (e["f"], ", ".join(r_expr(a) for a in e["args"]))
    if k == "sub":
        return "(%s)[%s]" % (r_expr(e["a"]), r_expr(e["i"]))
    if k == "arr":
        return "[%s]" % ", ".join(r_expr(a) for a in e["args"])
    raise ValueError("expr kind " + k)


def r_seq(stmts, ind):
    """a statement list; a declaration marked `join` becomes a further declarator of the declaration before it (`let a = x, b = a + 1;`)"""
    out = []
    for x in stmts:
        if x.get("join") and out and x["k"] in ("let", "const") and out[-1][0] == x["k"]:
            out[-1] = (x["k"], out[-1][1][:-1] + ", %s = %s;" % (x["n"], r_expr(x["e"])))
        else:
            out.append((x["k"], r_stmt(x, ind)))
    return "".join(t + "\n" for _, t in out)


def r_stmt(s, ind=""):
    k = s["k"]
    if k == "expr":
        return ind + r_expr(s["e"]) + ";"
    if k in ("let", "const"):
        return "%s%s %s = %s;" % (ind, k, s["n"], r_expr(s["e"]))
    if k == "lett":
        return "%slet %s: %s%s;" % (ind, s["n"], s["ty"], "" if s["e"]["k"] == "none" else " = " + r_expr(s["e"]))
    if k == "asg":
        return "%s%s = %s;" % (ind, s["n"], r_expr(s["e"]))
    if k == "asgsub":
        return "%s%s[%s] = %s;" % (ind, s["n"], r_expr(s["i"]), r_expr(s["e"]))
    if k == "wprop":
        o = s["o"]
        base = r_expr(o) if o["k"] in ("obj", "rd", "lv") else "(" + r_expr(o) + ")"
        return "%s%s.%s = %s;" % (ind, base, s["p"], r_expr(s["e"]))
    if k == "mcall":
        o = s["o"]
        base = r_expr(o) if o["k"] in ("obj", "rd", "lv") else "(" + r_expr(o) + ")"
        return "%s%s.%s(%s);" % (ind, base, s["m"], ", ".join(r_expr(a) for a in s["args"]))
    if k == "letc":
        return "%slet %s = %s.%s(%s);" % (ind, s["n"], r_expr(s["o"]), s["m"], ", ".join(r_expr(a) for a in s["args"]))
    if k == "log":
        return "%sconsole.%s(%s);" % (ind, s["lv"], ", ".join(r_expr(a) for a in s["args"]))
    if k == "ret":
        return ind + "return " + r_expr(s["e"]) + ";"
    if k == "retv":
        return ind + "return;"
    if k == "break":
        return ind + "break;"
    if k == "block":
        return ind + "{\n" + r_seq(s["b"], ind + "  ") + ind + "}"
    if k == "if":
        t = "%sif (%s)\n%s" % (ind, r_expr(s["c"]), r_stmt(s["a"], ind + "  "))
        if s["b"]["k"] != "none":
            t += "\n%selse\n%s" % (ind, r_stmt(s["b"], ind + "  "))
        return t
    if k == "switch":
        clauses = [("case %s:" % r_expr(c["label"]), c["body"]) for c in s["cases"]]
        if s["def"]["k"] != "none":
            clauses.insert(s["def"]["pos"], ("default:", s["def"]["body"]))
        t = "%sswitch (%s) {\n" % (ind, r_expr(s["v"]))
        for head, body in clauses:
            t += ind + head + "\n" + r_seq(body, ind + "  ")
        return t + ind + "}"
    raise ValueError("stmt kind " + k)


def with_comments(text, style):
    """the same body with a comment between every two lines (style 1: block comments, 2: line comments, 3: trailing line comments): comments never matter"""
    lines = text.split("\n")
    if len(lines) < 2:
        return text
    out = []
    for i, l in enumerate(lines):
        if style == 3 and i < len(lines) - 1 and not l.rstrip().endswith(("{", ":")) and l.strip():
            out.append(l + " // c%d" % i)
        else:
            out.append(l)
        if i < len(lines) - 1 and style in (1, 2):
            out.append("      /* c%d */" % i if style == 1 else "      // c%d" % i)
    return "\n".join(out)


def r_body(body, ind="    "):
    """Right-hand side of a binding: bare expression or a block."""
    if body["k"] == "expr":
        return r_expr(body["e"])
    if body["k"] == "block":
        return r_stmt(body, ind).lstrip()
    return "{\n" + r_stmt(body, ind + "  ") + "\n" + ind + "}"


def r_handler(h, ind="    "):
    params = ", ".join("%s: %s" % (p["n"], p["ty"]) for p in h.get("params", []))
    body = h["body"]
    blk = r_stmt(body if body["k"] == "block" else {"k": "block", "b": [body]}, ind).lstrip()
    form = h.get("form", "function")
    if form == "arrow":
        return "(%s) => %s" % (params, blk)
    if form == "block":
        return blk
    return "function(%s) %s" % (params, blk)


def has_dynamic(e):
    """Does the program read any property (otherwise it is a constant and lands in the .ui)."""
    if isinstance(e, dict):
        if e.get("k") == "rd":
            return True
        return any(has_dynamic(v) for v in e.values())
    if isinstance(e, list):
        return any(has_dynamic(v) for v in e)
    return False


def count_nodes(e):
    if isinstance(e, dict):
        return (1 if "k" in e else 0) + sum(count_nodes(v) for v in e.values())
    if isinstance(e, list):
        return sum(count_nodes(v) for v in e)
    return 0


# ---------------------------------------------------------------------------------------------
# values printed by Lang.tla's Show()

ENUM_VALS = {"ModeA": 0, "ModeB": 1, "ModeC": 2, "OptX": 1, "OptY": 2, "OptZ": 4}


def canon_from_show(s):
    """Show() spelling -> the string mock::show prints for the same value."""
    if s in ("void", "undef"):
        return s
    t, _, rest = s.partition(":")
    if t in ("i", "u", "e"):
        return rest
    if t == "d":
        return float(int(rest) / 4.0).hex()
    if t == "b":
        return "true" if rest == "1" else "false"
    if t == "s":
        return json.dumps(rest)
    if t == "p":
        return rest
    if t == "l":
        n, _, items = rest.partition(":")
        xs = items.split("|") if int(n) else []
        return "[" + ",".join(json.dumps(x) for x in xs) + "]"
    raise ValueError(s)


def canon_hexfloat(s):
    """normalise a C printf %a spelling to Python's float.hex() spelling"""
    try:
        return float.fromhex(s).hex()
    except ValueError:
        return s


# ---------------------------------------------------------------------------------------------
# seeded random typed generator (same JSON as the TLC generators; depth beyond TLC's sets)

class Gen:
    def __init__(self, seed):
        self.r = random.Random(seed)

    def obj(self):
        return {"k": "obj", "n": self.r.choice(["a", "b"])}

    def rd(self, p):
        return {"k": "rd", "o": self.obj(), "p": p}

    def int_(self, d, locs=()):
        r = self.r
        if d <= 0 or r.random() < 0.15:
            c = r.random()
            ints = [n for n, t in locs if t == "int"]
            if ints and c < 0.3:
                return {"k": "lv", "n": r.choice(ints)}
            if c < 0.55:
                return self.rd(r.choice(["ival", "ival", "jval"]))
            return {"k": "int", "v": r.choice([0, 1, 2, 3, 5, 7, 31, 100])}
        k = r.choice(["bin"] * 6 + ["neg", "not", "tern", "shift", "minmax", "cast", "viaptr"])
        if k == "neg":
            return {"k": "un", "op": "-", "a": self.int_(d - 1, locs)}
        if k == "not":
            return {"k": "un", "op": "~", "a": self.int_(d - 1, locs)}
        if k == "tern":
            return {"k": "tern", "c": self.bool_(d - 1, locs), "a": self.int_(d - 1, locs), "b": self.int_(d - 1, locs)}
        if k == "shift":
            return {"k": "bin", "op": r.choice(["<<", ">>"]), "a": self.int_(d - 1, locs),
                    "b": {"k": "int", "v": r.choice([0, 1, 2, 5])}}
        if k == "minmax":
            # at least one non-literal argument keeps template deduction on int (F6 is about uint + literal)
            return {"k": "call", "f": r.choice(["Math.max", "Math.min"]), "args": [self.rd("ival"), self.int_(d - 1, locs)]}
        if k == "cast":
            c = r.random()
            if c < 0.4:
                return {"k": "cast", "a": self.bool_(d - 1, locs), "ty": "int"}
            if c < 0.7:
                return {"k": "cast", "a": self.rd("mode"), "ty": "int"}
            return {"k": "cast", "a": self.rd("uval"), "ty": "int"}
        if k == "viaptr":
            p = {"k": "rd", "o": self.obj(), "p": "ptr"}
            return {"k": "tern", "c": {"k": "bin", "op": "!=", "a": p, "b": {"k": "null"}},
                    "a": {"k": "rd", "o": p, "p": r.choice(["ival", "jval"])}, "b": self.int_(d - 1, locs)}
        return {"k": "bin", "op": r.choice(["+", "-", "*", "/", "%", "&", "|", "^"]),
                "a": self.int_(d - 1, locs), "b": self.int_(d - 1, locs)}

    def bool_(self, d, locs=()):
        r = self.r
        if d <= 0 or r.random() < 0.15:
            c = r.random()
            if c < 0.5:
                return self.rd(r.choice(["flag", "flagB"]))
            return {"k": "bool", "bv": r.random() < 0.5}
        k = r.choice(["cmp", "cmp", "cmp", "and", "or", "not", "scmp", "bit", "ecmp"])
        if k == "cmp":
            return {"k": "bin", "op": r.choice(["==", "!=", "<", "<=", ">", ">="]),
                    "a": self.int_(d - 1, locs), "b": self.int_(d - 1, locs)}
        if k == "scmp":
            return {"k": "bin", "op": r.choice(["==", "!="]), "a": self.str_(d - 1, locs), "b": self.str_(d - 1, locs)}
        if k == "ecmp":
            return {"k": "bin", "op": r.choice(["==", "!="]), "a": self.rd("mode"),
                    "b": {"k": "enum", "e": "Mode", "v": r.choice(["ModeA", "ModeB", "ModeC"])}}
        if k == "not":
            return {"k": "un", "op": "!", "a": self.bool_(d - 1, locs)}
        if k == "bit":
            return {"k": "bin", "op": r.choice(["&", "|", "^"]), "a": self.bool_(d - 1, locs), "b": self.bool_(d - 1, locs)}
        return {"k": k, "a": self.bool_(d - 1, locs), "b": self.bool_(d - 1, locs)}

    def str_(self, d, locs=()):
        r = self.r
        if d <= 0 or r.random() < 0.3:
            if r.random() < 0.6:
                return self.rd(r.choice(["text", "textB"]))
            return {"k": "str", "sv": r.choice(["", "x", "yz", "q r"])}
        k = r.choice(["cat", "cat", "tern"])
        if k == "tern":
            return {"k": "tern", "c": self.bool_(d - 1, locs), "a": self.str_(d - 1, locs), "b": self.str_(d - 1, locs)}
        a, b = self.str_(d - 1, locs), self.str_(d - 1, locs)
        if a["k"] == "str" and b["k"] == "str":
            b = self.rd("text")
        return {"k": "bin", "op": "+", "a": a, "b": b}

    # value-returning statement bodies (every path ends in a return or in a final expression statement)
    def body(self, d):
        r = self.r
        k = r.choice(["expr", "lets", "ifret", "switch", "scope", "ifelse_cv"])
        if k == "expr":
            return {"k": "expr", "e": self.int_(d)}
        if k == "lets":
            return {"k": "block", "b": [
                {"k": "let", "n": "v", "e": self.int_(d - 1)},
                {"k": "const", "n": "w", "e": {"k": "bin", "op": "+", "a": {"k": "lv", "n": "v"}, "b": self.int_(d - 1, [("v", "int")])}},
                {"k": "asg", "n": "v", "e": self.int_(d - 1, [("v", "int"), ("w", "int")])},
                {"k": "ret", "e": {"k": "bin", "op": "-", "a": {"k": "lv", "n": "w"}, "b": {"k": "lv", "n": "v"}}}]}
        if k == "ifret":
            return {"k": "block", "b": [
                {"k": "if", "c": self.bool_(d - 1),
                 "a": {"k": "block", "b": [{"k": "ret", "e": self.int_(d - 1)}]},
                 "b": {"k": "if", "c": self.bool_(d - 1), "a": {"k": "block", "b": [{"k": "expr", "e": self.int_(d - 1)}]},
                       "b": {"k": "block", "b": [{"k": "ret", "e": {"k": "int", "v": 3}}]}}}]}
        if k == "ifelse_cv":
            return {"k": "block", "b": [
                {"k": "let", "n": "x", "e": self.int_(d - 1)},
                {"k": "if", "c": self.bool_(d - 1, [("x", "int")]),
                 "a": {"k": "block", "b": [{"k": "asg", "n": "x", "e": self.int_(d - 1, [("x", "int")])}]},
                 "b": {"k": "none"}},
                {"k": "expr", "e": {"k": "lv", "n": "x"}}]}
        if k == "scope":
            return {"k": "block", "b": [
                {"k": "let", "n": "x", "e": self.int_(d - 1)},
                {"k": "block", "b": [{"k": "let", "n": "x", "e": self.int_(d - 1)},
                                     {"k": "asg", "n": "x", "e": {"k": "bin", "op": "+", "a": {"k": "lv", "n": "x"}, "b": {"k": "int", "v": 1}}}]},
                {"k": "block", "b": [{"k": "asg", "n": "x", "e": {"k": "bin", "op": "*", "a": {"k": "lv", "n": "x"}, "b": {"k": "int", "v": 2}}}]},
                {"k": "ret", "e": {"k": "lv", "n": "x"}}]}
        cases = []
        labels = r.sample([0, 1, 2, 5, 7], r.choice([1, 2, 3]))
        for lab in labels:
            bk = r.choice(["empty", "ret", "cbreak", "exprbreak", "fall"])
            body = {"empty": [], "ret": [{"k": "ret", "e": self.int_(d - 1)}],
                    "cbreak": [{"k": "if", "c": self.rd("flag"), "a": {"k": "break"}, "b": {"k": "none"}}, {"k": "ret", "e": self.int_(d - 1)}],
                    "exprbreak": [{"k": "let", "n": "q" + str(lab), "e": self.int_(d - 1)}, {"k": "break"}],
                    "fall": [{"k": "let", "n": "f" + str(lab), "e": {"k": "int", "v": 4}}]}[bk]
            cases.append({"label": {"k": "int", "v": lab}, "body": body})
        dfl = {"k": "none"}
        if r.random() < 0.7:
            dfl = {"k": "def", "pos": r.randint(0, len(cases)),
                   "body": r.choice([[], [{"k": "ret", "e": {"k": "int", "v": 50}}], [{"k": "break"}]])}
        return {"k": "block", "b": [{"k": "switch", "v": self.int_(1), "cases": cases, "def": dfl},
                                    {"k": "ret", "e": self.int_(d - 1)}]}

    def program(self, depth):
        r = self.r
        c = r.random()
        if c < 0.5:
            return {"prop": "ival", "body": {"k": "expr", "e": self.int_(depth)}}
        if c < 0.65:
            return {"prop": "flag", "body": {"k": "expr", "e": self.bool_(depth)}}
        if c < 0.75:
            return {"prop": "text", "body": {"k": "expr", "e": self.str_(depth)}}
        return {"prop": "ival", "body": self.body(max(2, depth - 1))}
