"""Compiling and running generated support headers against the mock Qt (DESIGN 4.3)."""
import json
import os
import subprocess
import xml.parsers.expat

from . import MOCKQT, VERIF_METATYPES, ToolError

CXXFLAGS = ["-std=c++17", "-O0", "-w", "-fsanitize=return", "-ftrivial-auto-var-init=pattern"]


def gen_mock_classes(dst, metatypes=VERIF_METATYPES):
    r = subprocess.run(["python3", os.path.join(MOCKQT, "gen_mock.py"), metatypes, dst],
                       stdout=subprocess.PIPE, stderr=subprocess.STDOUT, text=True)
    if r.returncode != 0:
        raise ToolError("gen_mock failed: " + r.stdout)


def ui_members(ui_xml):
    """[(class, name, element)] for every named widget/layout/spacer/action of a .ui, in document order."""
    out = []
    p = xml.parsers.expat.ParserCreate()

    def start(tag, attrs):
        if tag in ("widget", "layout", "action", "spacer") and "name" in attrs:
            cls = attrs.get("class") or {"action": "QAction", "spacer": "QSpacerItem"}.get(tag, "QObject")
            out.append((cls, attrs["name"], tag))
    p.StartElementHandler = start
    p.Parse(ui_xml, True)
    return out


def ui_header(type_name, ui_xml):
    """ui_<name>.h: one pointer member per declared object, of the class the form declares (what uic would emit).
    The root widget is not a member of Ui::X in uic output either (it is the widget setupUi is applied to)."""
    members = ui_members(ui_xml)
    lines = ["#pragma once", '#include "mockqt_classes.h"', "namespace Ui {", "class %s {" % type_name, "public:"]
    for cls, name, _ in members[1:]:
        lines.append("    %s *%s = nullptr;" % (cls, name))
    lines += ["};", "}"]
    return "\n".join(lines) + "\n", members


def load_classes(metatypes=VERIF_METATYPES):
    units = json.load(open(metatypes))
    return {c["className"]: c for u in units for c in u["classes"]}


def all_properties(classes, cls):
    """properties of cls including inherited ones: [(name, type, declaring class)]"""
    res = []
    seen = set()
    todo = [cls]
    while todo:
        c = todo.pop(0)
        if c in seen or c not in classes:
            continue
        seen.add(c)
        for p in classes[c].get("properties", []):
            res.append((p["name"], p["type"], c))
        todo += [s["name"] for s in classes[c]["superClasses"]]
    return res


def setter_table(classes, objects):
    """C++ function mock_set(obj, prop, shown-value) writing the backing field directly (no signal).
    objects: [(varname, class)]; pointer values are resolved among these by name."""
    o = ["static QObject *mock_find(const std::string &n);",
         "static bool mock_set(const std::string &obj, const std::string &prop, const std::string &val) {",
         "    const std::string v = val.substr(val.find(':') + 1);"]
    for var, cls in objects:
        for name, ty, owner in all_properties(classes, cls):
            cond = '    if (obj == "%s" && prop == "%s") { ' % (var, name)
            f = "%s.%s_" % (var, name)
            if ty in ("int",):
                o.append(cond + "%s = std::stoi(v); return true; }" % f)
            elif ty == "uint":
                o.append(cond + "%s = static_cast<uint>(std::stoul(v)); return true; }" % f)
            elif ty in ("double", "qreal"):
                o.append(cond + "%s = std::stoi(v) / 4.0; return true; }" % f)
            elif ty == "bool":
                o.append(cond + '%s = (v == "1"); return true; }' % f)
            elif ty == "QString":
                o.append(cond + "%s = QString(v); return true; }" % f)
            elif ty == "QStringList":
                o.append(cond + "%s.clear(); { std::string items = v.substr(v.find(':') + 1); size_t n = std::stoul(v); size_t p = 0; "
                         "for (size_t i = 0; i < n; ++i) { size_t q = items.find('|', p); %s.push_back(QString(items.substr(p, q == std::string::npos ? q : q - p))); p = q + 1; } } return true; }" % (f, f))
            elif ty.endswith("*"):
                o.append(cond + "%s = dynamic_cast<%s>(mock_find(v)); return true; }" % (f, ty))
            elif any(e["name"] == ty and e.get("isFlag") for e in classes[owner]["enums"]):
                o.append(cond + "%s = %s::%s::fromInt(std::stoi(v)); return true; }" % (f, owner, ty))
            elif any(e["name"] == ty for e in classes[owner]["enums"]):
                o.append(cond + "%s = static_cast<%s::%s>(std::stoi(v)); return true; }" % (f, owner, ty))
    o += ["    return false;", "}"]
    o.append("static QObject *mock_find(const std::string &n) {")
    for var, cls in objects:
        o.append('    if (n == "%s") return &%s;' % (var, var))
    o += ["    return nullptr;", "}"]
    return "\n".join(o) + "\n"


def compile_run(workdir, name, files, stdin_text, timeout=120, extra_flags=()):
    """files: {filename: text}; main.cpp must be among them. Returns (compile_rc, compile_err, run_rc, stdout, stderr)."""
    d = os.path.join(workdir, name)
    os.makedirs(d, exist_ok=True)
    for fn, text in files.items():
        with open(os.path.join(d, fn), "w") as f:
            f.write(text)
    exe = os.path.join(d, "m")
    c = subprocess.run(["g++"] + CXXFLAGS + list(extra_flags) + ["-I", d, "-I", workdir, "-I", MOCKQT, "-I", os.path.join(MOCKQT, "inc"),
                        "-o", exe, os.path.join(d, "main.cpp")], stdout=subprocess.PIPE, stderr=subprocess.PIPE, text=True)
    if c.returncode != 0:
        return c.returncode, c.stderr, None, "", ""
    try:
        # the program under test may print bytes that are not UTF-8 (a mis-escaped literal): that is data
        r = subprocess.run([exe], input=stdin_text.encode(), stdout=subprocess.PIPE, stderr=subprocess.PIPE, timeout=timeout)
        return 0, "", r.returncode, r.stdout.decode("utf-8", "replace"), r.stderr.decode("utf-8", "replace")
    except subprocess.TimeoutExpired:
        return 0, "", -999, "", "timeout"


def syntax_check(workdir, name, files, extra_flags=()):
    d = os.path.join(workdir, name)
    os.makedirs(d, exist_ok=True)
    for fn, text in files.items():
        with open(os.path.join(d, fn), "w") as f:
            f.write(text)
    c = subprocess.run(["g++", "-std=c++17", "-fsyntax-only", "-Wall", "-Werror=return-type"] + list(extra_flags) +
                       ["-I", d, "-I", workdir, "-I", MOCKQT, "-I", os.path.join(MOCKQT, "inc"), os.path.join(d, "main.cpp")],
                       stdout=subprocess.PIPE, stderr=subprocess.PIPE, text=True)
    return c.returncode, c.stderr
