"""Program pipelines shared by C01/C05/C06/C13/C16: TLC generators, the Lang.tla oracle, documents."""
import json
import os

from . import tlc, tlc_must_pass, write_ndjson, translate, VERIF_METATYPES, ToolError, log
from . import lang


def tlc_programs(chk, module, limit, seed, workers=4):
    res = tlc(module, env={"LIMIT": limit}, workers=workers, seed=seed, coverage=False, timeout=600)
    tlc_must_pass(res, module)
    chk.add_tlc(res)
    progs = res.printed("PROG")
    if len(progs) != res.distinct:
        raise ToolError("%s: %d programs printed, %d states" % (module, len(progs), res.distinct))
    progs.sort(key=lambda p: json.dumps(p, sort_keys=True))
    return progs


def expect(chk, progs, workers=8):
    """progs: list with 'id' and 'body' (and 'params'); returns {id: [rows]} from Lang.tla via Expect.tla."""
    path = os.path.join(chk.work, "progs-%d.ndjson" % len(os.listdir(chk.work)))
    write_ndjson(path, [{"id": p["id"], "body": p["body"], "params": p.get("params", [])} for p in progs])
    res = tlc("Expect", env={"PROGS": path}, workers=workers, coverage=False, timeout=1800, heap="8g")
    tlc_must_pass(res, "Expect")
    chk.add_tlc(res)
    out = {}
    for rec in res.printed("EXPECT"):
        rows = rec["rows"]
        for r in rows:
            r["s"] = sorted(r["s"])
        rows.sort(key=lambda r: (r["s"], r["a"]))
        out[rec["id"]] = None if rec["skipped"] else rows
    if len(out) != len(progs):
        raise ToolError("Expect answered %d of %d programs" % (len(out), len(progs)))
    return out


HEAD = "import qmluic.QtWidgets\nQWidget {\n  id: root\n  TSource { id: a }\n  TSub { id: b }\n"


def binding_doc(progs):
    """One document with one target object per program: t<i>.<prop>: <body>. Returns (qml, spans)."""
    qml = HEAD
    spans = []
    for i, p in enumerate(progs):
        line = "  TSource { id: t%d\n    %s: " % (i, p["prop"])
        start = len((qml + line).encode())
        body = lang.r_body(p["body"])
        if p.get("cm"):
            body = lang.with_comments(body, p["cm"])
        qml += line + body + "\n  }\n"
        spans.append((start, start + len(body.encode())))
    return qml + "}\n", spans


def handler_doc(progs):
    """One document with one emitter object per handler program: s<i>.on<Sig>: <handler>."""
    qml = HEAD
    for i, p in enumerate(progs):
        sig = p["sig"]
        text = lang.r_handler(p)
        if p.get("cm"):
            text = lang.with_comments(text, p["cm"])        # the same handler with a comment between every two lines
        qml += "  TSource { id: s%d\n    on%s: %s\n  }\n" % (i, sig[0].upper() + sig[1:], text)
    return qml + "}\n"


def accepted_individually(chk, progs, kind="binding", want_ir=True):
    """Translate each program alone (in-process, ~1 ms each). Returns {id: run} for generate mode."""
    reqs = []
    for p in progs:
        src = binding_doc([p])[0] if kind == "binding" else handler_doc([p])
        reqs.append({"id": p["id"], "src": src, "type_name": "Doc", "modes": ["generate"], "ir": want_ir})
    res = translate(reqs, metatypes=[VERIF_METATYPES])
    return {k: v["generate"] for k, v in res.items()}, {r["id"]: r["src"] for r in reqs}


def is_accepted(run):
    return bool(run.get("built")) and not run.get("has_error") and not run.get("panic") and run.get("header") is not None


def cap(s):
    return s[0].upper() + s[1:] if s else s
