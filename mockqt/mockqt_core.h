// Minimal executable stand-in for the part of Qt that qmluic's support header uses (DESIGN 4.3).
// Hand-written; the per-class declarations come from mockqt_classes.h, generated from the same
// metatypes qmluic is run with.
#pragma once
#include <algorithm>
#include <cassert>
#include <cstdint>
#include <cstdio>
#include <cstring>
#include <functional>
#include <iostream>
#include <limits>
#include <memory>
#include <sstream>
#include <stdexcept>
#include <string>
#include <tuple>
#include <type_traits>
#include <typeindex>
#include <utility>
#include <vector>

typedef uint32_t quint32;
typedef unsigned int uint;
typedef double qreal;

namespace mock {
struct Trap : std::runtime_error { using std::runtime_error::runtime_error; };
inline std::vector<std::string> &events() { static std::vector<std::string> e; return e; }
inline void event(const std::string &e) { events().push_back(e); }
inline std::string jstr(const std::string &s)
{
    std::string o = "\"";
    for (unsigned char c : s) {
        if (c == '"') o += "\\\""; else if (c == '\\') o += "\\\\";
        else if (c < 0x20 || c == 0x7f) { char b[8]; std::snprintf(b, sizeof b, "\\u%04x", c); o += b; }
        else o += static_cast<char>(c);
    }
    return o + "\"";
}
}

#define Q_UNLIKELY(x) (x)
#define Q_UNREACHABLE() throw ::mock::Trap("unreachable")
#define Q_ASSERT_X(cond, where, what) do { if (!(cond)) throw ::mock::Trap(std::string("assert:") + what); } while (0)

// <QtGlobal> pulls in qnumeric.h
inline double qInf() { return std::numeric_limits<double>::infinity(); }
inline double qQNaN() { return std::numeric_limits<double>::quiet_NaN(); }

class QString {
public:
    QString() {}
    QString(const char *s) : d(s) {}
    QString(const std::string &s) : d(s) {}
    bool isEmpty() const { return d.empty(); }
    // Qt semantics: replaces every occurrence of the lowest-numbered place marker %1..%99
    QString arg(const QString &a) const
    {
        int lowest = 100;
        for (size_t i = 0; i + 1 < d.size(); ++i) {
            if (d[i] == '%' && d[i + 1] >= '0' && d[i + 1] <= '9') {
                int n = d[i + 1] - '0';
                if (i + 2 < d.size() && d[i + 2] >= '0' && d[i + 2] <= '9') n = n * 10 + (d[i + 2] - '0');
                if (n >= 1 && n < lowest) lowest = n;
            }
        }
        if (lowest == 100) return *this;
        std::string o;
        for (size_t i = 0; i < d.size();) {
            if (d[i] == '%' && i + 1 < d.size() && d[i + 1] >= '0' && d[i + 1] <= '9') {
                int n = d[i + 1] - '0'; size_t len = 2;
                if (i + 2 < d.size() && d[i + 2] >= '0' && d[i + 2] <= '9') { n = n * 10 + (d[i + 2] - '0'); len = 3; }
                if (n == lowest) { o += a.d; i += len; continue; }
            }
            o += d[i++];
        }
        return QString(o);
    }
    QString arg(int a) const { return arg(QString(std::to_string(a))); }
    QString arg(uint a) const { return arg(QString(std::to_string(a))); }
    friend QString operator+(const QString &a, const QString &b) { return QString(a.d + b.d); }
    friend bool operator==(const QString &a, const QString &b) { return a.d == b.d; }
    friend bool operator!=(const QString &a, const QString &b) { return a.d != b.d; }
    friend bool operator<(const QString &a, const QString &b) { return a.d < b.d; }
    friend bool operator<=(const QString &a, const QString &b) { return a.d <= b.d; }
    friend bool operator>(const QString &a, const QString &b) { return a.d > b.d; }
    friend bool operator>=(const QString &a, const QString &b) { return a.d >= b.d; }
    std::string d;
};
// The real macro only accepts a string literal (it pastes u"" in front): keep that restriction.
#define QStringLiteral(s) QString(std::string("" s, sizeof("" s) - 1))

template <typename T> class QList : public std::vector<T> {
public:
    using std::vector<T>::vector;
    bool isEmpty() const { return this->empty(); }
    const T &at(long long i) const
    {
        if (i < 0 || static_cast<size_t>(i) >= this->size()) throw mock::Trap("index out of range");
        return std::vector<T>::operator[](static_cast<size_t>(i));
    }
    T &operator[](long long i)
    {
        if (i < 0 || static_cast<size_t>(i) >= this->size()) throw mock::Trap("index out of range");
        return std::vector<T>::operator[](static_cast<size_t>(i));
    }
    const T &operator[](long long i) const { return at(i); }
};
typedef QList<QString> QStringList;

template <typename E> class QFlags {
public:
    constexpr QFlags() : v(0) {}
    constexpr QFlags(E e) : v(static_cast<int>(e)) {}
    static constexpr QFlags fromInt(int i) { QFlags f; f.v = i; return f; }
    constexpr operator int() const { return v; }
    constexpr QFlags operator|(QFlags o) const { return fromInt(v | o.v); }
    constexpr QFlags operator|(E o) const { return fromInt(v | static_cast<int>(o)); }
    constexpr QFlags operator&(QFlags o) const { return fromInt(v & o.v); }
    constexpr QFlags operator&(E o) const { return fromInt(v & static_cast<int>(o)); }
    constexpr QFlags operator^(QFlags o) const { return fromInt(v ^ o.v); }
    constexpr QFlags operator^(E o) const { return fromInt(v ^ static_cast<int>(o)); }
    constexpr QFlags operator~() const { return fromInt(~v); }
    constexpr bool operator!() const { return !v; }
    int v;
};
#define MOCK_DECLARE_FLAG_OPERATORS(E) \
    constexpr inline QFlags<E> operator|(E a, E b) { return QFlags<E>(a) | b; } \
    constexpr inline QFlags<E> operator|(E a, QFlags<E> b) { return b | a; }

class QVariant {
public:
    QVariant() {}
    QVariant(int v) : k(1), i(v) {}
    QVariant(double v) : k(2), f(v) {}
    QVariant(bool v) : k(3), i(v) {}
    QVariant(const QString &v) : k(4), s(v) {}
    template <typename T> T value() const
    {
        if constexpr (std::is_same_v<T, int>) return k == 1 || k == 3 ? static_cast<int>(i) : k == 2 ? static_cast<int>(f) : 0;
        else if constexpr (std::is_same_v<T, uint>) return k == 1 || k == 3 ? static_cast<uint>(i) : 0u;
        else if constexpr (std::is_same_v<T, double>) return k == 2 ? f : k == 1 ? static_cast<double>(i) : 0.0;
        else if constexpr (std::is_same_v<T, bool>) return k == 3 || k == 1 ? i != 0 : false;
        else if constexpr (std::is_same_v<T, QString>) return k == 4 ? s : QString();
        else return T();
    }
    friend bool operator==(const QVariant &a, const QVariant &b) { return a.k == b.k && a.i == b.i && a.f == b.f && a.s == b.s; }
    int k = 0; long long i = 0; double f = 0; QString s;
};

namespace mock {
inline std::string show(int v) { return std::to_string(v); }
inline std::string show(unsigned v) { return std::to_string(v); }
inline std::string show(bool v) { return v ? "true" : "false"; }
inline std::string show(double v) { char b[64]; std::snprintf(b, sizeof b, "%a", v); return b; }
inline std::string show(const QString &v) { return jstr(v.d); }
inline std::string show(const char *v) { return jstr(v); }
inline std::string show(const QStringList &v) { std::string o = "["; for (size_t i = 0; i < v.size(); ++i) { if (i) o += ","; o += jstr(v[i].d); } return o + "]"; }
inline std::string show(const QVariant &v) { return "variant:" + std::to_string(v.k) + ":" + std::to_string(v.i) + ":" + show(v.f) + ":" + jstr(v.s.d); }
template <typename E> std::string show(QFlags<E> v) { return std::to_string(v.v); }
template <typename T, std::enable_if_t<std::is_enum_v<T>, int> = 0> std::string show(T v) { return std::to_string(static_cast<int>(v)); }
}

class QObject;
namespace QMetaObject {
struct ConnData { bool alive = true; };
class Connection {
public:
    Connection() {}
    explicit Connection(std::shared_ptr<ConnData> p) : d(std::move(p)) {}
    explicit operator bool() const { return d && d->alive; }
    std::shared_ptr<ConnData> d;
};
}

template <typename... Args> struct QOverload {
    template <typename C, typename R> static constexpr auto of(R (C::*p)(Args...)) -> decltype(p) { return p; }
};

class QObject {
public:
    virtual ~QObject() {}
    struct Slot {
        std::type_index cls; std::vector<unsigned char> pmf; std::function<void(void **)> fn;
        std::shared_ptr<QMetaObject::ConnData> conn;
    };
    std::vector<Slot> slots_;
    std::string mockName;
    static long &connectCount() { static long n = 0; return n; }

    template <typename C, typename... A>
    static std::vector<unsigned char> key(void (C::*p)(A...)) { std::vector<unsigned char> k(sizeof(p)); std::memcpy(k.data(), &p, sizeof(p)); return k; }

    template <typename F, typename Tuple, std::size_t... I>
    static void call_with(F &f, Tuple &t, std::index_sequence<I...>) { f(std::get<I>(t)...); }
    template <typename F, typename Tuple, std::size_t... I>
    static constexpr bool can_call(std::index_sequence<I...>) { return std::is_invocable_v<F &, std::tuple_element_t<I, Tuple>...>; }
    // Qt's rule: the functor receives the longest prefix of the signal arguments it accepts
    template <std::size_t N, typename F, typename Tuple>
    static void call_prefix(F &f, Tuple &t)
    {
        if constexpr (can_call<F, Tuple>(std::make_index_sequence<N>{})) call_with(f, t, std::make_index_sequence<N>{});
        else if constexpr (N > 0) call_prefix<N - 1>(f, t);
        else static_assert(N != 0, "functor not callable with any prefix of the signal arguments");
    }

    template <typename S, typename C, typename... A, typename F>
    static QMetaObject::Connection connect(S *sender, void (C::*sig)(A...), QObject *context, F f)
    {
        static_assert(std::is_base_of_v<C, S>, "sender must derive from the signal's class");
        static_assert(std::is_base_of_v<QObject, S>, "sender must be a QObject");
        if (!sender) throw mock::Trap("connect: null sender");
        if (!context) throw mock::Trap("connect: null context");
        ++connectCount();
        auto cd = std::make_shared<QMetaObject::ConnData>();
        Slot s{std::type_index(typeid(C)), key(sig), [f](void **a) mutable {
            std::size_t i = 0; (void)i; (void)a;
            std::tuple<std::decay_t<A>...> t{*static_cast<std::decay_t<A> *>(a[i++])...};
            call_prefix<sizeof...(A)>(f, t);
        }, cd};
        static_cast<QObject *>(sender)->slots_.push_back(std::move(s));
        return QMetaObject::Connection(cd);
    }
    static bool disconnect(const QMetaObject::Connection &c) { if (c.d && c.d->alive) { c.d->alive = false; return true; } return false; }

    template <typename C, typename... A>
    void emit_(void (C::*sig)(A...), std::decay_t<A>... args)
    {
        auto k = key(sig); std::type_index ti(typeid(C));
        void *argv[sizeof...(A) + 1] = {static_cast<void *>(&args)...};
        auto copy = slots_; // connections made during emission are not invoked for this emission
        for (auto &s : copy) if (s.conn->alive && s.cls == ti && s.pmf == k) s.fn(argv);
    }
    int liveConnections() const { int n = 0; for (auto &s : slots_) if (s.conn->alive) ++n; return n; }
    QString objectName_;
    QString objectName() const { return objectName_; }
    void objectNameChanged(const QString &a0) { this->emit_(static_cast<void (QObject::*)(const QString &)>(&QObject::objectNameChanged), a0); }
    void setObjectName(const QString &v) { if (!(objectName_ == v)) { objectName_ = v; objectNameChanged(v); } }
};

namespace mock {
template <typename T> std::string show(T *v) { return v ? static_cast<const QObject *>(v)->mockName : std::string("null"); }
}

struct QCoreApplication {
    static QString translate(const char *ctx, const char *s) { return QString(std::string("tr(") + ctx + "|" + s + ")"); }
};
