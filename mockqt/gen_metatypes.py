#!/usr/bin/env python3
"""Writes verif_metatypes.json: the small verification class library (DESIGN 4.3).

The output is committed; re-run only when the library changes. Names of properties and signals do
not end in a digit and are not prefixes of one another in capitalised form (C16 name-model assumption).
"""
import json, os

def prop(name, ty, read=None, write=None, notify=None, constant=False, final=False):
    d = dict(name=name, type=ty, designable=True, scriptable=True, stored=True, user=False,
             constant=constant, final=final, required=False)
    if read: d['read'] = read
    if write: d['write'] = write
    if notify: d['notify'] = notify
    return d

def rw(name, ty, notify=True):
    cap = name[0].upper() + name[1:]
    return prop(name, ty, name, 'set' + cap, name + 'Changed' if notify else None)

def cls(name, supers=(), props=(), signals=(), slots=(), methods=(), enums=(), object=True, gadget=False, namespace=False):
    return dict(className=name, qualifiedClassName=name, superClasses=[dict(name=s, access='public') for s in supers],
                object=object, gadget=gadget, namespace=namespace, enums=list(enums), properties=list(props),
                signals=list(signals), slots=list(slots), methods=list(methods))

def meth(name, ret='void', args=(), access='public'):
    return dict(name=name, access=access, returnType=ret, arguments=[dict(type=t) for t in args])

def enum(name, values, flag=False, alias=None, isclass=False):
    d = dict(name=name, isClass=isclass, isFlag=flag, values=values)
    if alias: d['alias'] = alias
    return d

def chg(*names):
    return [meth(n + 'Changed') for n in names]

TSOURCE_PROPS = [
    rw('ival', 'int'), rw('jval', 'int'), rw('uval', 'uint'), rw('dval', 'double'),
    rw('flag', 'bool'), rw('flagB', 'bool'), rw('text', 'QString'), rw('textB', 'QString'),
    rw('mode', 'Mode'), rw('opts', 'Opts'), rw('optOne', 'Opt'), rw('ptr', 'TSource*'), rw('sub', 'TSub*'),
    rw('items', 'QStringList'), rw('vval', 'QVariant'), rw('level', 'Level'),
    prop('konst', 'int', 'konst', constant=True),
    prop('quiet', 'int', 'quiet', 'setQuiet'),                     # readable+writable, no NOTIFY, not CONSTANT
    prop('rdonly', 'int', 'rdonly', None, 'rdonlyChanged'),         # read-only with NOTIFY
    prop('cptr', 'TSource*', 'cptr', constant=True),               # constant pointer
    prop('fin', 'int', 'fin', None, 'finChanged', final=True),      # FINAL, read-only, with NOTIFY: not a constant
    prop('finq', 'int', 'finq', final=True),                        # FINAL, read-only, no NOTIFY: unobservable
]

classes = [
    cls('Qt', object=False, namespace=True, enums=[
        enum('CursorShape', ['ArrowCursor', 'WaitCursor']), enum('BrushStyle', ['NoBrush', 'SolidPattern']),
        enum('Orientation', ['Horizontal', 'Vertical']),
        enum('AlignmentFlag', ['AlignLeft', 'AlignRight']),
        enum('Alignment', ['AlignLeft', 'AlignRight'], flag=True, alias='AlignmentFlag')]),
    cls('QObject', props=[prop('objectName', 'QString', 'objectName', 'setObjectName', 'objectNameChanged')],
        signals=[meth('objectNameChanged', args=['QString'])]),
    cls('QFont', object=False, gadget=True, enums=[enum('StyleStrategy', ['PreferDefault', 'NoAntialias'])],
        props=[prop('family', 'QString', 'family', 'setFamily'), prop('pointSize', 'int', 'pointSize', 'setPointSize'),
               prop('bold', 'bool', 'bold', 'setBold'), prop('italic', 'bool', 'italic', 'setItalic')]),
    cls('QWidget', supers=['QObject', 'QPaintDevice'], props=[
        prop('font', 'QFont', 'font', 'setFont'),
        prop('windowTitle', 'QString', 'windowTitle', 'setWindowTitle', 'windowTitleChanged'),
        prop('enabled', 'bool', 'isEnabled', 'setEnabled'), prop('visible', 'bool', 'isVisible', 'setVisible')],
        signals=[meth('windowTitleChanged', args=['QString'])]),
    cls('QLayout', supers=['QObject', 'QLayoutItem']),
    cls('QBoxLayout', supers=['QLayout']), cls('QVBoxLayout', supers=['QBoxLayout']), cls('QHBoxLayout', supers=['QBoxLayout']),
    cls('QFormLayout', supers=['QLayout']), cls('QGridLayout', supers=['QLayout']),
    cls('QAction', supers=['QObject']), cls('QMenu', supers=['QWidget']),
    cls('QComboBox', supers=['QWidget']), cls('QAbstractItemView', supers=['QWidget']),
    cls('QListView', supers=['QAbstractItemView']), cls('QListWidget', supers=['QListView']),
    cls('QTableView', supers=['QAbstractItemView']), cls('QTreeView', supers=['QAbstractItemView']),
    cls('QTabWidget', supers=['QWidget']),
    cls('QAbstractButton', supers=['QWidget']), cls('QPushButton', supers=['QAbstractButton']),
    cls('QKeySequence', object=False, gadget=True, enums=[enum('StandardKey', ['UnknownKey', 'Open'])]),
    cls('QSizePolicy', object=False, gadget=True, enums=[enum('Policy', ['Fixed', 'Minimum'])]),
    cls('QHeaderView', supers=['QAbstractItemView']), cls('QAbstractItemModel', supers=['QObject']),
    cls('TGadget', object=False, gadget=True, props=[prop('gx', 'int', 'gx', 'setGx'), prop('gy', 'int', 'gy', 'setGy'),
                                                       prop('gname', 'QString', 'gname', 'setGname')]),
    cls('TSource', supers=['QWidget'],
        enums=[enum('Mode', ['ModeA', 'ModeB', 'ModeC']), enum('Level', ['Low', 'Mid', 'High'], isclass=True), enum('Opt', ['OptX', 'OptY', 'OptZ']),
               enum('Opts', ['OptX', 'OptY', 'OptZ'], flag=True, alias='Opt')],
        props=TSOURCE_PROPS + [rw('gad', 'TGadget')],
        signals=chg('jval', 'uval', 'dval', 'flag', 'flagB', 'text', 'textB', 'mode', 'opts', 'optOne', 'ptr', 'sub', 'items',
                    'vval', 'rdonly', 'gad', 'level', 'fin')
        + [meth('ivalChanged', args=['int']),
           meth('fired', args=['int', 'QString']), meth('fired', args=['int']),      # default-argument pair
           meth('plain'), meth('toggledTo', args=['bool']),
           meth('ovl', args=['int']), meth('ovl', args=['QString']),                  # true overload
           meth('lvl'), meth('lvl', args=['int']), meth('lvl', args=['QString']),     # default argument AND overload
           meth('peaked'), meth('peaked', args=['int']), meth('peaked', args=['int', 'int']),   # two default arguments
           meth('picked', args=['TSub*']), meth('moded', args=['Mode']), meth('fontPicked', args=['QFont']),
           meth('optsPicked', args=['Opts']), meth('optsAndText', args=['Opts', 'QString'])],      # a flags value is passed by value, like an enum
        slots=[meth('act', args=['int']), meth('actText', args=['QString']), meth('actTwo', args=['int', 'int']),
               meth('actFlag', args=['bool']), meth('actPtr', args=['TSource*']), meth('poke'),
               # slots that are not public: the meta-object system could invoke them, a direct C++ call from another class cannot
               meth('guarded', access='protected'), meth('guardedInt', args=['int'], access='protected'), meth('hidden', access='private')],
        methods=[meth('twice', 'int', ['int']), meth('label', 'QString', [])]),
    cls('TSub', supers=['TSource'], props=[rw('xval', 'int')], signals=chg('xval')),
    cls('TBroken', supers=['QWidget', 'MissingIface']),       # a QObject class that also inherits a plain C++ interface unknown to the type map
    cls('TOther', supers=['QWidget'], props=[rw('ival', 'int'), rw('val', 'int'), rw('subVal', 'int'), rw('title', 'QString')],
        signals=chg('ival', 'val', 'subVal', 'title')),
]

out = os.path.join(os.path.dirname(os.path.abspath(__file__)), 'verif_metatypes.json')
json.dump([dict(classes=classes, inputFile='verif.h', outputRevision=68)], open(out, 'w'), indent=1)
print('wrote', out, len(classes), 'classes')
# the T* classes alone, to be loaded next to the bundled Qt 5 metatypes (gadget sub-bindings, real widgets)
tonly = [c for c in classes if c['className'].startswith('T')] + [cls('Label1', supers=['QLabel']), cls('Widget2', supers=['QWidget'])]
out2 = os.path.join(os.path.dirname(os.path.abspath(__file__)), 'verif_t_metatypes.json')
json.dump([dict(classes=tonly, inputFile='verif.h', outputRevision=68)], open(out2, 'w'), indent=1)
print('wrote', out2, len(tonly), 'classes')
